#!/usr/bin/env python3
"""Self-test of the checkers (not a registered check): apply each mutant under selftest/mutants/ to a
scratch copy of /repo/include, run the owning check with --root, and require the expected outcome
(exit 1 naming the rule for property-breaking mutants, exit 0 for behaviour-preserving edits)."""
import json, os, shutil, subprocess, sys, tempfile, time
HERE = os.path.dirname(os.path.abspath(__file__))
VERIF = os.path.dirname(HERE)
REPO = os.environ.get("YV_REPO", "/repo")

def run_one(m, tier="quick"):
    tmp = tempfile.mkdtemp(prefix="yv.")
    try:
        shutil.copytree(os.path.join(REPO, "include"), os.path.join(tmp, "include"))
        r = subprocess.run(["patch", "-p1", "-s", "-d", tmp, "-i", os.path.join(HERE, "mutants", m["patch"])], capture_output=True, text=True)
        if r.returncode != 0:
            return False, "patch does not apply: " + r.stdout[-300:] + r.stderr[-300:]
        res = []
        ok = True
        for prop in m["properties"]:
            env = dict(os.environ, YV_EVIDENCE_DIR=os.path.join(tmp, "ev"), YV_CACHE_DIR=os.path.join(tmp, "cache"))     # a mutant's artefacts go away with its scratch copy
            t = time.time()
            r = subprocess.run([os.path.join(VERIF, "bin", "check"), prop, "--tier", tier, "--root", tmp], capture_output=True, text=True, env=env)
            exp = 1 if m["expect"] == "violation" else 0
            good = r.returncode == exp and (exp != 1 or "VIOLATION property=" in r.stdout)
            if good and exp == 1 and m.get("rule"):
                good = ("[%s]" % m["rule"]) in r.stdout
            ok = ok and good
            lines = [l for l in r.stdout.splitlines() if l.startswith(("  violated", "VIOLATION", "ANALYSIS", "OK "))]
            res.append("%s exit=%d (%.0fs) %s" % (prop, r.returncode, time.time() - t, " | ".join(l[:200] for l in lines[:3])))
            if r.returncode == 2:
                res.append(r.stdout[-300:].replace("\n", " "))
        return ok, "; ".join(res)
    finally:
        shutil.rmtree(tmp, ignore_errors=True)

def main():
    ms = json.load(open(os.path.join(HERE, "mutants.json")))
    sel = sys.argv[1:]
    tier = os.environ.get("VERIF_TIER", "quick")
    bad = 0
    todo = [m for m in ms if not sel or any(s in m["name"] or s in m["properties"] for s in sel)]
    jobs = int(os.environ.get("VERIF_JOBS", "1"))
    from concurrent.futures import ThreadPoolExecutor
    with ThreadPoolExecutor(max_workers=jobs) as ex:
        for m, (ok, info) in zip(todo, ex.map(lambda m: run_one(m, tier), todo)):
            print("%s %-34s expect=%-9s %s" % ("PASS" if ok else "FAIL", m["name"], m["expect"], info), flush=True)
            bad += 0 if ok else 1
    print("selftest: %d failing" % bad)
    return 1 if bad else 0

if __name__ == "__main__":
    sys.exit(main())
