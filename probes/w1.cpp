#include <yorel/yomm2/keywords.hpp>
#include <yorel/yomm2/policy.hpp>
using namespace yorel::yomm2;
struct A { virtual ~A(){} }; struct B : A {}; struct C : A {};
register_classes(A,B,C);
declare_method(int, f, (virtual_<A&>, int, virtual_<A&>));
define_method(int, f, (B&, int, C&)) { return 1; }
int call(A& a, A& b) { return f(a, 3, b); }
int main(){ update(); B b; C c; return call(b,c); }
