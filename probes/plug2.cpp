#include "clang/AST/AST.h"
#include "clang/AST/ASTConsumer.h"
#include "clang/AST/RecursiveASTVisitor.h"
#include "clang/AST/ParentMap.h"
#include "clang/Analysis/CFG.h"
#include "clang/Analysis/AnalysisDeclContext.h"
#include "clang/Analysis/Analyses/Dominators.h"
#include "clang/Frontend/CompilerInstance.h"
#include "clang/Frontend/FrontendPluginRegistry.h"
using namespace clang;
namespace {
struct V : RecursiveASTVisitor<V> {
  ASTContext &Ctx; V(ASTContext&C):Ctx(C){}
  bool shouldVisitTemplateInstantiations() const { return true; }
  bool VisitFunctionDecl(FunctionDecl *FD){
    if(!FD->doesThisDeclarationHaveABody()||!FD->getDeclName().isIdentifier()) return true;
    if(FD->getName()!="build_dispatch_tables" || !FD->isTemplateInstantiation()) return true;
    CFG::BuildOptions BO; BO.setAllAlwaysAdd(); BO.AddImplicitDtors=true; BO.AddTemporaryDtors=false;
    auto cfg = CFG::buildCFG(FD, FD->getBody(), &Ctx, BO);
    if(!cfg){ llvm::outs()<<"no cfg\n"; return true; }
    llvm::outs()<<"CFG blocks "<<cfg->size()<<"\n";
    ControlDependencyCalculator CDC(cfg.get());
    for(auto*B:*cfg) for(auto&E:*B){ if(auto S=E.getAs<CFGStmt>()){ auto*st=S->getStmt();
       if(auto*BO2=dyn_cast<BinaryOperator>(st)) if(BO2->isAssignmentOp()){ 
          std::string s; llvm::raw_string_ostream os(s); BO2->getLHS()->printPretty(os,nullptr,Ctx.getPrintingPolicy());
          if(os.str().find("info->next")!=std::string::npos){ llvm::outs()<<"STORE "<<os.str()<<" in B"<<B->getBlockID()<<"\n";
             for(auto*D: CDC.getControlDependencies(B)){ llvm::outs()<<"  ctrl-dep on B"<<D->getBlockID()<<": "; if(auto*T=D->getTerminatorCondition()){ T->printPretty(llvm::outs(),nullptr,Ctx.getPrintingPolicy()); } else if (auto *TS = D->getTerminatorStmt()) { llvm::outs()<<TS->getStmtClassName(); } llvm::outs()<<"\n"; } } } } }
    return true; }
};
struct C : ASTConsumer { void HandleTranslationUnit(ASTContext &Ctx) override { V v(Ctx); v.TraverseDecl(Ctx.getTranslationUnitDecl()); } };
struct A : PluginASTAction {
  std::unique_ptr<ASTConsumer> CreateASTConsumer(CompilerInstance&, llvm::StringRef) override { return std::make_unique<C>(); }
  bool ParseArgs(const CompilerInstance&, const std::vector<std::string>&) override { return true; }
  ActionType getActionType() override { return AddAfterMainAction; }
};
}
static FrontendPluginRegistry::Add<A> X("yprobe2","probe");
