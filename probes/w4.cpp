#include <yorel/yomm2/keywords.hpp>
using namespace yorel::yomm2;
struct A { virtual ~A(){} }; struct B : A {};
struct ipol : policy::release::rebind<ipol>, policy::basic_indirect_vptr<ipol> {};
struct mpol : policy::basic_policy<mpol, policy::std_rtti, policy::vptr_map<mpol>, policy::vectored_error<mpol>> {};
template<class C> using ip = virtual_ptr<C, ipol>; template<class C> using mp = virtual_ptr<C, mpol>;
register_classes(A,B,ipol);
register_classes(A,B,mpol);
declare_method(int, h, (ip<A>), ipol);
define_method(int, h, (ip<B>)) { return 1; }
declare_method(int, k, (mp<A>, virtual_<A&>), mpol);
define_method(int, k, (mp<B>, B&)) { return 1; }
int main(){ update<ipol>(); update<mpol>(); B b; A& a = b; virtual_ptr<A, ipol> p(a); virtual_ptr<A, mpol> q(a); auto f = virtual_ptr<B, ipol>::final(b); virtual_ptr<A, ipol> p2 = f; return h(p) + k(q, a) + h(p2); }
