#include "clang/AST/AST.h"
#include "clang/AST/ASTConsumer.h"
#include "clang/AST/RecursiveASTVisitor.h"
#include "clang/Frontend/CompilerInstance.h"
#include "clang/Frontend/FrontendPluginRegistry.h"
using namespace clang;
namespace {
struct V : RecursiveASTVisitor<V> {
  ASTContext &Ctx; V(ASTContext&C):Ctx(C){}
  bool shouldVisitTemplateInstantiations() const { return true; }
  bool VisitFunctionDecl(FunctionDecl *FD){
    if(!FD->doesThisDeclarationHaveABody()) return true;
    if(!FD->getDeclName().isIdentifier()) return true;
    if((FD->getName()=="is_more_specific") && FD->isTemplateInstantiation()){
      llvm::outs()<<"INST "<<FD->getQualifiedNameAsString()<<" ";
      
      llvm::outs()<<"\n"; FD->getBody()->printPretty(llvm::outs(), nullptr, Ctx.getPrintingPolicy());
    }
    return true; }
};
struct C : ASTConsumer { void HandleTranslationUnit(ASTContext &Ctx) override { V v(Ctx); v.TraverseDecl(Ctx.getTranslationUnitDecl()); } };
struct A : PluginASTAction {
  std::unique_ptr<ASTConsumer> CreateASTConsumer(CompilerInstance&, llvm::StringRef) override { return std::make_unique<C>(); }
  bool ParseArgs(const CompilerInstance&, const std::vector<std::string>&) override { return true; }
  ActionType getActionType() override { return AddAfterMainAction; }
};
}
static FrontendPluginRegistry::Add<A> X("yprobe","probe");
