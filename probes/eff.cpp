#include "llvm/IR/LLVMContext.h"
#include "llvm/IR/Module.h"
#include "llvm/IR/Instructions.h"
#include "llvm/IR/IntrinsicInst.h"
#include "llvm/IR/Operator.h"
#include "llvm/IRReader/IRReader.h"
#include "llvm/Support/SourceMgr.h"
#include "llvm/Support/raw_ostream.h"
#include "llvm/Demangle/Demangle.h"
#include <set>
#include <deque>
using namespace llvm;
static std::string dm(StringRef n){ return demangle(n.str()); }
static std::string root(Value*v,int d=0){ if(d>20) return "deep"; v=v->stripPointerCasts();
 if(isa<AllocaInst>(v)) return "LOCAL"; if(auto*g=dyn_cast<GlobalVariable>(v)) return "GLOBAL:"+dm(g->getName());
 if(auto*a=dyn_cast<Argument>(v)){ if(a->hasStructRetAttr()) return "SRET"; return "ARG"+std::to_string(a->getArgNo()); }
 if(auto*g=dyn_cast<GetElementPtrInst>(v)) return root(g->getPointerOperand(),d+1);
 if(auto*g=dyn_cast<GEPOperator>(v)) return root(g->getPointerOperand(),d+1);
 if(isa<LoadInst>(v)) return "LOADED"; if(auto*c=dyn_cast<CallBase>(v)) return "CALLRET:"+(c->getCalledFunction()?dm(c->getCalledFunction()->getName()).substr(0,60):"indirect");
 if(isa<PHINode>(v)) return "PHI"; return "OTHER"; }
int main(int argc,char**argv){ LLVMContext C; SMDiagnostic E; auto M=parseIRFile(argv[1],E,C); if(!M){E.print("eff",errs());return 2;}
 std::deque<Function*> wl; std::set<Function*> seen;
 for(auto&F:*M){ if(F.isDeclaration())continue; auto n=dm(F.getName());
   if(n.find("yorel::yomm2::method<")!=std::string::npos && n.find("::operator()(")!=std::string::npos && n.find("add_function")==std::string::npos) {wl.push_back(&F);seen.insert(&F);}
   if(n.find("yorel::yomm2::virtual_ptr<")==0 || n.find("::virtual_ptr<")!=std::string::npos && n.find("yorel::yomm2::virtual_ptr<")!=std::string::npos && n.find("method<")==std::string::npos){ if(seen.insert(&F).second) wl.push_back(&F);} }
 outs()<<"entries "<<wl.size()<<"\n";
 while(!wl.empty()){ auto*F=wl.front(); wl.pop_front(); auto fn=dm(F->getName()); bool lib=fn.find("yorel::yomm2")!=std::string::npos; 
   bool stdfn = fn.rfind("std::",0)==0 || fn.find(" std::")!=std::string::npos&&fn.find("yorel")==std::string::npos;
   if(!lib) continue;
   for(auto&BB:*F)for(auto&I:BB){
     if(auto*S=dyn_cast<StoreInst>(&I)){ auto r=root(S->getPointerOperand()); if(r!="LOCAL") outs()<<"STORE "<<r<<"  in "<<fn.substr(0,110)<<"\n"; }
     if(auto*CB=dyn_cast<CallBase>(&I)){ if(isa<DbgInfoIntrinsic>(CB)) continue; auto*cal=CB->getCalledFunction(); if(!cal){ outs()<<"INDIRECT in "<<fn.substr(0,90)<<"\n"; continue;}
        auto cn=dm(cal->getName()); if(cn.find("yorel::yomm2")!=std::string::npos && !cal->isDeclaration()){ if(seen.insert(cal).second) wl.push_back(cal);} else outs()<<"EXT "<<cn.substr(0,100)<<"   <- "<<fn.substr(0,60)<<"\n"; } } }
}
