"""Effect analysis over IR JSON (E2 `eff`).

For an entry function, walks everything reachable through direct calls into
library code (names containing `yorel::yomm2`), propagating the *provenance* of
pointer arguments through the argument bindings of each call, and collects

  * writes: non-atomic stores / mem-intrinsic destinations / calls of non-const
    (or non-const-reference-taking) trusted functions, with the provenance of
    the written object;
  * the set of globals referenced (read set);
  * stop points (user code, handler calls, indirect calls).

Provenance atoms
  ('local',)            alloca of the entry or of a callee
  ('earg', k)           k-th IR argument of the entry
  ('global', name)
  ('loaded', atoms...)  pointer loaded from memory whose address has these atoms
  ('ret', callee)       pointer returned by a trusted / unknown call
  ('const',)            null / integer constant
"""
import re
from . import irq

LIB = "yorel::yomm2"

# trusted functions that only pass a pointer through (result aliases an argument)
PASS_THROUGH = re.compile(
    r"(std::forward<|std::move<|std::addressof<|std::__addressof<|std::get<|std::__get_helper<|"
    r"::operator\*\(\) const$|::operator->\(\) const$|::get\(\) const$|::_M_get\(\) const$|std::__to_address)")

# non-const trusted member functions that the C++ standard library guarantees not to modify the
# container ([container.requirements.dataraces]/1: begin, end, rbegin, rend, front, back, data, find,
# lower_bound, upper_bound, equal_range, at and, except in associative or unordered associative
# containers, operator[] are treated as const for data-race purposes)
DATARACE_CONST = re.compile(
    r"^std::(vector|deque|array|basic_string|__cxx11::basic_string)<.*>::(operator\[\]|begin|end|rbegin|rend|front|back|data|at)\(|"
    r"^std::(map|set|multimap|multiset|unordered_map|unordered_set|unordered_multimap|unordered_multiset)<.*>::(begin|end|find|lower_bound|upper_bound|equal_range|at)\(")

class _HandlerCall:
    """calls of a policy's error handler: the std::function `error` object of vectored_error, or a
    static member function `error(const error_type&)` of a facet (throw_error, user facets)."""
    FN = re.compile(r"^std::function<void \(std::variant<yorel::yomm2::error, .*\) const$")
    ST = re.compile(r"^(?!std::)[^()]*::error\(std::variant<yorel::yomm2::error, ")

    def search(self, dname):
        d = irq.strip_ret(dname)
        return self.FN.search(d) or self.ST.search(d)


HANDLER_CALL = _HandlerCall()


class Effects:
    def __init__(self):
        self.writes = []     # dict(kind, prov, where, fn, chain)
        self.globals_ref = {}  # name -> first where
        self.stops = []      # dict(kind, callee, where)
        self.visited = set()
        self.atomics = []
        self.funcs = set()


def _atoms_shared(atoms, own_eargs):
    """subset of atoms that denote memory other threads may reach."""
    out = []
    for a in atoms:
        if a[0] == "global":
            out.append(a)
        elif a[0] == "earg" and a[1] not in own_eargs:
            out.append(a)
        elif a[0] == "loaded":
            out.append(a)
        elif a[0] == "ret":
            out.append(a)
        elif a[0] == "unknown":
            out.append(a)
    return out


class Analyzer:
    def __init__(self, mod, is_lib=None, max_depth=40):
        self.mod = mod
        self.is_lib = is_lib or (lambda f: irq.is_lib_name(f.dname))
        self.max_depth = max_depth
        self._local_cache = {}

    # -- provenance of a value inside fn, given binding of fn's args ------------
    def prov(self, fn, ref, binding, memo, depth=0):
        if depth > 60:
            return frozenset([("unknown", "deep")])
        k = ref[0]
        if k == "a":
            return binding.get(ref[1], frozenset([("unknown", "unbound-arg")]))
        if k == "g":
            return frozenset([("global", ref[1])])
        if k == "f":
            return frozenset([("const",)])
        if k in ("c", "null", "undef", "fp", "zero", "agg"):
            return frozenset([("const",)])
        if k == "cgep":
            return self.prov(fn, ref[1], binding, memo, depth + 1)
        if k == "ce":
            out = set()
            for o in ref[2]:
                out |= self.prov(fn, o, binding, memo, depth + 1)
            return frozenset(out)
        if k == "i":
            key = ref[1]
            if key in memo:
                return memo[key]
            memo[key] = frozenset()  # cycle guard (phi loops)
            ins = fn.insts[key]
            r = self._prov_inst(fn, ins, binding, memo, depth)
            memo[key] = r
            return r
        return frozenset([("unknown", str(k))])

    def _prov_inst(self, fn, ins, binding, memo, depth):
        op = ins.op
        if op == "alloca":
            return frozenset([("local", fn.name, ins.id)])
        if op in ("getelementptr",):
            return self.prov(fn, ins.ops[0], binding, memo, depth + 1)
        if op in ("bitcast", "addrspacecast", "inttoptr", "ptrtoint", "freeze"):
            return self.prov(fn, ins.ops[0], binding, memo, depth + 1)
        if op in ("phi", "select"):
            out = set()
            ops = ins.ops if op == "phi" else ins.ops[1:]
            for o in ops:
                out |= self.prov(fn, o, binding, memo, depth + 1)
            return frozenset(out)
        if op == "load":
            src = self.prov(fn, ins.ops[0], binding, memo, depth + 1)
            return frozenset([("loaded",) + tuple(sorted(src))])
        if op in ("add", "sub", "and", "or"):
            out = set()
            for o in ins.ops:
                out |= self.prov(fn, o, binding, memo, depth + 1)
            return frozenset(a for a in out if a[0] != "const") or frozenset([("const",)])
        if op in ("call", "invoke"):
            dc = ins.callee
            if dc is None:
                return frozenset([("ret", "indirect")])
            if PASS_THROUGH.search(dc) and ins.ops:
                return self.prov(fn, ins.ops[0], binding, memo, depth + 1)
            callee = self.mod.funcs.get(ins.get("callee"))
            if callee is not None and callee.body and self.is_lib(callee):
                rb = self.ret_prov(callee)
                out = set()
                for a in rb:
                    if a[0] == "argp":
                        if a[1] < len(ins.ops):
                            out |= self.prov(fn, ins.ops[a[1]], binding, memo, depth + 1)
                    else:
                        out.add(a)
                return frozenset(out)
            return frozenset([("ret", dc[:120])])
        if op in ("mul", "shl", "lshr", "ashr", "udiv", "sdiv", "icmp", "zext", "sext", "trunc", "xor", "urem", "srem"):
            return frozenset([("const",)])
        if op == "extractvalue":
            return self.prov(fn, ins.ops[0], binding, memo, depth + 1)
        if op == "landingpad":
            return frozenset([("local",)])
        return frozenset([("unknown", op)])

    def ret_prov(self, callee):
        """provenance of callee's returned pointer in terms of ('argp',k) placeholders."""
        if callee.name in self._local_cache:
            return self._local_cache[callee.name]
        self._local_cache[callee.name] = frozenset()
        binding = {k: frozenset([("argp", k)]) for k in range(len(callee.args))}
        out = set()
        memo = {}
        for ins in callee.all_insts():
            if ins.op == "ret" and ins.ops:
                out |= self.prov(callee, ins.ops[0], binding, memo)
        r = frozenset(out)
        self._local_cache[callee.name] = r
        return r

    # -- traversal --------------------------------------------------------------
    def run(self, entry, own_eargs=(), stop_at=None):
        """entry: Func. own_eargs: IR arg indexes of the entry that are owned by the calling thread
        (sret, by-value, rvalue-reference). Returns Effects."""
        eff = Effects()
        binding = {k: frozenset([("earg", k)]) for k in range(len(entry.args))}
        self._walk(entry, binding, eff, [entry.dname], set(own_eargs), stop_at, 0)
        # stores through a pointer that was loaded back from a purely local cell: local as long as everything ever stored into a
        # local cell on this entry's call tree is itself local (an address of a local, a constant, or such a loaded pointer advanced);
        # one shared pointer parked in a local cell and the deferred stores count as writes to shared memory again
        own = set(own_eargs)

        cells = getattr(eff, "local_cell_values", {})

        def cell_ok(cell, seen):
            if cell in seen:
                return True
            seen.add(cell)
            return all(harmless(vv, seen) for vv in cells.get(cell, []))

        def harmless(vv, seen):
            for a in vv:
                if a[0] in ("local", "const"):
                    continue
                if a[0] == "loaded" and a[1:] and all(x[0] == "local" for x in a[1:]):
                    if all(cell_ok(x, seen) for x in a[1:]):
                        continue
                    return False
                if a[0] == "earg" and a[1] in own:
                    continue
                return False
            return True
        for w in getattr(eff, "deferred_local", []) or []:
            if not all(all(cell_ok(x, set()) for x in a[1:]) for a in w["prov"]):
                eff.writes.append(w)
        return eff

    def _walk(self, fn, binding, eff, chain, own, stop_at, depth):
        key = (fn.name, tuple(sorted((k, v) for k, v in binding.items())))
        if key in eff.visited:
            return
        eff.visited.add(key)
        eff.funcs.add(fn.dname)
        if depth > self.max_depth:
            eff.stops.append({"kind": "depth", "callee": fn.dname, "where": fn.where()})
            return
        memo = {}
        guards = set()
        for ins in fn.all_insts():
            if ins.op in ("call", "invoke") and ins.callee and "__cxa_guard_acquire" in (ins.get("callee") or ""):
                for o in irq._flat_ops(ins):
                    if o[0] == "g":
                        guards.add(self.mod.gd(o[1]).replace("guard variable for ", ""))
        for ins in fn.all_insts():
            for o in irq._flat_ops(ins):
                if o[0] == "g":
                    eff.globals_ref.setdefault(o[1], ins.where())
            op = ins.op
            if op == "store":
                if ins.get("atomic"):
                    eff.atomics.append(ins.where())
                    continue
                pv = self.prov(fn, ins.ops[1], binding, memo)
                sh = _atoms_shared(pv, own)
                # what is stored into purely local cells (a cursor `p = &local_array[0]`, later advanced through a reference to it):
                # kept so that a pointer loaded back from a local cell can be told local when nothing else was ever put there
                if pv and all(a[0] == "local" for a in pv):
                    vv = self.prov(fn, ins.ops[0], binding, memo)
                    if not hasattr(eff, "local_cell_values"):
                        eff.local_cell_values = {}
                    for cell in pv:
                        eff.local_cell_values.setdefault(cell, []).append(vv)
                if sh and all(a[0] == "loaded" and a[1:] and all(x[0] == "local" for x in a[1:]) for a in sh):
                    if not hasattr(eff, "deferred_local"):
                        eff.deferred_local = []
                    eff.deferred_local.append({"kind": "store", "prov": sh, "where": ins.where(), "fn": fn.dname, "chain": list(chain)})
                    continue
                if sh:
                    # guarded initialisation of a function-local static
                    if all(a[0] == "global" and self.mod.gd(a[1]) in guards for a in sh):
                        continue
                    if all(a[0] == "global" and self.mod.gd(a[1]).startswith("guard variable for") for a in sh):
                        continue
                    eff.writes.append({"kind": "store", "prov": sh, "where": ins.where(), "fn": fn.dname, "chain": list(chain)})
            elif op in ("atomicrmw", "cmpxchg"):
                eff.atomics.append(ins.where())
            elif op in ("call", "invoke"):
                self._call(fn, ins, binding, memo, eff, chain, own, stop_at, depth)

    def _call(self, fn, ins, binding, memo, eff, chain, own, stop_at, depth):
        dc = ins.callee
        if dc is None:
            tgt = ins.get("indirect")
            pv = self.prov(fn, tgt, binding, memo) if tgt else frozenset()
            eff.stops.append({"kind": "indirect", "callee": str(sorted(pv))[:200], "where": ins.where(), "fn": fn.dname})
            return
        name = ins.get("callee")
        if name.startswith("llvm.mem"):
            pv = self.prov(fn, ins.ops[0], binding, memo)
            sh = _atoms_shared(pv, own)
            if sh:
                eff.writes.append({"kind": name.split(".")[1], "prov": sh, "where": ins.where(), "fn": fn.dname, "chain": list(chain)})
            return
        if name.startswith("llvm."):
            return
        if HANDLER_CALL.search(dc):
            eff.stops.append({"kind": "handler", "callee": dc[:160], "where": ins.where(), "fn": fn.dname})
            return
        if stop_at and stop_at(dc):
            eff.stops.append({"kind": "stop", "callee": dc[:160], "where": ins.where(), "fn": fn.dname})
            return
        callee = self.mod.funcs.get(name)
        if callee is not None and callee.body and self.is_lib(callee):
            nb = {}
            for k, o in enumerate(ins.ops):
                nb[k] = self.prov(fn, o, binding, memo)
            self._walk(callee, nb, eff, chain + [callee.dname], own, stop_at, depth + 1)
            return
        if name in ("abort", "__cxa_guard_acquire", "__cxa_guard_release", "__cxa_guard_abort", "__cxa_atexit"):
            return
        if irq.is_trusted(dc, name):
            self._trusted(fn, ins, dc, callee, binding, memo, eff, chain, own)
            return
        # user code (witness definitions) or an external we know nothing about
        eff.stops.append({"kind": "user" if (callee is not None and callee.body) else "external", "callee": dc[:160], "where": ins.where(), "fn": fn.dname})

    def _trusted(self, fn, ins, dc, callee, binding, memo, eff, chain, own):
        """call into the standard library: a write iff a shared object is passed where the callee may
        modify it (non-const `this`, or a non-const reference / pointer parameter)."""
        sd = irq.strip_ret(dc)
        if PASS_THROUGH.search(dc):
            return
        params = irq.param_list(sd)      # of the name without its return type (a function returning a function pointer nests two lists)
        if params is None:
            params = irq.param_list(dc)
        if params is None:
            params = []
        ops = list(ins.ops)
        nargs = len(ops)
        has_sret = bool(callee and callee.args and callee.args[0].get("sret"))
        off = 1 if has_sret else 0
        is_member = (nargs - off) == len(params) + 1
        for k, o in enumerate(ops):
            if k < off:
                continue
            pv = self.prov(fn, o, binding, memo)
            sh = _atoms_shared(pv, own)
            if not sh:
                continue
            if is_member and k == off:
                mutable = not irq.is_const_member(dc)
                if mutable and DATARACE_CONST.search(sd):
                    mutable = False
                ptype = "this"
            else:
                pi = k - off - (1 if is_member else 0)
                ptype = params[pi] if 0 <= pi < len(params) else "?"
                mutable = (ptype.endswith("&") or ptype.endswith("*")) and "const" not in ptype and not ptype.endswith("&&")
                if ptype.endswith("&&"):
                    mutable = True
                # references spelled inside the declarator: `R (*&)(A...)` (reference to a function pointer), `T (&)[N]`
                m = re.search(r"\(\s*\*\s*(const\s*)?&\s*\)", ptype)
                if m:
                    mutable = m.group(1) is None
                elif re.search(r"\(\s*&\s*\)\s*\[", ptype):
                    mutable = "const" not in ptype.split("(")[0]
            if mutable:
                eff.writes.append({"kind": "stdcall", "callee": sd[:900], "param": ptype, "prov": sh, "where": ins.where(), "fn": fn.dname, "chain": list(chain)})


def fmt_prov(mod, atoms):
    out = []
    for a in atoms:
        if a[0] == "global":
            out.append("global " + mod.gd(a[1]))
        elif a[0] == "loaded":
            out.append("loaded-from{" + ",".join(fmt_prov(mod, a[1:])) + "}")
        elif a[0] == "earg":
            out.append("entry-arg#%d" % a[1])
        elif a[0] == "ret":
            out.append("result-of " + str(a[1])[:80])
        else:
            out.append(str(a))
    return out
