"""Intraprocedural path queries on IR JSON (E2 `path`)."""


def after_call_reaches(fn, call, is_target, accept_noreturn=True):
    """Every normal-continuation path from just after `call` reaches an instruction satisfying
    is_target before any `ret`. Returns (ok, offending) where offending describes the first
    path that returns (or falls off) without passing a target."""
    start_bb = call.bb
    insts = fn.blocks[start_bb]
    idx = [k for k, i in enumerate(insts) if i.id == call.id][0]
    seen = set()
    # work items: (bb, start index)
    if call.op == "invoke":
        work = [(fn.succ(start_bb, normal_only=True)[0], 0)]
    else:
        work = [(start_bb, idx + 1)]
    while work:
        bb, k = work.pop()
        if (bb, k) in seen:
            continue
        seen.add((bb, k))
        lst = fn.blocks[bb]
        stopped = False
        for i in lst[k:]:
            if is_target(i):
                stopped = True
                break
            if i.op in ("call", "invoke") and accept_noreturn and i.get("noreturn"):
                stopped = True
                break
            if i.op == "ret":
                return False, i
            if i.op == "resume":
                stopped = True   # exceptional exit: the exception propagates to the caller
                break
            if i.op == "unreachable":
                stopped = True
                break
        if stopped:
            continue
        for s in fn.succ(bb, normal_only=True):
            work.append((s, 0))
    return True, None
