"""Shared plumbing for the yomm2 static checks: paths, compile helpers with a
content-addressed cache, evidence / violation / known-finding reporting.

Nothing here (or in any rule) executes library code: the only programs run are
clang++ (front end / IR emission), opt-14 (mem2reg) and the two serialisers
build/yast.so and build/yir."""
import hashlib
import json
import re
import os
import subprocess
import sys
import time
import threading
from concurrent.futures import ThreadPoolExecutor

VERIF = os.path.dirname(os.path.dirname(os.path.dirname(os.path.abspath(__file__))))
BUILD = os.path.join(VERIF, "build")
OUT = os.path.join(VERIF, "out")
CACHE = os.environ.get("YV_CACHE_DIR") or os.path.join(OUT, "cache")
YAST = os.path.join(BUILD, "yast.so")
YIR = os.path.join(BUILD, "yir")
CXX = "clang++"
STD = "-std=gnu++17"


class AnalysisBroken(Exception):
    """exit 2: anchor vanished / floor not met / unclassifiable construct."""


class WitnessRejected(AnalysisBroken):
    """a witness translation unit - legal programs of the documented API over the matrix of parameter kinds, signature
    shapes and policies, all accepted by the committed tree - is rejected by the compiler"""

    def __init__(self, name, stderr):
        self.witness = name
        self.stderr = stderr
        errs = [l for l in stderr.splitlines() if " error:" in l]
        self.first = errs[0].strip()[:300] if errs else stderr.strip()[-300:]
        super().__init__("witness %s does not compile:\n%s" % (name, stderr[-3000:]))


class Run:
    """One check run: collects rule instances, violations, evidence."""

    def __init__(self, prop, tier, root, level_text=""):
        self.prop = prop
        self.tier = tier
        self.root = os.path.abspath(root)
        self.inc = os.path.join(self.root, "include")
        self.t0 = time.time()
        self.seed = int(os.environ.get("VERIF_SEED", "0") or 0)
        self.rules = {}          # rule -> {"instances": [...], "floor": n, "desc": str}
        self.violations = []     # dicts
        self.units = []
        self.notes = []
        self.assumptions = []
        self.canaries = []
        self.broken = []
        self.kinds = {}
        if not os.path.isdir(os.path.join(self.inc, "yorel", "yomm2")):
            raise AnalysisBroken("no include/yorel/yomm2 under " + self.root)
        self._hdr_hash = None

    # ---- bookkeeping ----------------------------------------------------
    def rule(self, name, desc, floor=1):
        r = self.rules.setdefault(name, {"desc": desc, "floor": floor, "instances": [], "violations": 0})
        r["desc"] = desc
        r["floor"] = floor
        return r

    def instance(self, rule, what, where=None, ok=True, detail=None):
        r = self.rules[rule]
        k = "%s :: %s" % (rule, instance_kind(what))
        self.kinds[k] = self.kinds.get(k, 0) + 1
        e = {"what": what[:240]}
        if where:
            e["where"] = self.rel(where)
        if detail is not None:
            e["detail"] = detail
        e["ok"] = bool(ok)
        r["instances"].append(e)
        return e

    def violation(self, rule, key, what, where=None, detail=None):
        """key: stable identity (qualified function + instance descriptor), never a line."""
        v = {"rule": rule, "key": key, "what": what}
        if where:
            v["where"] = self.rel(where)
        if detail is not None:
            v["detail"] = detail
        self.violations.append(v)
        if rule in self.rules:
            self.rules[rule]["violations"] += 1
        return v

    def rel(self, where):
        if isinstance(where, (list, tuple)):
            f, l = where[0], where[1]
            where = "%s:%s" % (f, l)
        w = str(where)
        if w.startswith(self.root + "/"):
            w = w[len(self.root) + 1:]
        return w

    def header_hash(self):
        if self._hdr_hash is None:
            h = hashlib.sha256()
            for dp, dn, fn in sorted(os.walk(self.inc)):
                dn.sort()
                for f in sorted(fn):
                    p = os.path.join(dp, f)
                    h.update(p[len(self.inc):].encode())
                    with open(p, "rb") as fh:
                        h.update(fh.read())
            self._hdr_hash = h.hexdigest()
        return self._hdr_hash

    # ---- finishing --------------------------------------------------------
    def finish(self, level="other", explanation="", extra_cov=None):
        known = load_known()
        kf = {(k["rule"], k["key"]) for k in known.get("findings", []) if k.get("property") == self.prop}
        reported = []
        listed = []
        for v in self.violations:
            if (v["rule"], v["key"]) in kf:
                listed.append(v)
            else:
                reported.append(v)
        # floors
        for name, r in self.rules.items():
            if len(r["instances"]) < r["floor"]:
                self.broken.append("rule %s matched %d instance(s), floor %d" % (name, len(r["instances"]), r["floor"]))
        # reference obligation kinds: the instances confirmed on the committed tree are the reference for any later
        # one. Per rule, obligations that no longer turn up must be made up for by new ones (a relabelled or rewritten
        # form of the same obligation); a rule that lost obligations (found nothing to judge) is analysis-broken.
        ref = load_reference(self.prop, self.tier)
        repo_label = re.compile(r"^[\w./-]+\.(cpp|hpp)\b")      # instances from the repository's own tests/examples are not the library's business
        per_rule = {}
        for key in set(ref) | set(self.kinds):
            rule, lab = key.split(" :: ", 1)
            if repo_label.match(lab):
                continue
            n_ref, n = ref.get(key, 0), self.kinds.get(key, 0)
            need = (1 if n_ref else 0) if n_ref < 30 else int(n_ref * 0.5)      # a kind must not vanish; a populous one not halve
            pr = per_rule.setdefault(rule, {"missing": 0, "surplus": 0, "kinds": []})
            if n < need:
                pr["missing"] += need - n
                pr["kinds"].append("%s (%d, reference %d)" % (lab, n, n_ref))
            elif n > n_ref:
                pr["surplus"] += n - n_ref
        if ref and not getattr(self, "skip_reference", False):
            for rule, pr in sorted(per_rule.items()):
                if pr["missing"] > pr["surplus"] and rule in self.rules and not self.rules[rule]["violations"]:
                    self.broken.append("rule %s lost %d obligation(s) of the reference (new ones: %d): %s" % (rule, pr["missing"], pr["surplus"], "; ".join(pr["kinds"][:4])))
        for k in known.get("findings", []):
            if k.get("property") == self.prop and (k["rule"], k["key"]) in {(v["rule"], v["key"]) for v in listed}:
                print("KNOWN-FINDING: property=%s %s [%s %s]" % (self.prop, k["what"], k["rule"], k["key"]))
        n_inst = sum(len(r["instances"]) for r in self.rules.values())
        samples = []
        for name, r in self.rules.items():
            for e in r["instances"][:3]:
                samples.append({"rule": name, **e})
        cov = {
            "explanation": explanation,
            "obligations": n_inst,
            "discharged": sum(1 for r in self.rules.values() for e in r["instances"] if e["ok"]),
            "rules": {name: {"desc": r["desc"], "floor": r["floor"], "instances": len(r["instances"]),
                             "violations": r["violations"]} for name, r in self.rules.items()},
            "units_analysed": self.units,
            "samples": samples[:40],
            "instances": {name: r["instances"][:400] for name, r in self.rules.items()},
            "canaries": self.canaries,
            "known_findings_matched": [v["key"] for v in listed],
            "notes": self.notes,
            "root": self.root,
            "header_tree_sha256": self.header_hash(),
        }
        if extra_cov:
            cov.update(extra_cov)
        ev = {
            "property_id": self.prop,
            "tier": self.tier,
            "seed": self.seed,
            "level": level,
            "coverage": cov,
            "assumptions": self.assumptions,
            "wall_s": round(time.time() - self.t0, 2),
            "violations": len(reported),
        }
        ev["coverage"]["obligation_kinds"] = len(self.kinds)
        ev["coverage"]["reference_kinds"] = len(ref)
        if os.environ.get("YV_WRITE_REFERENCE") and not self.broken and not reported:
            os.makedirs(os.path.join(VERIF, "reference"), exist_ok=True)
            with open(os.path.join(VERIF, "reference", "%s.%s.json" % (self.prop, self.tier)), "w") as f:
                json.dump(self.kinds, f, indent=0, sort_keys=True)
        if self.broken:
            ev["coverage"]["analysis_broken"] = self.broken
        # evidence is only (re)written for runs against the registered root
        evdir = os.path.join(VERIF, "evidence")
        if os.environ.get("YV_EVIDENCE_DIR"):
            evdir = os.environ["YV_EVIDENCE_DIR"]
        os.makedirs(evdir, exist_ok=True)
        with open(os.path.join(evdir, self.prop + ".json"), "w") as f:
            json.dump(ev, f, indent=1)
        for name, r in self.rules.items():
            print("rule %-16s instances=%-4d floor=%-3d violations=%d  %s" % (name, len(r["instances"]), r["floor"], r["violations"], r["desc"][:70]))
        if self.broken:
            for b in self.broken:
                print("ANALYSIS-BROKEN property=%s %s" % (self.prop, b))
            if not reported:
                return 2
        if reported:
            od = os.path.join(OUT, self.prop)
            os.makedirs(od, exist_ok=True)
            path = os.path.join(od, "violation-%s.json" % self.tier)
            with open(path, "w") as f:
                json.dump({"property": self.prop, "root": self.root, "violations": reported}, f, indent=1)
            for v in reported:
                print(("  violated: [%s] %s :: %s" % (v["rule"], v["key"][:160], v["what"]))[:420] + ((" @ " + v["where"]) if v.get("where") else ""))
            print("VIOLATION property=%s replay=%s" % (self.prop, path))
            return 1
        print("OK property=%s tier=%s instances=%d wall=%.1fs" % (self.prop, self.tier, n_inst, time.time() - self.t0))
        return 0


def instance_kind(label):
    s = re.sub(r"`[^`]*`", "`..`", label)
    for _ in range(8):
        s2 = re.sub(r"\([^()]*\)", "", s)
        s2 = re.sub(r"<[^<>]*>", "", s2)
        s2 = re.sub(r"\[[^\[\]]*\]", "", s2)
        if s2 == s:
            break
        s = s2
    s = re.sub(r"\{[^{}]*\}", "", s)
    s = re.split(r"[<(\[{]", s)[0]      # a label cut by its producer: drop what follows an unbalanced opener
    s = re.sub(r"\d+", "#", s)
    s = re.sub(r"\s+", " ", s).strip()
    return s[:140]


def instance_kinds(rules):
    out = {}
    for name, r in rules.items():
        for e in r["instances"]:
            k = "%s :: %s" % (name, instance_kind(e["what"]))
            out[k] = out.get(k, 0) + 1
    return out


def load_reference(prop, tier):
    p = os.path.join(VERIF, "reference", "%s.%s.json" % (prop, tier))
    if os.path.exists(p):
        with open(p) as f:
            return json.load(f)
    return {}


def load_known():
    p = os.path.join(VERIF, "known_findings.json")
    if os.path.exists(p):
        with open(p) as f:
            return json.load(f)
    return {}


# --------------------------------------------------------------------------
# compile helpers

def _sha(*parts):
    h = hashlib.sha256()
    for p in parts:
        if isinstance(p, str):
            p = p.encode()
        h.update(p)
        h.update(b"\0")
    return h.hexdigest()[:32]


def _tool_hash(path):
    try:
        st = os.stat(path)
        return "%s:%d:%d" % (path, st.st_size, int(st.st_mtime))
    except OSError:
        return path + ":missing"


def sh(cmd, **kw):
    return subprocess.run(cmd, stdout=subprocess.PIPE, stderr=subprocess.PIPE, text=True, **kw)


def base_flags(run, ndebug, extra=()):
    fl = [STD, "-I" + run.inc, "-I" + os.path.join(VERIF, "witness"), "-w", "-ftemplate-depth=2048", "-fbracket-depth=4096"]
    if ndebug:
        fl.append("-DNDEBUG")
    else:
        fl.append("-UNDEBUG")
    fl += list(extra)
    return fl


def ir_json(run, src_text, name, ndebug=True, extra=()):
    """witness source text -> path of IR JSON (clang -O0 -g -emit-llvm | opt mem2reg | yir)."""
    os.makedirs(CACHE, exist_ok=True)
    flags = base_flags(run, ndebug, extra)
    key = _sha("ir2", run.header_hash(), src_text, " ".join(flags).replace(run.inc, "@INC"), _tool_hash(YIR))
    outp = os.path.join(CACHE, "%s.%s.ir.json" % (name, key))
    if os.path.exists(outp) and not os.environ.get("YV_NOCACHE"):
        return outp
    wd = os.path.join(OUT, "tmp", "%s.%s.%d.%d" % (name, key, os.getpid(), threading.get_ident() % 100000))
    os.makedirs(wd, exist_ok=True)
    src = os.path.join(wd, name + ".cpp")
    with open(src, "w") as f:
        f.write(src_text)
    ll = os.path.join(wd, "w.ll")
    r = sh([CXX] + flags + ["-O0", "-Xclang", "-disable-O0-optnone", "-fno-discard-value-names", "-g", "-S", "-emit-llvm", src, "-o", ll])
    if r.returncode != 0:
        raise WitnessRejected(name, r.stderr)
    llm = os.path.join(wd, "wm.ll")
    r = sh(["opt-14", "-passes=function(mem2reg)", ll, "-S", "-o", llm])
    if r.returncode != 0:
        raise AnalysisBroken("opt mem2reg failed on %s: %s" % (name, r.stderr[-2000:]))
    tmp = outp + ".tmp%d" % os.getpid()
    r = sh([YIR, llm, tmp])
    if r.returncode != 0:
        raise AnalysisBroken("yir failed on %s: %s" % (name, r.stderr[-2000:]))
    os.replace(tmp, outp)
    for p in (ll, llm, src):
        try:
            os.remove(p)
        except OSError:
            pass
    try:
        os.rmdir(wd)
    except OSError:
        pass
    return outp


def ir_json_file(run, path, flags, name):
    """a unit of the repository itself (compile-database entry) -> IR JSON; None when clang cannot compile it."""
    os.makedirs(CACHE, exist_ok=True)
    with open(path, "rb") as f:
        body = f.read()
    key = _sha("irfile", run.header_hash(), body, " ".join(flags).replace(run.root, "@ROOT"), _tool_hash(YIR))
    outp = os.path.join(CACHE, "%s.%s.ir.json" % (name, key))
    if os.path.exists(outp):
        return outp
    if os.path.exists(outp + ".fail"):
        return None
    wd = os.path.join(OUT, "tmp", "%s.%s.%d.%d" % (name, key, os.getpid(), threading.get_ident() % 100000))
    os.makedirs(wd, exist_ok=True)
    ll = os.path.join(wd, "w.ll")
    r = sh([CXX] + list(flags) + ["-w", "-O0", "-Xclang", "-disable-O0-optnone", "-fno-discard-value-names", "-g", "-S", "-emit-llvm", path, "-o", ll])
    if r.returncode != 0:
        with open(outp + ".fail", "w") as f:
            f.write(r.stderr[-2000:])
        return None
    llm = os.path.join(wd, "wm.ll")
    r = sh(["opt-14", "-passes=function(mem2reg)", ll, "-S", "-o", llm])
    if r.returncode != 0:
        return None
    tmp = outp + ".tmp%d" % os.getpid()
    r = sh([YIR, llm, tmp])
    if r.returncode != 0:
        return None
    os.replace(tmp, outp)
    for q in (ll, llm):
        try:
            os.remove(q)
        except OSError:
            pass
    try:
        os.rmdir(wd)
    except OSError:
        pass
    return outp


def ast_json(run, src_text, name, ndebug=True, funcs="", extra=(), cfg="", refs=False, self_root=False):
    """witness source text -> path of AST JSON produced by the yast plugin.
    funcs: '|'-separated substrings; only functions whose qualified name contains one are dumped
    ('' = every function defined under <root>/include/yorel)."""
    os.makedirs(CACHE, exist_ok=True)
    flags = base_flags(run, ndebug, extra)
    key = _sha("ast", run.header_hash(), src_text, " ".join(flags).replace(run.inc, "@INC"), funcs, cfg, str(refs), str(self_root), _tool_hash(YAST))
    outp = os.path.join(CACHE, "%s.%s.ast.json" % (name, key))
    if os.path.exists(outp) and not os.environ.get("YV_NOCACHE"):
        return outp
    wd = os.path.join(OUT, "tmp", "%s.%s.%d.%d" % (name, key, os.getpid(), threading.get_ident() % 100000))
    os.makedirs(wd, exist_ok=True)
    src = os.path.join(wd, name + ".cpp")
    with open(src, "w") as f:
        f.write(src_text)
    tmp = outp + ".tmp%d" % os.getpid()
    cmd = [CXX] + flags + ["-fsyntax-only", "-fplugin=" + YAST,
                           "-Xclang", "-plugin-arg-yast", "-Xclang", "out=" + tmp,
                           "-Xclang", "-plugin-arg-yast", "-Xclang", "root=" + run.inc + (("|" + wd) if self_root else ""),
                           "-Xclang", "-plugin-arg-yast", "-Xclang", "funcs=" + funcs,
                           "-Xclang", "-plugin-arg-yast", "-Xclang", "cfg=" + cfg]
    if refs:
        cmd += ["-Xclang", "-plugin-arg-yast", "-Xclang", "refs=1"]
    cmd.append(src)
    r = sh(cmd)
    if r.returncode != 0 or not os.path.exists(tmp):
        raise WitnessRejected(name, r.stderr)
    os.replace(tmp, outp)
    try:
        os.remove(src)
        os.rmdir(wd)
    except OSError:
        pass
    return outp


def syntax_only(run, src_text, name, ndebug=True, extra=(), error_limit=0):
    """Compile a witness with -fsyntax-only; returns (returncode, stderr). Not cached (cheap, and the
    diagnostics are the result)."""
    wd = os.path.join(OUT, "tmp", "syn.%s.%d" % (name, os.getpid()))
    os.makedirs(wd, exist_ok=True)
    src = os.path.join(wd, name + ".cpp")
    with open(src, "w") as f:
        f.write(src_text)
    flags = base_flags(run, ndebug, extra)
    flags = [f for f in flags if f != "-w"]
    r = sh([CXX] + flags + ["-fsyntax-only", "-ferror-limit=%d" % error_limit, "-Wno-everything", "-fno-caret-diagnostics",
                            "-fno-diagnostics-fixit-info", "-fdiagnostics-format=clang", src])
    try:
        os.remove(src)
        os.rmdir(wd)
    except OSError:
        pass
    return r.returncode, r.stderr, src


def parallel(fn, items, workers=16):
    with ThreadPoolExecutor(max_workers=workers) as ex:
        return list(ex.map(fn, items))


def load(path):
    with open(path) as f:
        return json.load(f)


def main_wrapper(fn):
    try:
        rc = fn()
    except AnalysisBroken as e:
        print("ANALYSIS-BROKEN %s" % e)
        rc = 2
    except SystemExit:
        raise
    except BaseException as e:      # a bug or an unforeseen shape in the analyser is never a verdict on the code
        import traceback
        traceback.print_exc()
        print("ANALYSIS-BROKEN internal error in the analyser: %s: %s" % (type(e).__name__, e))
        rc = 2
    sys.exit(rc)
