"""C01-walk: the value method::operator() calls (and resolve() returns) is the documented table
walk over exactly the virtual arguments, in order, each at its own slot / stride cell."""
import re
from . import irq, sym, witness, callpath

OPAQUE = r"::dynamic_vptr<|::_vptr\(\) const"


def find_method_fn(mod, ns, what):
    """what: 'operator()' | 'resolve'"""
    out = []
    for f in mod.funcs.values():
        if not f.body:
            continue
        d = f.dname
        if ("method<%s::key," % ns) not in d:
            continue
        if "::add_function<" in d:
            continue
        if what == "operator()" and re.search(r">::operator\(\)\(", d):
            out.append(f)
        elif what == "resolve" and re.search(r">::resolve<", d) and "resolve_" not in d.split(">::resolve<")[0][-5:]:
            out.append(f)
    return out


def ss_global(mod, ns):
    for g in mod.globals.values():
        if g["dname"].startswith("yorel::yomm2::method<%s::key," % ns) and g["dname"].endswith("::slots_strides"):
            return g["dname"]
    return None


def param_of(fn, e, groups_src, S=None, depth=0):
    """map an object expression to the index of the source parameter it denotes (or None).
    Looks through smart-pointer dereferences, loads of the object pointer held by a by-reference
    virtual_ptr, and temporaries copy/move-constructed from a parameter."""
    if depth > 6:
        return None
    while True:
        if e[0] == "call" and re.search(r"::operator\*\(\) const$|::operator->\(\) const$|::get\(\) const$", e[1]) and e[2]:
            e = e[2][0]
        elif e[0] == "load":
            e = e[1]
        elif e[0] == "add" and len(e) == 3 and e[2][0] == "const":
            e = e[1]
        else:
            break
    if e[0] == "alloca" and S is not None:
        srcv = sym.init_source(S, e)
        if srcv is not None:
            return param_of(fn, srcv, groups_src, S, depth + 1)
        if e[3] != 0:
            return None
    if e[0] == "arg":
        for pi, (stem, idxs) in enumerate(groups_src):
            if e[1] in idxs:
                return pi
        return None
    if e[0] == "alloca":
        # by-value class parameter rebuilt from coerced register pieces, or a copy made by the caller
        src = set()
        for i in fn.all_insts():
            if i.op == "store":
                a = i.ops[1]
                base = a
                # walk GEP/bitcast chain to its alloca
                seen = 0
                while base[0] == "i" and seen < 8:
                    bi = fn.insts[base[1]]
                    if bi.op in ("getelementptr", "bitcast"):
                        base = bi.ops[0]
                        seen += 1
                    else:
                        break
                if base[0] == "i" and base[1] == e[2] and i.ops[0][0] == "a":
                    src.add(i.ops[0][1])
        ps = set()
        for k in src:
            for pi, (stem, idxs) in enumerate(groups_src):
                if k in idxs:
                    ps.add(pi)
        if len(ps) == 1:
            return ps.pop()
    return None


def normalise_leaves(fn, e, groups_src, vpos, notes, S=None):
    """replace opaque v-table-pointer leaves by ('vptr', j) (j-th virtual parameter) or
    ('vptr-of', description) when the object is not a virtual parameter."""
    if not isinstance(e, tuple):
        return e
    if e[0] == "call" and re.search(OPAQUE, e[1]):
        # the object is the last argument of dynamic_vptr(arg) / the `this` of _vptr()
        obj = e[2][-1] if "dynamic_vptr" in e[1] else e[2][0]
        p = param_of(fn, obj, groups_src, S)
        if p is None:
            return ("vptr-of", sym.show(obj))
        if p in vpos:
            return ("vptr", vpos.index(p))
        return ("vptr-of-nonvirtual-param", p)
    if e[0] in ("add", "mul"):
        parts = [normalise_leaves(fn, x, groups_src, vpos, notes, S) for x in e[1:]]
        return sym.mk_add(parts) if e[0] == "add" else sym.mk_mul(parts)
    if e[0] == "call":
        return ("call", e[1], tuple(normalise_leaves(fn, x, groups_src, vpos, notes, S) for x in e[2]))
    return (e[0],) + tuple(normalise_leaves(fn, x, groups_src, vpos, notes, S) if isinstance(x, tuple) else x for x in e[1:])


def expected(n, slots_base, strides_base, stride_off0):
    """documented layout: slot_k at slots_base + 8k, stride_k (k>=1) at strides_base + 8(stride_off0 + k)."""
    W = ("const", 8)

    def cell(base, idx):
        return ("load", sym.mk_add([base, ("const", 8 * idx)]))

    def vt(j, slot):
        return ("load", sym.mk_add([("vptr", j), sym.mk_mul([slot, W])]))
    d = vt(0, cell(slots_base, 0))
    if n == 1:
        return d
    for k in range(1, n):
        d = sym.mk_add([d, sym.mk_mul([vt(k, cell(slots_base, k)), cell(strides_base, stride_off0 + k), W])])
    return ("load", d)


def expected_static(n, slots, strides):
    """walk with compile-time offsets: slot_k = slots[k], stride_k = strides[k-1] (as generated)."""
    W = ("const", 8)

    def vt(j):
        return ("load", sym.mk_add([("vptr", j), ("const", 8 * slots[j])]))
    d = vt(0)
    if n == 1:
        return d
    for k in range(1, n):
        d = sym.mk_add([d, sym.mk_mul([vt(k), ("const", strides[k - 1]), W])])
    return ("load", d)


def source_groups(fn, has_this=True):
    groups = callpath.arg_groups(fn)
    src = [g for g in groups if g[0] != "<sret>"]
    if has_this and src:
        src = src[1:]
    return src


def check_unit(run, u, rule, do_resolve=True):
    mod = u["module"]
    S = sym.Sym(mod, opaque=OPAQUE)
    for ent in u["index"]:
        ns, shape, pol = ent["ns"], ent["shape"], ent["policy"]
        n = witness.arity(shape)
        vpos = witness.vpositions(shape)
        ss = ss_global(mod, ns)
        if ss is None:
            raise Exception("slots_strides global of %s not found" % ns)
        if ent.get("static"):
            exp = expected_static(n, ent["slots"], ent["strides"])
        else:
            exp = expected(n, ("global", ss), ("global", ss), n - 1)
        targets = []
        for f in find_method_fn(mod, ns, "operator()"):
            # the indirect call through the resolved pointer
            calls = [i for i in f.all_insts() if i.op in ("call", "invoke") and i.get("indirect")]
            if len(calls) != 1:
                run.broken.append("method::operator() of %s has %d indirect calls (expected 1)" % (ns, len(calls)))
                continue
            v = S.value(f, calls[0].get("indirect"))
            targets.append(("operator()", f, v))
        if do_resolve and all(ch in "rcmVWXYidutqk" for ch in shape):
            for f in find_method_fn(mod, ns, "resolve"):
                targets.append(("resolve", f, S.returned(f, {k: ("arg", k) for k in range(len(f.args))}, top=True)))
        if not targets:
            run.broken.append("no operator()/resolve instantiation found for %s" % ns)
        for what, f, v in targets:
            src = source_groups(f)
            if len(src) != len(shape):
                run.broken.append("cannot map IR arguments of %s to the %d declared parameters" % (f.dname[:120], len(shape)))
                continue
            got = normalise_leaves(f, v, src, vpos, [], S)
            ok = got == exp
            run.instance(rule, "%s %s shape=%s policy=%s" % (what, ns, shape, pol), f.where(), ok=ok,
                         detail={"value": sym.show(got)[:600]})
            if not ok:
                fq = "method::" + what
                run.violation(rule, "%s|shape-mask=%s" % (fq, "".join("v" if witness.is_virtual(c) else "n" for c in shape)),
                              "table walk of %s for signature shape %s (policy %s) is %s, documented walk is %s" % (
                                  fq, shape, pol, sym.show(got)[:300], sym.show(exp)[:300]),
                              f.where(), detail={"got": sym.show(got), "expected": sym.show(exp), "function": f.dname})


def parse_method_class(dname):
    """'yorel::yomm2::method<K, R (P...), Policy>::operator()(...) const' -> (class text, [params], policy)"""
    d = irq.strip_ret(dname)
    m = re.search(r">::operator\(\)\(", d)
    if not m or not d.startswith("yorel::yomm2::method<"):
        return None
    cls = d[:m.start() + 1]
    ta = irq.template_args(cls)
    if not ta or len(ta) < 2:
        return None
    sig = ta[1]
    # R (P1, P2, ...): the parameter list is the last top-level parenthesis group
    depth = 0
    start = None
    for i in range(len(sig) - 1, -1, -1):
        ch = sig[i]
        if ch == ")":
            depth += 1
        elif ch == "(":
            depth -= 1
            if depth == 0:
                start = i
                break
    if start is None:
        return None
    params = irq.split_top(sig[start + 1:-1]) if sig[start + 1:-1].strip() else []
    return cls, params, (ta[2] if len(ta) > 2 else "default")


def is_virtual_param(p):
    p = p.strip()
    return p.startswith("yorel::yomm2::virtual_<") or p.startswith("yorel::yomm2::virtual_ptr<") or p.startswith("const yorel::yomm2::virtual_ptr<")


def check_module_generic(run, mod, rule, unit):
    """C01-walk over every method::operator() instantiated in an arbitrary unit (the repository's own tests / examples)."""
    S = sym.Sym(mod, opaque=OPAQUE)
    n = 0
    for f in list(mod.funcs.values()):
        if not f.body or "::add_function<" in f.dname:
            continue
        pm = parse_method_class(f.dname)
        if pm is None:
            continue
        cls, params, pol = pm
        vpos = [i for i, p in enumerate(params) if is_virtual_param(p)]
        if not vpos:
            continue
        ss = cls + "::slots_strides"
        if any(g["dname"].startswith("yorel::yomm2::detail::static_offsets<" + cls) for g in mod.globals.values()):
            continue        # compile-time offsets: decided by C12 on its own witnesses
        calls = [i for i in f.all_insts() if i.op in ("call", "invoke") and i.get("indirect")]
        if len(calls) != 1:
            run.notes.append("%s: %s has %d indirect calls, skipped" % (unit, f.dname[:100], len(calls)))
            continue
        src = source_groups(f)
        if len(src) != len(params):
            run.notes.append("%s: cannot map IR arguments of %s" % (unit, f.dname[:100]))
            continue
        v = S.value(f, calls[0].get("indirect"))
        got = normalise_leaves(f, v, src, vpos, [], S)
        nn = len(vpos)
        exp = expected(nn, ("global", ss), ("global", ss), nn - 1)
        ok = got == exp
        n += 1
        mask = "".join("v" if i in vpos else "n" for i in range(len(params)))
        run.instance(rule, "%s: operator() of %s (mask %s)" % (unit, re.sub(r"yorel::yomm2::", "", cls), mask), f.where(), ok=ok)
        if not ok:
            run.violation(rule, "method::operator()|shape-mask=%s|repo" % mask, "table walk of %s (unit %s) is %s, documented walk is %s" % (cls[:160], unit, sym.show(got)[:300], sym.show(exp)[:300]), f.where())
    return n
