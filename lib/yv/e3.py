"""E3: witnesses decided by the type checker.

A unit is a prelude plus one obligation per line. Obligations are of three kinds:
  must-hold     a `static_assert(...)` (or any declaration) that has to compile;
  must-fail     a declaration that has to be rejected, with a diagnostic containing a given fragment;
Every obligation sits on its own line; diagnostics are attributed to obligations through the line of
the error or of the first `requested here` / `in instantiation` note that lies in the witness file.
An error that cannot be attributed to an obligation is analysis-broken, never a pass."""
import os
import re
from . import common

DIAG = re.compile(r"^(?P<file>[^:\n]+):(?P<line>\d+):(?P<col>\d+): (?P<kind>error|fatal error|note|warning): (?P<msg>.*)$")


class Unit:
    def __init__(self, name, prelude):
        self.name = name
        self.lines = prelude.split("\n")
        self.obls = {}  # line number (1-based) -> dict

    def add(self, key, desc, code, must_fail=None, separate=False):
        """code must be a single line. separate: compile prelude + this line as its own unit (needed
        when the obligation's errors come from instantiations pending until the end of the unit)."""
        assert "\n" not in code
        self.lines.append(code)
        self.obls[len(self.lines)] = {"key": key, "desc": desc, "must_fail": must_fail, "code": code, "separate": separate or must_fail is not None}

    def raw(self, text):
        for l in text.split("\n"):
            self.lines.append(l)

    def source(self):
        return "\n".join(self.lines) + "\n"


def run_unit(run, rule, unit, ndebug=True, extra=()):
    """compiles the unit, records one instance per obligation; returns list of (obl, ok, message).
    Must-fail obligations are compiled one by one (prelude + that line): errors raised by pending
    instantiations at the end of a unit carry no note that leads back to the line that caused them."""
    mf = {ln: ob for ln, ob in unit.obls.items() if ob["separate"]}
    mf_res = {}
    if mf:
        def one(item):
            ln, ob = item
            lines = [l for k, l in enumerate(unit.lines, 1) if k not in unit.obls] + [ob["code"]]
            rc1, err1, _ = common.syntax_only(run, "\n".join(lines) + "\n", "%s_mf%d" % (unit.name, ln), ndebug=ndebug, extra=extra)
            msgs = [m.group("msg") for m in (DIAG.match(x) for x in err1.splitlines()) if m and m.group("kind") in ("error", "fatal error")]
            return ln, msgs
        for ln, msgs in common.parallel(one, list(mf.items())):
            mf_res[ln] = msgs
    main_lines = [("" if k in mf else l) for k, l in enumerate(unit.lines, 1)]
    rc, err, src = common.syntax_only(run, "\n".join(main_lines) + "\n", unit.name, ndebug=ndebug, extra=extra)
    base = os.path.basename(src)
    # group diagnostics: each error with its following notes
    groups = []
    for line in err.splitlines():
        m = DIAG.match(line)
        if not m:
            continue
        if m.group("kind") in ("error", "fatal error"):
            groups.append([m])
        elif m.group("kind") == "note" and groups:
            groups[-1].append(m)
    failed = {}
    unattributed = []
    for g in groups:
        ln = None
        for m in g:
            if os.path.basename(m.group("file")) == base and int(m.group("line")) in unit.obls:
                ln = int(m.group("line"))
                break
        if ln is None:
            unattributed.append("%s:%s: %s" % (g[0].group("file"), g[0].group("line"), g[0].group("msg")))
        else:
            failed.setdefault(ln, []).append(g[0].group("msg") + " @" + os.path.basename(g[0].group("file")) + ":" + g[0].group("line"))
    if "too many errors" in err:
        unattributed.append("error limit reached")
    if unattributed:
        run.broken.append("witness %s: %d diagnostics not attributable to an obligation, first: %s" % (unit.name, len(unattributed), unattributed[0][:300]))
    results = []
    for ln, ob in sorted(unit.obls.items()):
        msgs = failed.get(ln)
        if ln in mf_res:
            msgs = mf_res[ln] or None
        if ob["must_fail"] is None:
            ok = msgs is None
            msg = None if ok else "does not hold / does not compile: " + msgs[0][:300]
        else:
            if msgs is None:
                ok = False
                msg = "is accepted by the compiler but must be rejected (%s)" % ob["must_fail"]
            elif not any(ob["must_fail"] in m for m in msgs):
                ok = False
                msg = "is rejected for another reason than expected (%s): %s" % (ob["must_fail"], msgs[0][:300])
            else:
                ok = True
                msg = None
        run.instance(rule, ob["desc"][:300], "%s:%d" % (unit.name, ln), ok=ok)
        results.append((ob, ok, msg))
    run.units.append({"unit": unit.name, "obligations": len(unit.obls), "kind": "type-checker witness"})
    return results
