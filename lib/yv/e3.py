"""E3: witnesses decided by the type checker.

A unit is a prelude plus one obligation per line. Obligations are of three kinds:
  must-hold     a `static_assert(...)` (or any declaration) that has to compile;
  must-fail     a declaration that has to be rejected, with a diagnostic containing a given fragment;
Every obligation sits on its own line; diagnostics are attributed to obligations through the line of
the error or of the first `requested here` / `in instantiation` note that lies in the witness file.
An error that cannot be attributed to an obligation is analysis-broken, never a pass."""
import os
import re
from . import common

DIAG = re.compile(r"^(?P<file>[^:\n]+):(?P<line>\d+):(?P<col>\d+): (?P<kind>error|fatal error|note|warning): (?P<msg>.*)$")


class Unit:
    def __init__(self, name, prelude):
        self.name = name
        self.lines = prelude.split("\n")
        self.obls = {}  # line number (1-based) -> dict

    def add(self, key, desc, code, must_fail=None):
        """code must be a single line."""
        assert "\n" not in code
        self.lines.append(code)
        self.obls[len(self.lines)] = {"key": key, "desc": desc, "must_fail": must_fail, "code": code}

    def raw(self, text):
        for l in text.split("\n"):
            self.lines.append(l)

    def source(self):
        return "\n".join(self.lines) + "\n"


def run_unit(run, rule, unit, ndebug=True, extra=()):
    """compiles the unit, records one instance per obligation; returns list of (obl, ok, message)."""
    rc, err, src = common.syntax_only(run, unit.source(), unit.name, ndebug=ndebug, extra=extra)
    base = os.path.basename(src)
    # group diagnostics: each error with its following notes
    groups = []
    for line in err.splitlines():
        m = DIAG.match(line)
        if not m:
            continue
        if m.group("kind") in ("error", "fatal error"):
            groups.append([m])
        elif m.group("kind") == "note" and groups:
            groups[-1].append(m)
    failed = {}
    unattributed = []
    for g in groups:
        ln = None
        for m in g:
            if os.path.basename(m.group("file")) == base and int(m.group("line")) in unit.obls:
                ln = int(m.group("line"))
                break
        if ln is None:
            unattributed.append("%s:%s: %s" % (g[0].group("file"), g[0].group("line"), g[0].group("msg")))
        else:
            failed.setdefault(ln, []).append(g[0].group("msg") + " @" + os.path.basename(g[0].group("file")) + ":" + g[0].group("line"))
    if "too many errors" in err:
        unattributed.append("error limit reached")
    if unattributed:
        run.broken.append("witness %s: %d diagnostics not attributable to an obligation, first: %s" % (unit.name, len(unattributed), unattributed[0][:300]))
    results = []
    for ln, ob in sorted(unit.obls.items()):
        msgs = failed.get(ln)
        if ob["must_fail"] is None:
            ok = msgs is None
            msg = None if ok else "does not hold / does not compile: " + msgs[0][:300]
        else:
            if msgs is None:
                ok = False
                msg = "is accepted by the compiler but must be rejected (%s)" % ob["must_fail"]
            elif not any(ob["must_fail"] in m for m in msgs):
                ok = False
                msg = "is rejected for another reason than expected (%s): %s" % (ob["must_fail"], msgs[0][:300])
            else:
                ok = True
                msg = None
        run.instance(rule, ob["desc"][:300], "%s:%d" % (unit.name, ln), ok=ok)
        results.append((ob, ok, msg))
    run.units.append({"unit": unit.name, "obligations": len(unit.obls), "kind": "type-checker witness"})
    return results
