"""C09 - a virtual_ptr dispatches like its pointee, however it was created (claimed in part).

C09-static : the static-type shortcut and final take static_vptr<C> of the POINTEE class C (never of a smart-pointer type).
C09-lookup : the dynamic branch of the constructor reads the same table cell Policy::dynamic_vptr(obj) reads
             (indirect policies: the same index of the table of addresses).
C09-copy   : converting / copying / moving constructors and cast<> carry the source's v-table pointer unchanged.
C09-access : get, *, -> give back the stored object.
C09-indirect: with indirect_vptr the table of addresses holds the address of the class's static v-table pointer, which
             update reassigns; methods read it through one more load."""
import re
from .. import common, callpath, irq, sym, vptr, astq, crules, witness


def ir_rules(run, u, r_static, r_lookup, r_copy, r_access, r_table=None):
    mod = u["module"]
    pol = u["policy"]
    S = sym.Sym(mod)
    fns = vptr.vp_functions(mod)
    dv = {}
    for f in fns["dynamic_vptr"]:
        ta = re.search(r"::dynamic_vptr<(.*)>\(", f.dname)
        if ta and re.match(r"^(const\s+)?yw::[A-Z]\w*(\s+const)?$", ta.group(1).strip()):
            dv[vptr.pointee(ta.group(1))] = f
    indirect = pol in witness.INDIRECT
    for f in fns["ctor_obj"] + fns["final"]:
        cls, P = vptr.class_of_vp(f.dname)
        off = vptr.field(mod, cls, P, "vptr")
        if off is None:
            run.broken.append("layout of virtual_ptr<%s, %s> not found" % (cls, P))
            continue
        is_final = f in fns["final"]
        S2 = sym.Sym(mod)
        if is_final:
            # final builds `result` (sret = arg0) and stores result.vptr = vptr
            base_arg = 0
        else:
            base_arg = 0
        has_sret = bool(f.args and f.args[0].get("sret"))
        st = vptr.stores_to_field(S2, f, 0 if (has_sret or not is_final) else -1, off, result_local=is_final)
        if not st:
            run.broken.append("no store to the vptr field in %s" % f.dname[:140])
            continue
        params = irq.param_list(irq.strip_ret(f.dname)) or []
        other = vptr.pointee(params[0]) if params else "?"
        short = re.sub(r"yorel::yomm2::", "", irq.strip_ret(f.dname))[:150]
        for ins, v in st:
            gl = vptr.globals_in(v)
            sv = [g for g in gl if "::static_vptr<" in g]
            tb = [g for g in gl if vptr.table_kind(g)]
            if not sv and not tb:
                d0 = vptr.lookup_descriptor(S2, f, v)     # element reached through a map iterator
                if d0 is not None and vptr.table_kind(d0[0]):
                    tb = [d0[0]]
            if sv and not tb:
                c = re.search(r"::static_vptr<(.*)>$", sv[0]).group(1)
                shape_ok = (v == ("global", sv[0])) if indirect else (v == ("load", ("global", sv[0])))
                # update() installs static_vptr<X> for the registered, cv-unqualified class X only
                ok = shape_ok and vptr.pointee(c) == other and "shared_ptr" not in c and not re.search(r"\bconst\b", c) and ("<%s>::static_vptr" % P) in sv[0].replace("method_tables<", "<")
                run.instance(r_static, "%s: static-type route stores static_vptr<%s>" % (short, c), ins.where(), ok=ok)
                if not ok:
                    run.violation(r_static, "virtual_ptr::%s|static-vptr" % ("final" if is_final else "virtual_ptr(Other&&)"),
                                  "%s takes %s for an argument whose pointee class is %s: the v-table pointer must be static_vptr<pointee class> of the same policy%s" % (
                                      short, sym.show(v)[:160], other, " (its address, for an indirect policy)" if indirect else ""), ins.where())
            elif tb and not is_final:
                d = vptr.lookup_descriptor(S2, f, v)
                ref = dv.get(other)
                if ref is None and dv:
                    run.broken.append("no Policy::dynamic_vptr<%s> in the unit to compare the constructor's dynamic route with" % other)
                    continue
                if d is None or ref is None:
                    run.instance(r_lookup, "%s: dynamic route" % short, ins.where(), ok=False)
                    run.violation(r_lookup, "virtual_ptr::virtual_ptr(Other&&)|dynamic-shape", "%s: the dynamic route's v-table pointer %s is not an element of the policy's table (or no dynamic_vptr<%s> to compare with)" % (short, sym.show(v)[:200], other), ins.where())
                    continue
                S3 = sym.Sym(mod)
                rv = S3.returned(ref, {0: ("arg", 0)}, top=True)
                rd = vptr.lookup_descriptor(S3, ref, rv)
                # the constructor's object is its parameter (arg1), seen through rarg / operator*
                key_c = d[1]
                key_r = vptr.subst_arg(rd[1], 0, ("arg", 1)) if rd and rd[1] is not None else None
                key_c = _strip_deref(key_c)
                key_r = _strip_deref(key_r)
                kinds = (vptr.table_kind(d[0]), vptr.table_kind(rd[0]) if rd else None)
                owner_t = d[0].rsplit("::", 1)[0]
                same_pol = rd is not None and "<" in owner_t and owner_t.split("<", 1)[1][:len(P)] == P      # a table that is not a member of a class template keyed by P is shared by all policies
                ok = rd is not None and key_c == key_r and kinds == (("indirect" if indirect else "direct"), "direct") and same_pol
                run.instance(r_lookup, "%s: dynamic route reads %s[%s]" % (short, d[0].split("::")[-1], sym.show(key_c)[:100] if key_c else "?"), ins.where(), ok=ok)
                if not ok:
                    run.violation(r_lookup, "virtual_ptr::virtual_ptr(Other&&)|dynamic-lookup",
                                  "%s: the dynamic route reads %s at key %s; Policy::dynamic_vptr(obj) reads %s at key %s" % (short, d[0], sym.show(key_c)[:160] if key_c else None, rd[0] if rd else None, sym.show(key_r)[:160] if key_r else None), ins.where())
            else:
                run.instance(r_static, "%s: v-table pointer source" % short, ins.where(), ok=False)
                run.violation(r_static, "virtual_ptr::%s|vptr-source" % ("final" if is_final else "virtual_ptr(Other&&)"),
                              "%s stores %s: neither the class's static v-table pointer nor an element of the policy's table" % (short, sym.show(v)[:200]), ins.where())
    if r_table:
        table_reader_rule(run, u, r_table)
    # copies / conversions / casts keep the pointer
    for f in fns["ctor_conv"]:
        cls, P = vptr.class_of_vp(f.dname)
        off = vptr.field(mod, cls, P, "vptr")
        S2 = sym.Sym(mod)
        st = vptr.stores_to_field(S2, f, 0, off)
        src_cls = re.search(r"virtual_ptr<(.*), [^<>]*>\s*(const)?\s*(&&|&)$", (irq.param_list(irq.strip_ret(f.dname)) or ["?"])[0])
        ok = len(st) == 1 and st[0][1] == ("load", sym.mk_add([("arg", 1), ("const", off)]))
        short = re.sub(r"yorel::yomm2::", "", irq.strip_ret(f.dname))[:150]
        run.instance(r_copy, "%s copies the source's v-table pointer" % short, f.where(), ok=ok)
        if not ok:
            run.violation(r_copy, "virtual_ptr::virtual_ptr(virtual_ptr)|vptr", "%s stores %s as v-table pointer instead of the source's" % (short, [sym.show(v)[:120] for _, v in st]), f.where())
    for f in fns["cast"]:
        cls, P = vptr.class_of_vp(f.dname)
        off = vptr.field(mod, cls, P, "vptr")
        S2 = sym.Sym(mod)
        has_sret = bool(f.args and f.args[0].get("sret"))
        this_arg = 1 if has_sret else 0
        st = vptr.stores_to_field(S2, f, 0 if has_sret else -1, off, result_local=True)
        ok = len(st) == 1 and st[0][1] == ("load", sym.mk_add([("arg", this_arg), ("const", off)]))
        short = re.sub(r"yorel::yomm2::", "", irq.strip_ret(f.dname))[:150]
        run.instance(r_copy, "%s keeps the v-table pointer" % short, f.where(), ok=ok)
        if not ok:
            run.violation(r_copy, "virtual_ptr::cast|vptr", "%s gives the result the v-table pointer %s instead of this virtual_ptr's own" % (short, [sym.show(v)[:140] for _, v in st]), f.where())
    for kind in ("get", "deref", "arrow"):
        for f in fns[kind]:
            cls, P = vptr.class_of_vp(f.dname)
            S2 = sym.Sym(mod)
            smart = cls.startswith("std::shared_ptr<")
            short = re.sub(r"yorel::yomm2::", "", irq.strip_ret(f.dname))[:150]
            if smart and kind == "get":
                # returns a copy of the stored shared_ptr: a copy-construction from this->obj
                calls = [i for i in f.all_insts() if i.op in ("call", "invoke") and i.callee and re.search(r"std::shared_ptr<.*>::shared_ptr\(std::shared_ptr<.*> const&\)", i.callee)]
                ok = len(calls) == 1 and S2.value(f, calls[0].ops[1]) in (("arg", 1), ("arg", 0))
            else:
                rv = S2.returned(f, {k: ("arg", k) for k in range(len(f.args))}, top=True)
                ok = rv is not None and ("load", ("arg", 0)) in list(sym.walk(rv)) or rv == ("load", ("arg", 0))
                if smart:
                    ok = rv is not None and any(x == ("arg", 0) or (x[0] == "alloca") for x in sym.walk(rv))
            run.instance(r_access, "%s returns the stored object" % short, f.where(), ok=bool(ok))
            if not ok:
                run.violation(r_access, "virtual_ptr::%s|object" % kind, "%s does not return the object stored at construction" % short, f.where())


def table_reader_rule(run, u, r_table):
    """Policy::dynamic_vptr(obj) = table[ H(dynamic_type(obj)) ] for every instantiation in the unit"""
    mod = u["module"]
    pol = u["policy"]
    dv = {}
    for f in vptr.vp_functions(mod)["dynamic_vptr"]:
        ta = re.search(r"::dynamic_vptr<(.*)>\(", f.dname)
        if ta and re.match(r"^(const\s+)?yw::[A-Z]\w*(\s+const)?$", ta.group(1).strip()):
            dv[vptr.pointee(ta.group(1))] = f
    for cls_name, f in dv.items():
        S3 = sym.Sym(mod, opaque=r"::dynamic_type<")
        rv = S3.returned(f, {0: ("arg", 0)}, top=True)
        d = vptr.lookup_descriptor(S3, f, rv)
        short = re.sub(r"yorel::yomm2::", "", irq.strip_ret(f.dname))[:150]
        ok = False
        why = "the returned value %s is not an element of the policy's table" % sym.show(rv)[:160]
        if d is not None and d[1] is not None:
            dyn = [x for x in sym.walk(d[1]) if x[0] == "call" and "::dynamic_type<" in x[1]]
            Ptxt = witness.POLICIES[pol].replace("policy::", "yorel::yomm2::policy::") if not witness.POLICIES[pol].startswith("yw::") else witness.POLICIES[pol]
            exp = vptr.expected_key(mod, Ptxt, pol in witness.HASHED, dyn[0]) if dyn else None
            arg_ok = bool(dyn) and dyn[0][2] and dyn[0][2][-1] == ("arg", 0)
            tbl_ok = vptr.table_kind(d[0]) == "direct" and ("<%s" % Ptxt) in d[0]
            ok = exp is not None and d[1] == exp and arg_ok and tbl_ok
            why = "key %s (expected %s), table %s" % (sym.show(d[1])[:200], sym.show(exp)[:200] if exp else None, d[0][-60:])
        run.instance(r_table, "%s reads vptrs[%s(dynamic_type(obj))]" % (short, "hash" if pol in witness.HASHED else "id"), f.where(), ok=ok)
        if not ok:
            run.violation(r_table, "Policy::dynamic_vptr|key", "%s: %s" % (short, why), f.where())


def _strip_deref(k):
    """keys are compared modulo the route to the object (rarg: operator* of the smart pointer) and modulo
    which registered class the instantiation is for (dynamic_type<yw::B> vs dynamic_type<yw::A>)."""
    if not isinstance(k, tuple):
        return k
    if k and k[0] == "call":
        if re.search(r"::operator\*\(\) const$|::operator->\(\) const$|::get\(\) const$", k[1]) and k[2]:
            return _strip_deref(k[2][0])
        return ("call", re.sub(r"yw::[ABC]\b", "yw::K", k[1]), tuple(_strip_deref(x) for x in k[2]))
    return tuple(_strip_deref(x) if isinstance(x, tuple) else x for x in k)


def table_writer_overwrites(run, ast, rule):
    """publish_vptrs must (re)assign every key: a non-overwriting insertion keeps the previous update's pointer"""
    for f in crules._fn(ast, r"vptr_(vector|map)<.*>::publish_vptrs<"):
        st = [n for n in astq.walk(f["body"]) if (n.get("k") == "BinaryOperator" and n.get("op") == "=" or (n.get("k") == "CXXOperatorCallExpr" and n.get("oop") == "=")) and any(
            (astq.refname(x) or "").endswith("::vptrs") for x in astq.walk(n["c"][0] if n.get("k") == "BinaryOperator" else n["c"][1]))]
        ins = [n for n in astq.walk(f["body"]) if n.get("k") == "CXXMemberCallExpr" and re.search(r"::(emplace|insert|try_emplace|emplace_hint)(<.*)?$", n.get("callee") or "") and any(
            (astq.refname(x) or "").endswith("::vptrs") for x in astq.walk(n["c"][0]))]
        ioa = [n for n in astq.walk(f["body"]) if n.get("k") == "CXXMemberCallExpr" and re.search(r"::insert_or_assign(<.*)?$", n.get("callee") or "") and any(
            (astq.refname(x) or "").endswith("::vptrs") for x in astq.walk(n["c"][0]))]
        ok = bool(st or ioa) and not ins
        run.instance(rule, "%s: every published key is assigned (overwritten) on every update" % crules.short(f)[:80], (f["file"], f["line"]), ok=ok)
        if ins:
            run.violation(rule, "%s|non-overwriting-insert" % re.sub(r"<.*", "", crules.short(f)), "publish_vptrs uses %s: an id already in the table keeps the v-table pointer of the previous update" % ins[0]["callee"].split("::")[-1], (f["file"], ins[0]["l"]))
        elif not (st or ioa):
            run.broken.append("%s: no store into the v-table pointer table recognised" % crules.short(f)[:80])


def table_writer_rule(run, ast, rule):
    table_writer_overwrites(run, ast, rule)
    # the writer of the table: vptrs[H(id)] = class's vptr for every id
    for f in crules._fn(ast, r"vptr_(vector|map)<.*>::publish_vptrs<"):
        st = [n for n in astq.walk(f["body"]) if (n.get("k") == "BinaryOperator" and n.get("op") == "=" or (n.get("k") == "CXXOperatorCallExpr" and n.get("oop") == "=")) and any(
            (astq.refname(x) or "").endswith("::vptrs") for x in astq.walk(n["c"][0] if n.get("k") == "BinaryOperator" else n["c"][1]))]
        for n in st:
            lhs = n["c"][0] if n.get("k") == "BinaryOperator" else n["c"][1]
            rhs = astq.strip(n["c"][1] if n.get("k") == "BinaryOperator" else n["c"][2])
            sub = [x for x in astq.walk(lhs) if x.get("k") == "CXXOperatorCallExpr" and x.get("oop") == "[]"]
            val_ok = rhs.get("k") == "CXXMemberCallExpr" and (rhs.get("callee") or "").endswith("::vptr")
            key_ok = False
            if sub:
                k0 = astq.strip(sub[0]["c"][2])
                hashed = any(x.get("k") == "CallExpr" and (x.get("callee") or "").endswith("::hash_type_id") for y in astq.walk(f["body"]) for x in [y])
                # the key variable: *type_iter, possibly re-assigned with hash_type_id(index)
                if k0.get("k") == "DeclRefExpr":
                    did = k0["ref"]["did"]
                    init = [d.get("init") for y in astq.walk(f["body"]) if y.get("k") == "DeclStmt" for d in y["decls"] if d["did"] == did]
                    reas = [y["c"][1] for y in astq.walk(f["body"]) if y.get("k") == "BinaryOperator" and y.get("op") == "=" and astq.strip(y["c"][0]).get("k") == "DeclRefExpr" and astq.strip(y["c"][0])["ref"]["did"] == did]
                    from_id = bool(init) and init[0] is not None and any(x.get("k") in ("UnaryOperator", "CXXOperatorCallExpr") and (x.get("op") == "*" or x.get("oop") == "*") for x in astq.walk(init[0]))
                    def is_hash_of_key(r0):
                        r0 = astq.strip(r0)
                        if r0.get("k") == "CallExpr" and (r0.get("callee") or "").endswith("::hash_type_id"):
                            a0 = astq.strip(r0["c"][1])
                            return a0.get("k") == "DeclRefExpr" and a0["ref"]["did"] == did
                        he = crules._hash_expr(r0)          # the formula hash_type_id computes, written out
                        if he == (("ID", "hash_mult"), "hash_shift"):
                            return any(x.get("k") == "DeclRefExpr" and x["ref"]["did"] == did for x in astq.walk(r0))
                        return None if astq.affine(r0) is None else False
                    verdicts = [is_hash_of_key(r0) for r0 in reas]
                    if any(v is None for v in verdicts):
                        run.broken.append("%s: the key of the published v-table pointer is recomputed in a form the rule does not classify" % crules.short(f)[:80])
                        verdicts = [True for v in verdicts]
                    rehash_ok = all(verdicts)
                    key_ok = from_id and rehash_ok and (bool(reas) == hashed)
                else:
                    key_ok = k0.get("k") in ("UnaryOperator", "CXXOperatorCallExpr") and (k0.get("op") == "*" or k0.get("oop") == "*")
            ok = val_ok and key_ok
            run.instance(rule, "%s: vptrs[(hashed) id] = the class's v-table pointer" % crules.short(f)[:80], (f["file"], n["l"]), ok=ok)
            if not ok:
                run.violation(rule, "%s|store" % re.sub(r"<.*", "", crules.short(f)), "publish_vptrs stores %s at key %s: every id of a class must map (through the policy's hash, if any) to that class's v-table pointer" % (
                    astq.text(rhs), astq.text(sub[0]["c"][2]) if sub else "?"), (f["file"], n["l"]))


def ast_rules(run, rule, ast, table=True):
    # publish: indirect table gets the address of the static v-table pointer
    for f in crules._fn(ast, r"vptr_vector<.*>::publish_vptrs<"):
        st = [n for n in astq.walk(f["body"]) if (n.get("k") == "BinaryOperator" and n.get("op") == "=" or (n.get("k") == "CXXOperatorCallExpr" and n.get("oop") == "=")) and any(
            (astq.refname(x) or "").endswith("::indirect_vptrs") for x in astq.walk(n["c"][0] if n.get("k") == "BinaryOperator" else n["c"][1]))]
        for n in st:
            rhs = astq.strip(n["c"][1] if n.get("k") == "BinaryOperator" else n["c"][2])
            ok = rhs.get("k") == "CXXMemberCallExpr" and (rhs.get("callee") or "").endswith("::indirect_vptr")
            run.instance(rule, "%s: indirect table entry = the class's indirect_vptr()" % crules.short(f)[:80], (f["file"], n["l"]), ok=ok)
            if not ok:
                run.violation(rule, "vptr_vector::publish_vptrs|indirect-entry", "the table of addresses receives %s instead of the address of the class's static v-table pointer: virtual_ptrs created before a later update go stale" % astq.text(rhs), (f["file"], n["l"]))
    if table:
        table_writer_rule(run, ast, "C09-table")
    # accessors of the class records
    for f in [f for f in ast.funcs if f.get("body") and re.search(r"(class_info|generic_compiler::class_)::(indirect_vptr|vptr)$", f["name"])]:
        rets = [n for n in astq.walk(f["body"]) if n.get("k") == "ReturnStmt"]
        e = astq.strip(rets[0]["c"][0]) if rets else None
        want_deref = f["name"].endswith("::vptr")
        if e is not None and want_deref:
            ok = e.get("k") == "UnaryOperator" and e.get("op") == "*" and astq.strip(e["c"][0]).get("member") == "static_vptr"
        else:
            ok = e is not None and e.get("k") == "MemberExpr" and e.get("member") == "static_vptr"
        run.instance(rule, "%s returns %sstatic_vptr" % (crules.short(f), "*" if want_deref else ""), (f["file"], f["line"]), ok=ok)
        if not ok:
            run.violation(rule, "%s|value" % f["name"].split("yomm2::")[-1], "%s returns %s" % (f["name"], astq.text(e) if e else None), (f["file"], f["line"]))
    # writers of *static_vptr
    writers = set()
    for f in ast.funcs:
        if not f.get("body"):
            continue
        for n in astq.walk(f["body"]):
            if n.get("k") == "BinaryOperator" and n.get("op") == "=":
                l = astq.strip(n["c"][0])
                if l.get("k") == "UnaryOperator" and l.get("op") == "*" and any(x.get("k") == "MemberExpr" and x.get("member") == "static_vptr" for x in astq.walk(l)):
                    writers.add(re.sub(r"<.*>", "<>", f["name"]).split("yomm2::")[-1])
    ok = writers <= {"detail::compiler<>::install_gv", "decode_dispatch_data<>"} and "detail::compiler<>::install_gv" in writers
    run.instance(rule, "static v-table pointers are written only by install_gv and decode_dispatch_data (%s)" % sorted(writers), None, ok=ok)
    if not ok:
        run.violation(rule, "static_vptr|writers", "static v-table pointers are written by %s" % sorted(writers), None)


def exact_route_rule(run, rule, ast, pols):
    """Indirect policies promise that a virtual_ptr outlives updates, the first one included: a pointer built from an object of
    exactly its static type holds the ADDRESS of the class's static v-table pointer, which is a constant of the program. On every
    path of the constructor that is feasible when dynamic_id == static_id, nothing that update writes is read: neither a table
    (vptrs / indirect_vptrs) nor the value of the static v-table pointer, in statements or in conditions.
    Paths are enumerated over the instantiated body; `dynamic_id == static_id` is assumed true, every other test is open."""
    n = 0
    for f in ast.funcs:
        if not f.get("body") or not re.search(r"virtual_ptr<.*>::virtual_ptr<", f["name"]) or f["name"].startswith("yorel::yomm2::method<"):
            continue
        ps = f.get("params") or []
        if len(ps) != 1 or "virtual_ptr<" in (ps[0].get("type") or ""):
            continue
        pol = [p for p in pols if re.search(r", %s>::virtual_ptr<" % re.escape(witness.POLICIES[p]), f["name"])]
        if not pol or pol[0] not in witness.INDIRECT:
            continue
        dyn, stat = set(), set()
        for x in astq.walk(f["body"]):
            if x.get("k") == "DeclStmt":
                for d in x["decls"]:
                    if d.get("init") is None:
                        continue
                    cs = [(y.get("callee") or "") for y in astq.walk(d["init"]) if y.get("k") in ("CallExpr", "CXXMemberCallExpr")]
                    if any(re.search(r"::dynamic_type<", c) for c in cs):
                        dyn.add(d["did"])
                    elif any(re.search(r"::static_type<", c) for c in cs):
                        stat.add(d["did"])
        if not dyn or not stat:
            run.broken.append("%s: the dynamic / static id locals were not found" % f["name"][:120])
            continue

        def side(e):
            e = astq.strip(e)
            if e is not None and e.get("k") == "DeclRefExpr":
                return "d" if e["ref"]["did"] in dyn else "s" if e["ref"]["did"] in stat else None
            return None

        inits = {d["did"]: d["init"] for x in astq.walk(f["body"]) if x.get("k") == "DeclStmt" for d in x["decls"] if d.get("init") is not None}

        def decide(c):
            c = astq.strip(c)
            if c is None:
                return None
            if c.get("k") == "DeclRefExpr" and c["ref"].get("storage") == "local" and c["ref"]["did"] in inits and "bool" in (c.get("t") or "bool"):
                return decide(inits[c["ref"]["did"]])
            if c.get("k") == "BinaryOperator" and c.get("op") in ("==", "!="):
                if {side(c["c"][0]), side(c["c"][1])} == {"d", "s"}:
                    return c["op"] == "=="
                return None
            if c.get("k") == "UnaryOperator" and c.get("op") == "!":
                v = decide(c["c"][0])
                return None if v is None else not v
            if c.get("k") == "BinaryOperator" and c.get("op") in ("&&", "||"):
                a, b = decide(c["c"][0]), decide(c["c"][1])
                if c["op"] == "&&":
                    return False if (a is False or b is False) else True if (a and b) else None
                return True if (a is True or b is True) else False if (a is False and b is False) else None
            return None
        byid, parent = astq.index_nodes(f)

        def update_state(x):
            """reads of state that update writes, below x"""
            out = []
            for y in astq.walk(x):
                nm = astq.refname(y) or ""
                if y.get("k") in ("DeclRefExpr", "MemberExpr") and re.search(r"::(indirect_vptrs|vptrs)$", nm):
                    out.append(nm.split("::")[-1])
                elif y.get("k") in ("DeclRefExpr", "MemberExpr") and re.search(r"::static_vptr(<.*>)?$", nm):
                    q = parent.get(y["id"])
                    while q is not None and q.get("k") in ("ParenExpr",):
                        q = parent.get(q["id"])
                    if not (q is not None and q.get("k") == "UnaryOperator" and q.get("op") == "&"):
                        out.append("the value of static_vptr")
                elif y.get("k") in ("CallExpr", "CXXMemberCallExpr") and re.search(r"::dynamic_vptr<", y.get("callee") or ""):
                    out.append("dynamic_vptr()")
            return out
        paths = astq.enum_paths(f["body"], decide, lambda x: bool(update_state(x)))
        bad = []
        for pth in paths:
            for kind, x in pth["events"]:
                bad.append((x, update_state(x), kind))
        n += 1
        ok = not bad
        run.instance(rule, "%s: built from an object of exactly the static type, the pointer does not depend on anything update writes" % crules.short(f)[:110], (f["file"], f["line"]), ok=ok, detail={"paths": len(paths)})
        if not ok:
            x, what, kind = bad[0]
            run.violation(rule, "virtual_ptr::virtual_ptr(Other&&)|exact-route-state", "%s: with dynamic_id == static_id a path still reads %s (%s `%s`): under an indirect policy a pointer built before the first update is no longer the address of the class's static v-table pointer" % (
                crules.short(f)[:100], ", ".join(sorted(set(what))), "condition" if kind == "cond" else "statement", astq.text(x)[:70]), (f["file"], x.get("l", f["line"])))
    if n == 0:
        run.broken.append("exact_route_rule: no constructor-from-object of an indirect policy in the unit")


def check(run):
    r = ["C09-static", "C09-lookup", "C09-copy", "C09-access", "C09-indirect"]
    pols = callpath.ALL_POLICIES
    run.rule(r[0], "static-type shortcut / final store static_vptr<pointee class> of the same policy (its address when indirect)", floor=8 * len(pols))
    run.rule(r[1], "the constructor's dynamic route reads the table cell Policy::dynamic_vptr(obj) reads", floor=5 * len(pols))
    run.rule(r[2], "converting constructors and cast<> carry the source's v-table pointer", floor=5 * len(pols))
    run.rule(r[3], "get / * / -> return the stored object", floor=3 * len(pols))
    run.rule(r[4], "indirect policies: table of addresses of static v-table pointers, reassigned only by install_gv / decode", floor=4)
    run.rule("C09-table", "Policy::dynamic_vptr(obj) reads the policy's own table at the (hashed) dynamic type id of obj; publish_vptrs writes each class's v-table pointer at the (hashed) id of each of its ids", floor=len(pols) + 4)
    shapes = ["r", "V", "X", "W"]
    for nd in ([True] if run.tier == "quick" else [True, False]):
        units = callpath.build_units(run, pols, shapes if run.tier == "quick" else callpath.shapes_for("quick"), ndebug=nd, tag="c09")
        for u in units:
            ir_rules(run, u, r[0], r[1], r[2], r[3], "C09-table")
    src, _ = witness.call_matrix(["p_ind", "release", "p_map", "p_nohash"], ["r"], witness.update_block(["p_ind", "release", "p_map", "p_nohash"]))
    ast = astq.Ast(common.ast_json(run, src, "c09_ast", funcs="publish_vptrs|class_info::|generic_compiler::class_::|install_gv|decode_dispatch_data|_vptr"))
    ast_rules(run, r[4], ast)
    from .. import callpath as _cp
    for p in sorted(witness.INDIRECT):
        rsrc, _ = _cp.unit_source(p, ["r", "V", "X"])
        rast = astq.Ast(common.ast_json(run, rsrc, "c09_routes_%s" % p, funcs="virtual_ptr<"))
        exact_route_rule(run, r[4], rast, [p])
    # publication: every entry of the pointer vector and of the table of addresses is rewritten by every update (a virtual_ptr
    # built after a later update must see that update's tables)
    from .. import crules
    cast_, _ = crules.unit(run, ndebug=True)
    crules.record_vptr_rules(run, r[0], cast_)
    for x in ("C09-h1", "C09-h2", "C09-h4", "C09-h5"):
        run.rule(x, "(decided by C05)", floor=0)
    crules.hash_rules(run, "C09-h1", "C09-h2", r[4], "C09-h4", "C09-h5", cast_)
    run.violations = [v for v in run.violations if not v["rule"].startswith("C09-h")]
    for x in ("C09-h1", "C09-h2", "C09-h4", "C09-h5"):
        del run.rules[x]
    run.assumptions += ["that the table cell holds the right class's v-table pointer is decided by publishing rules (C05-publish, C10-allids) and is a run-time value otherwise",
                        "equality of run-time dispatch results is not observed; methods read a virtual_ptr argument only through _vptr() (C01-walk leaf)"]
    # a virtual_ptr handed to a definition is converted, never re-read as another type: the object pointer inside it is adjusted by
    # a derived<->base or dynamic cast (get / * / -> then give back the original object under multiple inheritance too)
    from . import c11_ast
    c11_ast.check(run, rule="C09-casts", only_casts=True)
    from .. import crules as _cr
    _cr.facet_rules(run, "C09-facets")
    return run.finish(level="other", explanation="IR symbolic summaries of the value stored in the v-table-pointer field by every construction route of the witness matrix "
                      "(from exact type, from base reference, from shared_ptr lvalue / const lvalue / rvalue, final, make_virtual_shared, converting / copy / move "
                      "constructors, cast) for nine policies, compared with static_vptr<pointee> resp. the summary of Policy::dynamic_vptr; AST rules for the indirect table.")
