"""C16 - concurrent calls are race-free.

Decides: C16-readonly (no non-atomic write to shared memory anywhere on the call
path, over the whole witness matrix) and C16-disjoint (globals referenced by
policy A's call path are disjoint from globals written by update<B>).
Does not decide: "returns the sequential answer" beyond what race freedom of a
read-only path implies."""
import re
from .. import common, callpath, irq, eff, witness

CANARY = r'''
#include <vector>
namespace yorel { namespace yomm2 { namespace canary {
int hits; std::vector<int> cache;
struct S { int x; };
inline int counted(const S& s) { ++hits; return s.x; }            // store to a global
inline int memo(const S& s) { cache.push_back(s.x); return s.x; }  // non-const std member on a global
inline void poke(S& s) { s.x = 1; }                               // store through an lvalue-reference parameter
inline S make(int v) { S s; s.x = v; return s; }                  // local / sret only: must NOT be reported
inline int lazy() { static int v = hits + 1; return v; }           // guarded init of a function-local static: not a race
}}}
namespace w_canary { using namespace yorel::yomm2::canary;
int call(const S& a0) { return counted(a0); }
int res(const S& a0) { return memo(a0); }
}
namespace w_canary2 { using namespace yorel::yomm2::canary;
int call(S& a0) { poke(a0); return 0; }
int res(int a0) { return make(a0).x + lazy(); }
}
'''

# (callee regex, global regex, reason)
EXEMPT = [
    # (none) - the former exemption of unordered_map::operator[] on vptr_map::vptrs in virtual_ptr's constructor was a defect after
    # all (F33): [container.requirements.dataraces] counts operator[] as const for SEQUENCE containers only, so concurrent
    # constructions under a vptr_map policy formally raced; the constructor now looks the pointer up through a const reference
]


def analyse_unit(run, u, rule_ro, per_policy):
    mod = u["module"]
    an = eff.Analyzer(mod)
    ents = callpath.entries(mod)
    if not ents:
        raise common.AnalysisBroken("no call-path entries found in unit " + u["name"])
    reads = {}
    nfun = set()
    for kind, f in ents:
        params = irq.param_list(f.dname)
        own = callpath.own_args(f, params)
        e = an.run(f, own_eargs=own)
        nfun |= e.funcs
        for g, w in e.globals_ref.items():
            reads.setdefault(mod.gd(g), w)
        bad = []
        for w in e.writes:
            if w["kind"] == "stdcall":
                ex = None
                for crx, grx, why in EXEMPT:
                    if re.search(crx, w["callee"]) and all(a[0] == "global" and re.search(grx, mod.gd(a[1])) for a in w["prov"]):
                        ex = why
                if ex:
                    continue
            bad.append(w)
        # "every call returns what it would return single-threaded": state consulted on the call path is the same for every thread
        tls = sorted({fn for fn in e.funcs if fn.startswith("thread-local wrapper routine for ") or fn.startswith("thread-local initialization routine for ")})
        for fn in tls:
            obj = re.sub(r"^thread-local (wrapper|initialization) routine for ", "", fn)
            run.violation(rule_ro, "thread-local|%s" % re.sub(r"<.*", "", obj)[:120], "the call path consults the thread-local object %s: a call made on another thread than the one that set it up does not return the sequential answer" % obj[:160], f.where())
        for s in e.stops:
            if tls and s["kind"] == "indirect" and s["fn"].startswith("thread-local"):
                continue
            if s["kind"] == "indirect" and "::operator()(" not in s["fn"]:
                run.broken.append("indirect call outside method::operator() on the call path: %s @ %s" % (s["fn"][:120], s["where"]))
        what = "%s %s" % (kind, f.dname)
        run.instance(rule_ro, what, f.where(), ok=not bad,
                     detail={"functions_reached": len(e.funcs), "stops": len(e.stops), "atomics": len(e.atomics)})
        for w in bad:
            tgt = ", ".join(eff.fmt_prov(mod, w["prov"]))
            fnq = irq.base_name(w["fn"]) if irq.param_list(w["fn"]) is not None else w["fn"]
            key = "%s|%s|%s" % (re.sub(r"w_\w+_\d+::key", "K", fnq)[:200], w["kind"] + (":" + w.get("callee", "")[:80] if w["kind"] == "stdcall" else ""), re.sub(r"w_\w+_\d+::key", "K", tgt)[:160])
            run.violation(rule_ro, key,
                          "non-atomic write to shared memory on the call path: %s%s -> %s (in %s; entry %s)" % (
                              w["kind"], (" " + w.get("callee", "")[:100]) if w.get("callee") else "", tgt, w["fn"][:140], f.dname[:100]),
                          w["where"], detail={"chain": [c[:140] for c in w["chain"]]})
    per_policy[u["policy"]] = {"reads": reads, "functions": len(nfun), "entries": len(ents)}
    return mod, an


def analyse_repo_unit(run, u, rule):
    """the repository's own units: every operator(), thunk, handler and virtual_ptr member instantiated there."""
    mod = irq.Module(u["path"])
    an = eff.Analyzer(mod)
    n = 0
    for kind, f in callpath.generic_entries(mod):
        d = irq.strip_ret(f.dname)
        params = irq.param_list(d)
        own = callpath.own_args(f, params)
        tail = (irq.base_name(d) if params is not None else d).split(">::")[-1]
        if kind == "virtual_ptr" and (tail.startswith("virtual_ptr") or tail.startswith("~virtual_ptr") or tail.startswith("box<") or tail.startswith("operator=")):
            # the object under construction / destruction / assignment belongs to the calling thread
            for k, a in enumerate(f.args):
                if not a.get("sret"):
                    own.add(k)
                    break
        e = an.run(f, own_eargs=own)
        bad = []
        for w in e.writes:
            if w["kind"] == "stdcall" and any(re.search(c, w["callee"]) and all(a[0] == "global" and re.search(g, mod.gd(a[1])) for a in w["prov"]) for c, g, _ in EXEMPT):
                continue
            bad.append(w)
        n += 1
        run.instance(rule, "%s: %s %s" % (u["file"], kind, re.sub(r"yorel::yomm2::", "", d)), f.where(), ok=not bad)
        for w in bad:
            tgt = ", ".join(eff.fmt_prov(mod, w["prov"]))
            fnq = irq.base_name(irq.strip_ret(w["fn"])) if irq.param_list(irq.strip_ret(w["fn"])) is not None else w["fn"]
            fnq = re.sub(r"<.*", "", fnq)
            run.violation(rule, "%s|%s|repo" % (fnq[:160], w["kind"]), "non-atomic write to shared memory on the call path (unit %s): %s%s -> %s (in %s; entry %s)" % (
                u["file"], w["kind"], (" " + w.get("callee", "")[:100]) if w.get("callee") else "", tgt[:200], w["fn"][:140], f.dname[:100]), w["where"])
    return n


def update_writes(mod, an, policy):
    """globals written (or passed to a mutating std function) by update<policy>()."""
    fs = [f for f in mod.funcs.values() if f.body and f.dname.startswith("yw_upd::upd_%s(" % policy)]
    if not fs:
        raise common.AnalysisBroken("update wrapper for %s not found" % policy)
    e = an.run(fs[0], own_eargs=set(range(len(fs[0].args))))
    out = {}
    for w in e.writes:
        for a in w["prov"]:
            if a[0] == "global":
                out.setdefault(mod.gd(a[1]), w["where"])
            elif a[0] == "loaded":
                # written through a pointer loaded from a global (e.g. *cls.static_vptr, slots_strides_ptr)
                for b in a[1:]:
                    if b[0] == "global":
                        out.setdefault("*via " + mod.gd(b[1]), w["where"])
    return out, e


def canary(run):
    path = common.ir_json(run, CANARY, "canary_c16", ndebug=True)
    mod = irq.Module(path)
    an = eff.Analyzer(mod)
    got = {}
    for f in mod.funcs.values():
        if f.body and re.match(r"^w_canary2?::(call|res)\(", f.dname):
            e = an.run(f, own_eargs=callpath.own_args(f, irq.param_list(f.dname)))
            got[f.dname.split("(")[0]] = [(w["kind"], eff.fmt_prov(mod, w["prov"])) for w in e.writes]
    exp_ok = (len(got.get("w_canary::call", [])) == 1 and "hits" in str(got["w_canary::call"])
              and any(k == "stdcall" for k, _ in got.get("w_canary::res", []))
              and len(got.get("w_canary2::call", [])) == 1 and "entry-arg" in str(got["w_canary2::call"])
              and got.get("w_canary2::res", None) == [])
    run.canaries.append({"canary": "c16 effect engine", "reported": {k: str(v)[:200] for k, v in got.items()}, "ok": exp_ok})
    if not exp_ok:
        raise common.AnalysisBroken("C16 canary: effect engine did not classify the positive controls as expected: %s" % got)


def check(run):
    canary(run)
    pols = callpath.ALL_POLICIES
    shapes = callpath.shapes_for(run.tier)
    r1 = "C16-readonly"
    run.rule(r1, "no non-atomic write to shared memory reachable from any call-path entry (witness wrappers, thunks)",
             floor=len(pols) * (2 * len(shapes) + 20))
    r2 = "C16-disjoint"
    run.rule(r2, "globals referenced on policy A's call path are not written by update<B>, A != B", floor=len(pols) * (len(pols) - 1))
    per_policy = {}
    variants = [True] if run.tier == "quick" else [True, False]
    upd = {}
    for nd in variants:
        units = callpath.build_units(run, pols, shapes, ndebug=nd)
        for u in units:
            mod, an = analyse_unit(run, u, r1, per_policy)
            if nd:
                w, e = update_writes(mod, an, u["policy"])
                upd[u["policy"]] = w
    # methods with compile-time offsets (the cross-check of a runtime_checks policy is on the call path too)
    so_units = callpath.build_units(run, ["release", "debug", "p_dbg2", "p_map", "p_ind"] if run.tier == "quick" else pols, ["r"], static_shapes=callpath.STATIC_SHAPES, tag="so")
    pp2 = {}
    for u in so_units:
        analyse_unit(run, u, r1, pp2)
    if run.tier == "thorough":
        n_repo = 0
        rus = callpath.repo_units(run)
        for u in rus:
            n_repo += analyse_repo_unit(run, u, r1)
        run.units.append({"unit": "repository units (compile database)", "count": len(rus), "entries": n_repo})
    for a in pols:
        for b in pols:
            if a == b:
                continue
            inter = sorted(set(per_policy[a]["reads"]) & {g for g in upd[b] if not g.startswith("*via ")})
            # statics that are never written do not matter; written ones shared by two policies do
            run.instance(r2, "reads(%s) vs writes(update<%s>)" % (a, b), ok=not inter,
                         detail={"reads": len(per_policy[a]["reads"]), "writes": len(upd[b])})
            for g in inter:
                run.violation(r2, "%s|%s|%s" % (a, b, g[:200]),
                              "global %s is read on the call path of policy %s and written by update<%s>()" % (g, a, b),
                              upd[b][g])
    # "update on a different policy": a policy derived from another one with rebind / replace / remove owns every piece of its
    # state - no facet, with or without extra template arguments, stays keyed by the policy it was derived from (E3, shared with C14)
    from . import c14
    from .. import e3
    run.rule("C16-rebind", "a policy obtained by rebind / replace / remove shares no facet (hence no static) with the policy it was derived from", floor=60)
    for ob, ok, msg in e3.run_unit(run, "C16-rebind", c14.rebind_unit()):
        if not ok:
            run.violation("C16-rebind", ob["key"], "%s: %s" % (ob["desc"], msg), "include/yorel/yomm2/policies/core.hpp")
    run.assumptions += [
        "the C++ standard library, libsupc++ and libc are a trusted base: their bodies are not analysed; a call is a write iff a "
        "shared object is passed as non-const `this` / non-const reference, except the members [container.requirements.dataraces] exempts",
        "user definitions (what the definition pointer calls) are outside the library and outside this property",
        "the path past an error-handler call does not return (decided by C02-abort)",
        "instantiations are those of the witness matrix (policies x shapes x construction routes) listed under units_analysed",
    ]
    read_sample = {p: sorted(v["reads"])[:12] for p, v in per_policy.items()}
    return run.finish(
        level="other",
        explanation="Effect analysis of unoptimised LLVM IR (after mem2reg) of every instantiation in the witness matrix: "
                    "from each entry (method call wrapper, resolve wrapper, virtual_ptr construction/conversion/accessor route, thunk) "
                    "all library functions reachable through direct calls are walked with pointer provenance propagated through "
                    "argument bindings; any non-atomic store / mem-intrinsic / mutating std call whose target is a global, a loaded "
                    "pointer or a caller-shared reference is a violation. Decides race freedom of the call path as an effect property; "
                    "does not decide the values returned.",
        extra_cov={"policies": pols, "shapes": shapes, "exemptions": [{"callee": c, "object": g, "reason": w} for c, g, w in EXEMPT],
                   "read_set_sample": read_sample,
                   "update_write_sets": {p: sorted(w)[:40] for p, w in upd.items()},
                   "per_policy": {p: {"functions": v["functions"], "entries": v["entries"], "globals_read": len(v["reads"])} for p, v in per_policy.items()}})
