"""C06 - dispatch does not depend on the order of registration (claimed in part).

The property is a 2-safety statement over permutations of run-time lists and is NOT decided as such. What is decided are the places
where a registration position could leak into the outcome - each a necessary condition: breaking it makes the outcome depend on
which item was registered first:
C06-tiebreak : where several equally specific candidates remain (dispatch cell, next) the outcome is the ambiguity error, never
               one of the candidates (front(), [0], the first one found).
C06-step     : best() eliminates a member only because the candidate beats IT, drops the candidate only because a member beats it
               (the per-pair step; the specificity table it uses).
C06-merge    : several registrations of one thing are merged, not resolved by position: every record of a class contributes its
               bases, a group's concreteness is accumulated over all its classes, a definition is only refused when it is
               already registered itself.
Not decided  : that the fold of best() is independent of the scan order for every lattice (the relation is not transitive in
               general), iteration-order effects inside slot / group numbering (consistent renumberings)."""
from .. import common, crules


def check(run):
    r1, r2, r3 = "C06-tiebreak", "C06-step", "C06-merge"
    run.rule(r1, "several most specific candidates -> the ambiguity error (cell and next), never a candidate picked by position", floor=20)
    run.rule(r2, "best(): per-pair elimination step and the specificity table it relies on", floor=6)
    run.rule(r3, "records of the same class are all merged; group concreteness is accumulated; a definition is refused only if it is itself registered already", floor=8)
    for nd in ([True] if run.tier == "quick" else [True, False]):
        ast, _ = crules.unit(run, ndebug=nd)
        crules.cells_rules(run, r1, None, None, ast)
        crules.next_rules(run, r1, None, ast)
        crules.best_rules(run, r2, ast)
        crules.order_rules(run, r2, r2, ast)
        crules.merge_rules(run, r3, None, ast)
        crules.group_concrete_rules(run, r3, ast)
        crules.idem_rules(run, r3, ast)
        # slot reservation: which root is walked first must not matter - a slot taken is reserved in every base, so a root
        # visited later cannot hand it out again
        if "C06-slots" not in run.rules:
            run.rule("C06-slots", "a slot taken in a class is reserved in all its bases and propagated to all covariant classes, whatever root is allocated first", floor=10)
        crules.reserve_rules(run, "C06-slots", ast)
        crules.alloc_rules(run, "C06-slots", ast)
        # which root's v-table starts at a slot other than 0 depends on the order in which the roots are visited: the bias
        # (slot - first_slot) must be applied by the writer, the installed pointer and the sizes alike
        crules.bias_rules(run, "C06-slots", ast)
        # whatever the order of registrations and unregistrations, update sees every live registration: the catalog operations
        # keep the list linked in every list-shape case (removing the FIRST registration is just one of the cases)
        if "C06-catalog" not in run.rules:
            run.rule("C06-catalog", "the registration catalogs stay correctly linked whichever element (first, interior, last, only) is removed and whatever is appended afterwards", floor=30)
        crules.list_rules(run, "C06-catalog", "C06-catalog", "C06-catalog", "C06-catalog", ast)
    # the pre-generated tables: do they depend on the order of registration of the program that DECODES them?
    from . import c13
    from .. import astq, witness
    r5 = "C06-decode"
    run.rule(r5, "decode_dispatch_data identifies the classes, methods and definitions its tables refer to (not merely by their position in the catalogs of the running program)", floor=1)
    pols = ["release", "debug"]
    src13, _ = witness.call_matrix(pols, ["rr"], witness.update_block(pols))
    ast13 = astq.Ast(common.ast_json(run, src13, "c13_ast_nd", ndebug=True, funcs=c13.FUNCS))
    decs = [f for f in ast13.funcs if f.get("body") and "decode_dispatch_data<" in f["name"]]
    if not decs:
        run.broken.append("C06-decode: decode_dispatch_data is not instantiated in the unit")
    for f in decs:
        # an identity check reads what names an item - its type id / method type / name - outside the trace output
        ident = []
        for n in astq.walk(f["body"]):
            if n.get("k") == "MemberExpr" and n.get("member") in ("type", "method_type", "name", "type_ids"):
                ident.append(n)
        def in_trace(n):
            # statements that only feed the trace stream do not count
            for st in astq.walk(f["body"]):
                if st.get("k") in ("CXXOperatorCallExpr",) and st.get("oop") == "<<" and any(x is n for x in astq.walk(st)) and any(
                        (astq.refname(y) or "").endswith("trace") or (y.get("k") == "MemberExpr" and y.get("member") == "trace") for y in astq.walk(st)):
                    return True
            return False
        used = [n for n in ident if not in_trace(n)]
        ok = bool(used)
        run.instance(r5, "%s: items are matched with the tables by identity" % crules.short(f)[:80], (f["file"], f["line"]), ok=ok)
        if not ok:
            run.violation(r5, "decode_dispatch_data|positional-identity", "the decoder takes the n-th method / definition / class of the RUNNING program's catalogs for the n-th one the generator saw and never looks at what it is (type id, name): "
                          "a program that links the same translation units in another order than the generator silently installs another method's or definition's cells", (f["file"], f["line"]))
    run.assumptions += ["C06 quantifies over permutations of the registration lists (2-safety): the rules are the structural reasons a position cannot leak at the "
                        "sites where candidates are compared or records merged; equality of outcomes over all permutations is not mechanised",
                        "best() folds a relation that is not transitive for unrelated positions: order-independence of the fold is NOT decided"]
    return run.finish(level="other", explanation="AST decision tables (dispatch cell / next for a best set of size 0, 1, 2+), the per-pair step of best(), the specificity tables, "
                      "and the merge rules of augment_classes / add_function: no site where several candidates or records meet resolves them by position.")
