"""C11 - definitions receive the caller's own arguments, correctly adjusted (claimed in part).

C11-types: type-checker witnesses - result types of the per-kind casts, static vs dynamic cast
           choice per inheritance shape, thunk signature, programs that must / must not compile.
C11-casts: (AST) every conversion between class pointers/references on the argument path is a
           derived<->base / dynamic cast, never a bit cast.
C11-fwd  : (IR) no copy construction of a tracked by-value / rvalue argument anywhere on the
           forwarding path; at most one move per by-value parameter per hop."""
import re
from .. import common, e3, callpath, witness, irq

PRELUDE = r'''
#include <yorel/yomm2/core.hpp>
#include <yorel/yomm2/symbols.hpp>
#include <yorel/yomm2/macros.hpp>
#include <memory>
#include <string>
using namespace yorel::yomm2;
namespace c11 {
struct A { virtual ~A() {} int a; };
struct B : A { int b; };                       // single base at offset 0
struct X { virtual ~X() {} int x; };
struct D2 : X, A { int d; };                   // A is the second base: non-zero offset
struct VB : virtual A { int v; };              // virtual base: needs dynamic_cast
struct E : B { int e; };                       // two levels
struct F : VB { int f; };                      // two levels through a virtual base
struct Mv { Mv(); Mv(Mv&&); Mv(const Mv&) = delete; };
using P = policy::release;
struct P2 : policy::debug::rebind<P2> {};
template<class Pol, class Param, class Spec> using cast_t = decltype(detail::argument_traits<Pol, Param>::template cast<Spec>(std::declval<detail::remove_virtual<Param>>()));
template<class T> T&& lv();
}
using namespace c11;
'''

SHAPES = {"A": False, "B": False, "D2": False, "E": False, "VB": True, "F": True}   # class -> dynamic cast needed from A


def types_unit(tier):
    u = e3.Unit("c11_types", PRELUDE)
    for pol in ("P", "P2"):
        for cls, dyn in SHAPES.items():
            D = cls
            kinds = [
                ("ref", "virtual_<A&>", "%s&" % D, "%s&" % D),
                ("cref", "virtual_<const A&>", "const %s&" % D, "const %s&" % D),
                ("rref", "virtual_<A&&>", "%s&&" % D, "%s&&" % D),
                ("ptr", "virtual_<A*>", "%s*" % D, "%s*" % D),
                ("cptr", "virtual_<const A*>", "const %s*" % D, "const %s*" % D),
                ("shared", "virtual_<std::shared_ptr<A>>", "std::shared_ptr<%s>" % D, "std::shared_ptr<%s>" % D),
                ("cshared", "virtual_<const std::shared_ptr<A>&>", "const std::shared_ptr<%s>&" % D, "std::shared_ptr<%s>" % D),
                ("vptr", "virtual_ptr<A, %s>" % pol, "virtual_ptr<%s, %s>" % (D, pol), "virtual_ptr<%s, %s>" % (D, pol)),
                ("cvptr", "const virtual_ptr<A, %s>&" % pol, "const virtual_ptr<%s, %s>&" % (D, pol), "virtual_ptr<%s, %s>" % (D, pol)),
                ("vsptr", "virtual_ptr<std::shared_ptr<A>, %s>" % pol, "virtual_ptr<std::shared_ptr<%s>, %s>" % (D, pol), "virtual_ptr<std::shared_ptr<%s>, %s>" % (D, pol)),
                ("cvsptr", "const virtual_ptr<std::shared_ptr<A>, %s>&" % pol, "const virtual_ptr<std::shared_ptr<%s>, %s>&" % (D, pol), "virtual_ptr<std::shared_ptr<%s>, %s>" % (D, pol)),
            ]
            for kn, param, spec, res in kinds:
                u.add("cast-type|%s|%s|%s" % (kn, cls, pol), "cast of a %s parameter to definition parameter %s yields %s" % (param, spec, res),
                      "static_assert(std::is_same_v<cast_t<%s, %s, %s>, %s>);" % (pol, param, spec, res))
            u.add("dynamic-choice|ref|%s" % cls, "requires_dynamic_cast<A&, %s&> is %s (virtual base on the path: %s)" % (D, str(dyn).lower(), dyn),
                  "static_assert(detail::requires_dynamic_cast<A&, %s&> == %s && detail::requires_dynamic_cast<const A&, const %s&> == %s);" % (D, str(dyn).lower(), D, str(dyn).lower()))
            u.add("dynamic-choice|ptr|%s" % cls, "requires_dynamic_cast<A*, shared_ptr<%s>> pointer form is %s" % (D, str(dyn).lower()),
                  "static_assert(detail::requires_dynamic_cast<A*, %s*> == %s);" % (D, str(dyn).lower()))
    # non-virtual parameters pass through with their own type
    for nv in ("int", "double&", "const double&", "std::unique_ptr<int>", "Mv", "Mv&&", "const Mv&", "int*"):
        u.add("cast-type|nonvirtual|%s" % nv, "a non-virtual parameter of type %s is passed through as %s" % (nv, nv),
              "static_assert(std::is_same_v<cast_t<P, %s, %s>, %s>);" % (nv, nv, nv))
    # thunk signature = method signature without virtual_<>
    u.raw("namespace th { int d1(B&, int, std::unique_ptr<int>, VB&); int d2(std::shared_ptr<E>, Mv, const D2&); }")
    u.add("thunk|sig|1", "thunk::fn has the method's signature with virtual_<> removed",
          "static_assert(std::is_same_v<decltype(&detail::thunk<P, int(virtual_<A&>, int, std::unique_ptr<int>, virtual_<A&>), th::d1, detail::types<B&, int, std::unique_ptr<int>, VB&>>::fn), int (*)(A&, int, std::unique_ptr<int>, A&)>);")
    u.add("thunk|sig|2", "thunk::fn has the method's signature with virtual_<> removed (shared_ptr, move-only by value, const ref)",
          "static_assert(std::is_same_v<decltype(&detail::thunk<P, int(virtual_<std::shared_ptr<A>>, Mv, virtual_<const A&>), th::d2, detail::types<std::shared_ptr<E>, Mv, const D2&>>::fn), int (*)(std::shared_ptr<A>, Mv, const A&)>);")
    # ... also when the definition's non-virtual parameters are only convertible from the method's (the thunk is reached through a
    # pointer of the METHOD's function type: its parameters are the method's, the conversion happens inside it)
    u.raw("namespace th { int d3(B&, double, const std::string&); int d4(std::shared_ptr<E>, long, const A&); }")
    u.add("thunk|sig|3", "thunk::fn keeps the method's non-virtual parameter types when the definition takes convertible ones (int -> double, const char* -> const std::string&)",
          "static_assert(std::is_same_v<decltype(&detail::thunk<P, int(virtual_<A&>, int, const char*), th::d3, detail::types<B&, double, const std::string&>>::fn), int (*)(A&, int, const char*)>);")
    u.add("thunk|sig|4", "thunk::fn keeps the method's non-virtual parameter types (short -> long) between virtual parameters",
          "static_assert(std::is_same_v<decltype(&detail::thunk<P, int(virtual_<std::shared_ptr<A>>, short, virtual_<const A&>), th::d4, detail::types<std::shared_ptr<E>, long, const A&>>::fn), int (*)(std::shared_ptr<A>, short, const A&)>);")
    u.add("method|fptr", "function_pointer_type / next_type of a method is R(*)(remove_virtual<A>...)",
          "static_assert(std::is_same_v<method<void, int(virtual_<A&>, Mv, virtual_ptr<A>, virtual_<std::shared_ptr<A>>)>::function_pointer_type, int (*)(A&, Mv, virtual_ptr<A>, std::shared_ptr<A>)>);")
    # the functions the declaration macros generate return what the method returns (references stay references)
    u.raw("namespace mr { YOMM2_DECLARE(A&, ref_ret, (virtual_<A&>, int)); YOMM2_DECLARE(const A&, cref_ret, (virtual_<const A&>)); YOMM2_DECLARE(A&&, rref_ret, (virtual_<A&&>)); "
          "YOMM2_DECLARE(Mv, val_ret, (virtual_<A&>)); YOMM2_DECLARE(A*, ptr_ret, (virtual_<A*>)); YOMM2_DECLARE(void, void_ret, (virtual_<A&>, Mv&&)); }")
    for name, ret, call in (("ref_ret", "A&", "mr::ref_ret(lv<A&>(), 1)"), ("cref_ret", "const A&", "mr::cref_ret(lv<const A&>())"), ("rref_ret", "A&&", "mr::rref_ret(lv<A&&>())"),
                            ("val_ret", "Mv", "mr::val_ret(lv<A&>())"), ("ptr_ret", "A*", "mr::ptr_ret(lv<A*>())"), ("void_ret", "void", "mr::void_ret(lv<A&>(), lv<Mv&&>())")):
        u.add("macro|return|%s" % name, "the function generated by YOMM2_DECLARE for a method returning %s returns %s (the definition's result passes through unchanged)" % (ret, ret),
              "static_assert(std::is_same_v<decltype(%s), %s>);" % (call, ret))
    # ... and take exactly the method's parameters (virtual_<> removed): a by-value parameter stays a by-value parameter, so an
    # rvalue argument is moved into it and forwarded, never bound to a const reference and copied further down
    u.raw("namespace mp { struct Tk { Tk(); Tk(const Tk&); Tk(Tk&&); }; YOMM2_DECLARE(int, by_val, (virtual_<A&>, Tk, Mv)); YOMM2_DECLARE(int, by_ref, (Tk&, virtual_<const A&>, const Tk&, Tk&&)); "
          "YOMM2_DECLARE(int, by_sp, (virtual_<std::shared_ptr<A>>, std::shared_ptr<int>, virtual_ptr<A>)); }")
    for name, sig in (("by_val", "int (*)(A&, mp::Tk, Mv)"), ("by_ref", "int (*)(mp::Tk&, const A&, const mp::Tk&, mp::Tk&&)"), ("by_sp", "int (*)(std::shared_ptr<A>, std::shared_ptr<int>, virtual_ptr<A>)")):
        u.add("macro|params|%s" % name, "the function generated by YOMM2_DECLARE has the method's own parameter types, virtual_<> removed (%s)" % sig,
              "static_assert(std::is_same_v<decltype(static_cast<%s>(&mp::%s)), %s>);" % (sig, name, sig))
    # definitions that are member functions (add_member_function): the adapter forwards its arguments like the thunk does - a move-only
    # by-value parameter and an rvalue-reference parameter compile (and are therefore not copied)
    u.raw("namespace mf { struct MB : A { int by_val(Mv m); int by_rref(Mv&& m, int); int by_lref(Mv& m, const Mv& c); }; }")
    for name in ("by_val", "by_rref", "by_lref"):
        u.add("must-compile|member-thunk|%s" % name, "the adapter of a member-function definition (%s) passes by-value and rvalue-reference parameters on without copying" % name,
              "template struct yorel::yomm2::detail::member_function_thunk<&mf::MB::%s, decltype(&mf::MB::%s)>;" % (name, name))
    # the classes a definition registers for its virtual parameters: one per virtual parameter of the method, whatever way the method
    # and the definition pass a virtual_ptr (by value / by const reference, in any combination - the thunk converts both)
    for mk, dk, nm in (("virtual_ptr<A, P>", "virtual_ptr<B, P>", "val-val"), ("const virtual_ptr<A, P>&", "const virtual_ptr<B, P>&", "ref-ref"),
                       ("virtual_ptr<A, P>", "const virtual_ptr<B, P>&", "val-ref"), ("const virtual_ptr<A, P>&", "virtual_ptr<B, P>", "ref-val"),
                       ("virtual_ptr<std::shared_ptr<A>, P>", "const virtual_ptr<std::shared_ptr<B>, P>&", "shared-val-ref")):
        u.add("spec-classes|%s" % nm, "a definition taking %s for a method parameter %s registers the class B for it" % (dk, mk),
              "static_assert(std::is_same_v<detail::spec_polymorphic_types<P, detail::types<%s, int>, detail::types<%s, int>>, detail::types<B>>);" % (mk, dk))
    # non-virtual parameters are none of the policy's business: a signature may pass an INCOMPLETE type by reference or pointer
    # (nothing on the call or error path may ask the policy for its type id)
    u.add("must-compile|opaque-nonvirtual", "a method whose non-virtual parameters are references / pointers to an incomplete type compiles, error handlers included",
          "namespace opq { struct Opaque; struct K; using M = method<K, int(Opaque&, virtual_<A&>, Opaque*)>; int d(Opaque&, B&, Opaque*); M::add_function<d> r; int call(Opaque& o, A& a) { return M::fn(o, a, &o); } }", separate=True)
    # programs that must compile: one line each
    progs = [
        ("moveonly-last", "int(virtual_<A&>, std::unique_ptr<int>)", "B&, std::unique_ptr<int>", "A& a, std::unique_ptr<int> p", "a, std::move(p)"),
        ("moveonly-first", "int(std::unique_ptr<int>, virtual_<A&>)", "std::unique_ptr<int>, B&", "std::unique_ptr<int> p, A& a", "std::move(p), a"),
        ("moveonly-between", "int(virtual_<A&>, Mv, virtual_<A&>)", "B&, Mv, VB&", "A& a, Mv m, A& b", "a, std::move(m), b"),
        ("rvalue-virtual", "int(virtual_<A&&>, int)", "D2&&, int", "A&& a, int i", "std::move(a), i"),
        ("const-pointee", "int(virtual_<const A&>, virtual_<const A*>)", "const E&, const F*", "const A& a, const A* b", "a, b"),
        ("cvptr", "int(const virtual_ptr<A>&, int)", "const virtual_ptr<B>&, int", "const virtual_ptr<A>& a, int i", "a, i"),
        ("vptr-virtualbase", "int(virtual_ptr<A>, virtual_ptr<A>)", "virtual_ptr<VB>, virtual_ptr<D2>", "virtual_ptr<A> a, virtual_ptr<A> b", "a, b"),
        ("vsptr-virtualbase", "int(const virtual_ptr<std::shared_ptr<A>>&, virtual_ptr<std::shared_ptr<A>>)", "const virtual_ptr<std::shared_ptr<F>>&, virtual_ptr<std::shared_ptr<D2>>", "const virtual_ptr<std::shared_ptr<A>>& a, virtual_ptr<std::shared_ptr<A>> b", "a, b"),
        ("shared-virtualbase", "int(virtual_<std::shared_ptr<A>>, virtual_<const std::shared_ptr<A>&>)", "std::shared_ptr<VB>, const std::shared_ptr<F>&", "std::shared_ptr<A> a, const std::shared_ptr<A>& b", "a, b"),
        ("rvalue-nonvirtual", "int(Mv&&, virtual_<A*>)", "Mv&&, D2*", "Mv&& m, A* a", "std::move(m), a"),
        # definitions written for the method's own (root) classes, with identical and with convertible non-virtual parameters
        ("root-definition", "int(virtual_<A&>, int)", "A&, int", "A& a, int i", "a, i"),
        ("root-definition-conv", "int(virtual_<A&>, int)", "A&, double", "A& a, int i", "a, i"),
        ("root-definition-secondbase", "int(virtual_<D2&>, int)", "A&, int", "D2& a, int i", "a, i"),
    ]
    for n, (name, sig, dparams, cparams, cargs) in enumerate(progs):
        u.add("must-compile|%s" % name, "a method %s with definition (%s) and a forwarding caller compiles" % (sig, dparams),
              "namespace mc%d { struct key; using M = method<key, %s>; int def(%s) { return 1; } M::add_function<def> reg; int call(%s) { return M::fn(%s); } }" % (n, sig, dparams, cparams, cargs), separate=True)
    if tier == "thorough":
        # every ordered pair of virtual parameter kinds, with a non-virtual move-only parameter between them, each with
        # a different inheritance shape of the definition's class
        VK = {
            "ref": ("virtual_<A&>", "{D}&", "A& {n}", "{n}"),
            "cref": ("virtual_<const A&>", "const {D}&", "const A& {n}", "{n}"),
            "rref": ("virtual_<A&&>", "{D}&&", "A&& {n}", "std::move({n})"),
            "ptr": ("virtual_<A*>", "{D}*", "A* {n}", "{n}"),
            "shared": ("virtual_<std::shared_ptr<A>>", "std::shared_ptr<{D}>", "std::shared_ptr<A> {n}", "{n}"),
            "cshared": ("virtual_<const std::shared_ptr<A>&>", "const std::shared_ptr<{D}>&", "const std::shared_ptr<A>& {n}", "{n}"),
            "vptr": ("virtual_ptr<A>", "virtual_ptr<{D}>", "virtual_ptr<A> {n}", "{n}"),
            "cvptr": ("const virtual_ptr<A>&", "const virtual_ptr<{D}>&", "const virtual_ptr<A>& {n}", "{n}"),
            "vsptr": ("virtual_ptr<std::shared_ptr<A>>", "virtual_ptr<std::shared_ptr<{D}>>", "virtual_ptr<std::shared_ptr<A>> {n}", "{n}"),
            "cvsptr": ("const virtual_ptr<std::shared_ptr<A>>&", "const virtual_ptr<std::shared_ptr<{D}>>&", "const virtual_ptr<std::shared_ptr<A>>& {n}", "{n}"),
        }
        shapes = ["B", "D2", "VB", "E", "F"]
        k = 0
        for a, (ma, da, ca, xa) in VK.items():
            for b, (mb, db, cb, xb) in VK.items():
                Da, Db = shapes[k % 5], shapes[(k + 2) % 5]
                k += 1
                u.add("must-compile|pair|%s|%s" % (a, b), "a method (%s, move-only, %s) with definition classes %s / %s and a forwarding caller compiles" % (a, b, Da, Db),
                      "namespace mp%d { struct key; using M = method<key, int(%s, Mv, %s)>; int def(%s, Mv, %s) { return 1; } M::add_function<def> reg; int call(%s, Mv m, %s) { return M::fn(%s, std::move(m), %s); } }" % (
                          k, ma, mb, da.format(D=Da), db.format(D=Db), ca.format(n="x"), cb.format(n="y"), xa.format(n="x"), xb.format(n="y")), separate=True)
    # programs that must not compile (shared_ptr by value <-> by const reference mix)
    u.add("must-fail|shared-by-value-to-cref", "casting a by-value shared_ptr parameter to a `const shared_ptr<D>&` definition parameter is rejected",
          "auto mf1 = &detail::virtual_traits<P, std::shared_ptr<A>>::template cast<const std::shared_ptr<B>&>;", must_fail="cannot cast from 'const shared_ptr<base>&' to 'shared_ptr<derived>'")
    u.add("must-fail|shared-cref-to-value", "casting a `const shared_ptr<A>&` parameter to a by-value shared_ptr definition parameter is rejected",
          "auto mf2 = &detail::virtual_traits<P, const std::shared_ptr<A>&>::template cast<std::shared_ptr<B>>;", must_fail="cannot cast from 'const shared_ptr<base>&' to 'shared_ptr<derived>'")
    return u


def fwd_rule(run, rule):
    """IR: copies / moves of the tracked argument type yw::Trk on the forwarding path."""
    pols = ["release", "debug", "p_map"] if run.tier == "quick" else callpath.ALL_POLICIES
    shapes = [s for s in callpath.shapes_for(run.tier) if any(c in s for c in "tqku")]
    shapes += ["tr", "rt", "rtr", "qr", "rq", "kr", "ttr", "ru", "ur", "rur"]
    units = callpath.build_units(run, pols, shapes, ndebug=True, with_update=False)
    COPY = re.compile(r"^yw::Trk::Trk\(yw::Trk const&\)$|^std::unique_ptr<int, std::default_delete<int> >::unique_ptr\(std::unique_ptr<int, std::default_delete<int> > const&\)$")
    MOVE = re.compile(r"^yw::Trk::Trk\(yw::Trk&&\)$|^std::unique_ptr<int, std::default_delete<int> >::unique_ptr\(std::unique_ptr<int, std::default_delete<int> >&&\)$")
    for u in units:
        mod = u["module"]
        for ent in u["index"]:
            ns, shape = ent["ns"], ent["shape"]
            byval = sum(1 for c in shape if c in "tu")
            hops = []
            for f in mod.funcs.values():
                if not f.body:
                    continue
                d = f.dname
                if ("method<%s::key," % ns) in d and re.search(r">::operator\(\)\(", d) and "add_function" not in d:
                    hops.append(("method::operator()", f))
                elif ("%s::def" % ns) in d and "thunk<" in d and d.rstrip().endswith(")") and "::fn(" in d:
                    hops.append(("thunk::fn", f))
                elif ("argument_traits<" in d and "::cast<" in d) or "::rarg(" in d:
                    pass
            for hop, f in hops:
                copies = [i for i in f.all_insts() if i.op in ("call", "invoke") and i.callee and COPY.search(irq.strip_ret(i.callee))]
                moves = [i for i in f.all_insts() if i.op in ("call", "invoke") and i.callee and MOVE.search(irq.strip_ret(i.callee))]
                # helper functions the hop calls with a tracked argument (argument_traits::cast by value)
                sub_moves = 0
                for i in f.all_insts():
                    if i.op in ("call", "invoke") and i.callee and "argument_traits<" in i.callee and "::cast<" in i.callee:
                        cal = mod.funcs.get(i.get("callee"))
                        if cal and cal.body:
                            copies += [j for j in cal.all_insts() if j.op in ("call", "invoke") and j.callee and COPY.search(irq.strip_ret(j.callee))]
                            sub_moves += sum(1 for j in cal.all_insts() if j.op in ("call", "invoke") and j.callee and MOVE.search(irq.strip_ret(j.callee)))
                limit = byval * (2 if hop == "thunk::fn" else 1)   # thunk: into cast's parameter, then into the definition's parameter
                ok = not copies and (len(moves) + sub_moves) <= limit
                run.instance(rule, "%s of %s shape=%s policy=%s" % (hop, ns, shape, ent["policy"]), f.where(), ok=ok,
                             detail={"copies": len(copies), "moves": len(moves) + sub_moves, "by_value_params": byval})
                mask = "".join(c if c in "tqku" else ("v" if witness.is_virtual(c) else "n") for c in shape)
                if copies:
                    run.violation(rule, "%s|copy" % hop, "%s copy-constructs a by-value / rvalue argument (%d copy constructor call(s)) for signature shape %s" % (hop, len(copies), shape),
                                  copies[0].where(), detail={"function": f.dname})
                elif len(moves) + sub_moves > limit:
                    run.violation(rule, "%s|moves" % hop, "%s moves by-value arguments %d times for %d by-value parameter(s) (signature shape %s)" % (hop, len(moves) + sub_moves, byval, shape),
                                  f.where(), detail={"function": f.dname})


def check(run):
    r1, r3 = "C11-types", "C11-fwd"
    run.rule(r1, "per-kind cast result types, static/dynamic cast choice per inheritance shape, thunk signature, must-compile / must-fail programs", floor=150)
    run.rule(r3, "no copy construction of by-value / rvalue arguments on the forwarding path, bounded moves per hop", floor=40)
    for ob, ok, msg in e3.run_unit(run, r1, types_unit(run.tier)):
        if not ok:
            run.violation(r1, ob["key"], "%s: %s" % (ob["desc"], msg), "include/yorel/yomm2/detail.hpp")
    from . import c11_ast
    try:
        c11_ast.check(run)
        fwd_rule(run, r3)
    except common.AnalysisBroken as e:
        # a witness that no longer compiles because a must-compile program above is rejected is that
        # violation, not a broken analysis; anything else is
        if not any(v["key"].startswith("must-compile") for v in run.violations):
            raise
        run.notes.append("AST/IR part skipped: the witness does not compile (reported as must-compile violation): %s" % str(e)[:200])
        run.rules[r3]["floor"] = 0
        if "C11-casts" in run.rules:
            run.rules["C11-casts"]["floor"] = 0
    # a virtual_ptr argument is the pair (object, v-table pointer): the definition receives the caller's own pair, the thunk's
    # cast<> adjusts the object and carries the v-table pointer over unchanged (rule shared with C09-copy)
    from . import c09
    from .. import callpath
    run.rule("C11-vptr", "virtual_ptr arguments: cast<> / converting constructors on the thunk path carry the caller's v-table pointer over", floor=4)
    for x in ("C11-y0", "C11-y1", "C11-y3"):
        run.rule(x, "(decided by C09)", floor=0)
    for u in callpath.build_units(run, ["release"] if run.tier == "quick" else ["release", "debug", "p_ind"], ["V", "W", "X", "Y"], ndebug=True, tag="c11v"):
        c09.ir_rules(run, u, "C11-y0", "C11-y1", "C11-vptr", "C11-y3")
    run.violations = [v for v in run.violations if not v["rule"].startswith("C11-y")]
    for x in ("C11-y0", "C11-y1", "C11-y3"):
        del run.rules[x]
    run.assumptions += ["run-time addresses (pointer adjustment values) and move counts are not observed; the kinds of conversion and the constructor calls present in the code are",
                        "the macro-generated inline function is std::forward on every parameter by construction of yOMM2_ALIST (checked as text of the macro expansion in the witness call wrappers compiled here)"]
    return run.finish(level="other", explanation="Type-checker witnesses over parameter kind x inheritance shape (same class, single base, second base at "
                      "non-zero offset, virtual base, two levels) x policy; IR scan of operator() / thunk::fn / argument_traits::cast for copy/move "
                      "constructor calls of tracked argument types; AST cast-kind rule on the conversion helpers.")
