"""C08 - inheritance is inferred correctly however registrations are split (claimed in part).

C08-map : the compile-time half (use_classes / class_declaration / inheritance_map) is a pure type
          function; generated static_asserts over hierarchies x list presentations (E3).
C08-self: (AST) augment_classes drops only the improper base and reports an unknown base."""
import random
from .. import common, e3

PRELUDE = r'''
#include <yorel/yomm2/core.hpp>
#include <yorel/yomm2/symbols.hpp>
using namespace yorel::yomm2;
namespace c08 {
struct P1 : policy::release::rebind<P1> {};
template<class P, class C, class... B> using decl = detail::class_declaration_aux<P, detail::types<C, B...>>;
}
using namespace c08;
'''


def gen_hierarchy(rnd, n, style):
    """-> list of parents per class (indexes < i) and virtual flags"""
    parents = []
    for i in range(n):
        if i == 0:
            parents.append([])
        elif style == "chain":
            parents.append([i - 1])
        elif style == "tree":
            parents.append([rnd.randrange(0, i)])
        elif style == "forest":
            parents.append([] if rnd.random() < 0.3 else [rnd.randrange(0, i)])
        else:  # dag
            k = rnd.randint(0, min(3, i))
            parents.append(sorted(rnd.sample(range(i), k)))
    return parents


def closure(parents):
    n = len(parents)
    anc = [set([i]) for i in range(n)]
    for i in range(n):
        for p in parents[i]:
            anc[i] |= anc[p]
    return anc


def decl_classes(ns, parents, rnd, virt):
    out = []
    for i, ps in enumerate(parents):
        # duplicate indirect bases are fine for non-virtual inheritance only when they stay unambiguous as direct bases;
        # to keep every generated hierarchy well-formed, a class with several parents inherits virtually from all of them
        use_virtual = virt or len(ps) > 1
        bases = ", ".join(("virtual " if use_virtual else "") + "K%d" % p for p in ps)
        out.append("struct K%d%s { virtual ~K%d() {} };" % (i, (" : " + bases) if ps else "", i))
    return "namespace %s { %s }" % (ns, " ".join(out))


def expected(ns, lst, anc, pol):
    items = []
    for c in lst:
        bases = [b for b in lst if b in anc[c]]
        items.append("decl<%s, %s>" % (pol, ", ".join("%s::K%d" % (ns, x) for x in [c] + bases)))
    return "std::tuple<%s>" % ", ".join(items)


def build_unit(tier, seed):
    rnd = random.Random(seed * 7919 + 17)
    u = e3.Unit("c08_map", PRELUDE)
    nh = 14 if tier == "quick" else 60
    styles = ["chain", "tree", "forest", "dag", "dag", "dag", "tree"]
    for h in range(nh):
        n = rnd.randint(2, 8)
        style = styles[h % len(styles)]
        parents = gen_hierarchy(rnd, n, style)
        # make sure multi-parent classes do not name two parents where one is an ancestor of the other AND non-virtual: we use virtual anyway
        ns = "h%d" % h
        u.raw(decl_classes(ns, parents, rnd, virt=(h % 3 == 0)))
        anc = closure(parents)
        K = lambda i: "%s::K%d" % (ns, i)
        presentations = []
        full = list(range(n))
        presentations.append(("full", full))
        perm = full[:]
        rnd.shuffle(perm)
        presentations.append(("permuted", perm))
        for _ in range(2 if tier == "quick" else 5):
            k = rnd.randint(1, n)
            presentations.append(("subset", rnd.sample(full, k)))
        for name, lst in presentations:
            exp = expected(ns, lst, anc, "P1")
            args = ", ".join(K(i) for i in lst)
            u.add("use_classes|%s|%s|n=%d" % (style, name, len(lst)),
                  "use_classes<%s; P> of a %s hierarchy (%s list): each class with exactly the listed classes that are its bases (itself included), in list order" % (
                      "K" + ",K".join(map(str, lst)), style, name),
                  "static_assert(std::is_same_v<use_classes<%s, P1>, %s>);" % (args, exp))
        # nested types<...> groups are flattened
        if n >= 3:
            cut = rnd.randint(1, n - 1)
            a = ", ".join(K(i) for i in full[:cut])
            b = ", ".join(K(i) for i in full[cut:])
            u.add("use_classes|%s|nested" % style, "use_classes<types<...>, types<...>, P> flattens the groups",
                  "static_assert(std::is_same_v<use_classes<detail::types<%s>, detail::types<%s>, P1>, %s>);" % (a, b, expected(ns, full, anc, "P1")))
            # ... whatever the order of the groups: a derived class may sit in a group that precedes its base's group
            rev = full[::-1]
            cuts = sorted(rnd.sample(range(1, n), min(2, n - 1)))
            groups = [rev[i:j] for i, j in zip([0] + cuts, cuts + [n])]
            gtxt = ", ".join("detail::types<%s>" % ", ".join(K(i) for i in g) for g in groups)
            u.add("use_classes|%s|nested-derived-first" % style, "use_classes over groups in which derived classes precede their bases is the flat list's result",
                  "static_assert(std::is_same_v<use_classes<%s, P1>, %s>);" % (gtxt, expected(ns, rev, anc, "P1")))
        # the macro form passes (classes..., [policy,] default policy)
        args = ", ".join(K(i) for i in full)
        u.add("use_classes_macro|%s|policy" % style, "YOMM2_CLASSES form with an explicit policy (second-last) ignores the trailing default policy",
              "static_assert(std::is_same_v<detail::use_classes_macro<%s, P1, YOMM2_DEFAULT_POLICY>, %s>);" % (args, expected(ns, full, anc, "P1")))
        u.add("use_classes_macro|%s|default" % style, "YOMM2_CLASSES form without a policy uses the default policy",
              "static_assert(std::is_same_v<detail::use_classes_macro<%s, YOMM2_DEFAULT_POLICY>, %s>);" % (args, expected(ns, full, anc, "YOMM2_DEFAULT_POLICY")))
        u.add("use_classes|%s|default" % style, "use_classes without a policy uses the default policy",
              "static_assert(std::is_same_v<use_classes<%s>, %s>);" % (args, expected(ns, full, anc, "YOMM2_DEFAULT_POLICY")))
        # class_declaration: explicit lists are taken as written
        c = n - 1
        bl = [c] + sorted(anc[c] - {c})
        u.add("class_declaration|%s" % style, "class_declaration<C, Bases..., P> is class_declaration_aux<P, types<C, Bases...>> as written",
              "static_assert(std::is_base_of_v<decl<P1, %s>, class_declaration<%s, P1>> && std::is_base_of_v<decl<YOMM2_DEFAULT_POLICY, %s>, class_declaration<detail::types<%s>>>);" % (
                  ", ".join(K(i) for i in bl), ", ".join(K(i) for i in bl), ", ".join(K(i) for i in bl), ", ".join(K(i) for i in bl)))
    return u


def check(run):
    r1 = "C08-map"
    run.rule(r1, "use_classes / class_declaration map each listed class to exactly the listed classes that are its bases, in list order", floor=100)
    u = build_unit(run.tier, run.seed)
    for ob, ok, msg in e3.run_unit(run, r1, u):
        if not ok:
            run.violation(r1, ob["key"], "%s: %s" % (ob["desc"], msg), "include/yorel/yomm2/detail.hpp")
    from . import c08_ast
    c08_ast.check(run)
    run.assumptions += ["std::is_base_of as implemented by clang 14 is the reference for 'is a base of'",
                        "the run-time merge of records in augment_classes (de-duplication, weight sort, direct-base extraction, covariant closure) for "
                        "partial base lists is a graph algorithm over run-time data: not decided"]
    return run.finish(level="other", explanation="Type-checker witnesses: for seeded random hierarchies (chains, trees, forests, DAGs with virtual bases; "
                      "2..8 classes) and list presentations (full, permuted, subsets, nested groups, macro forms, default policy) the type computed "
                      "by use_classes is compared with an independently computed expectation. Plus an AST rule on augment_classes (C08-self).")
