"""C10 - dispatch is the same under every RTTI flavour (claimed in part)."""
import re
from .. import common, crules


def check(run):
    r1, r2, r3, r4 = "C10-proj", "C10-allids", "C10-deferred", "C10-nonempty"
    run.rule(r1, "every access to compiler::class_map is keyed by Policy::type_index(id)", floor=12)
    run.rule(r2, "every id of a class is kept (augment_classes) and published / hashed (publishers iterate type_id_begin..end of every class)", floor=8)
    run.rule(r3, "deferred ids: each list's 'resolved' flag is set after all its cells are resolved, never inside the loop over them", floor=3)
    run.rule(r4, "deferred ids: the flag word of a possibly empty base list is read only when the list is non-empty", floor=1)
    run.rule("C10-oneshot", "deferred ids: every resolver call is guarded by an 'unresolved' flag that the guarded branch sets", floor=4)
    for nd in ([True] if run.tier == "quick" else [True, False]):
        ast, _ = crules.unit(run, ndebug=nd)
        crules.lookup_rules(run, r1, None, ast)
        crules.merge_rules(run, None, r2, ast)
        crules.publish_range_rules(run, r2, ast)
        crules.record_vptr_rules(run, r2, ast)
        crules.hash_sizing_rules(run, r2, ast)
        crules.hash_rules(run, None, None, None, None, r2, ast) if False else _allids(run, r2, ast)
        crules.deferred_rules(run, "C10-oneshot", r3, r4, ast)
    run.assumptions += ["equality of dispatch results across flavours is a run-time comparison: not decided; these are the places where a flavour-specific id could be lost"]
    # every consumer of an object's id uses the DYNAMIC id under every flavour: virtual_ptr's constructor reads the cell
    # Policy::dynamic_vptr(obj) reads, for custom-id, projected and unhashed policies alike (rule shared with C09-lookup)
    from . import c09
    from .. import callpath
    run.rule("C10-lookup", "under every id flavour (std, custom ids, projected ids, with / without hash) virtual_ptr's dynamic route reads the table at the object's (hashed) dynamic id", floor=12)
    for x in ("C10-y0", "C10-y2", "C10-y3", "C10-y4"):
        run.rule(x, "(decided by C09)", floor=0)
    fl = ["p_def", "p_proj", "p_nohash", "p_map", "release"]
    for u in callpath.build_units(run, fl, ["r", "V"], ndebug=True, tag="c10"):
        c09.ir_rules(run, u, "C10-y0", "C10-lookup", "C10-y2", "C10-y3", "C10-y4")
    run.violations = [v for v in run.violations if not v["rule"].startswith("C10-y")]
    for x in ("C10-y0", "C10-y2", "C10-y3", "C10-y4"):
        del run.rules[x]
    # whatever the parameter kind, the id a virtual parameter contributes is that of the cv-UNQUALIFIED pointee class - the class
    # that registrations name. An rtti facet may give `const X` another static id than `X` (minimal_rtti's per-type statics do)
    from .. import e3, witness
    ku = e3.Unit("c10_kinds", witness.PRELUDE + """
namespace c10k { using namespace yw; template<class P, class T> using pt = typename detail::virtual_traits<P, T>::polymorphic_type;
template<class M> struct ids; template<class K, class R, class... A, class P> struct ids<method<K, R(A...), P>> { using type = typename method<K, R(A...), P>::polymorphic_argument_types; }; }
using namespace c10k;
""")
    kinds = ["A&", "const A&", "A&&", "A*", "const A*", "std::shared_ptr<A>", "const std::shared_ptr<A>&", "std::shared_ptr<const A>", "const std::shared_ptr<const A>&",
             "virtual_ptr<A, {P}>", "virtual_ptr<const A, {P}>", "const virtual_ptr<A, {P}>&", "const virtual_ptr<const A, {P}>&",
             "virtual_ptr<std::shared_ptr<A>, {P}>", "virtual_ptr<std::shared_ptr<const A>, {P}>", "const virtual_ptr<std::shared_ptr<const A>, {P}>&"]
    for pn in (["release", "p_def"] if run.tier == "quick" else ["release", "debug", "p_def", "p_proj", "p_map", "p_nohash"]):
        P = witness.POLICIES[pn]
        for kd in kinds:
            t = kd.replace("{P}", P)
            ku.add("kind|%s|%s" % (pn, kd.replace("{P}", "P")), "a virtual parameter of kind %s contributes the id of the cv-unqualified class (policy %s)" % (kd.replace("{P}", "P"), pn),
                   "static_assert(std::is_same_v<pt<%s, %s>, A>);" % (P, t))
    run.rule("C10-kinds", "for every virtual parameter kind the class whose id is registered for the parameter is the cv-unqualified pointee class", floor=30)
    for ob, ok, msg in e3.run_unit(run, "C10-kinds", ku):
        if not ok:
            run.violation("C10-kinds", ob["key"], "%s: %s" % (ob["desc"], msg), "include/yorel/yomm2/detail.hpp")
    # final's "is this object of exactly the static class" test is a statement about CLASSES: with several ids per class it must go
    # through Policy::type_index like every other class-identity decision, not compare raw ids
    from .. import astq
    fsrc, _ = callpath.unit_source("debug", ["r", "V"])
    fast = astq.Ast(common.ast_json(run, fsrc, "c10_final", ndebug=False, funcs="virtual_ptr<"))
    nfin = 0
    for f in fast.funcs:
        if not f.get("body") or not re.search(r"virtual_ptr<.*>::final<", f["name"]):
            continue
        dyn, stat = set(), set()
        for x in astq.walk(f["body"]):
            if x.get("k") == "DeclStmt":
                for d in x["decls"]:
                    if d.get("init") is None:
                        continue
                    cs = [(y.get("callee") or "") for y in astq.walk(d["init"]) if y.get("k") in ("CallExpr", "CXXMemberCallExpr")]
                    if any("::dynamic_type<" in c for c in cs):
                        dyn.add(d["did"])
                    elif any("::static_type<" in c for c in cs):
                        stat.add(d["did"])
        if not dyn or not stat:
            continue
        nfin += 1
        raw = []
        for x in astq.walk(f["body"]):
            if x.get("k") == "IfStmt":
                for c in astq.walk(x["cond"]):
                    if c.get("k") == "BinaryOperator" and c.get("op") in ("!=", "=="):
                        sides = [astq.strip(y) for y in c["c"]]
                        if all(y is not None and y.get("k") == "DeclRefExpr" for y in sides) and {("d" if y["ref"]["did"] in dyn else "s" if y["ref"]["did"] in stat else "?") for y in sides} == {"d", "s"}:
                            # a raw comparison is fine as a shortcut when the same condition also consults type_index
                            if not any((z.get("callee") or "").endswith("::type_index") for z in astq.walk(x["cond"]) if z.get("k") in ("CallExpr", "CXXMemberCallExpr")):
                                raw.append(c)
        run.instance(r1, "%s: 'object of exactly the static class' is decided on classes (type_index), not raw ids" % crules.short(f)[:100], (f["file"], f["line"]), ok=not raw)
        for c in raw:
            run.violation(r1, "virtual_ptr::final|raw-id-comparison", "final compares the raw dynamic and static type ids (`%s`): an object that carries another id of the SAME class (many-to-one type_index) is reported as a method-table error under checked policies" % astq.text(c)[:60], (f["file"], c.get("l", f["line"])))
    if nfin == 0:
        run.broken.append("C10: no instantiation of virtual_ptr::final with its type check in the unit")
    from .. import crules as _cr
    _cr.facet_rules(run, "C10-facets")
    return run.finish(level="other", explanation="AST / CFG rules: who-must-wrap rule on class_map keys, control-dependence whitelist of the id-list append, loop-nest rule "
                      "for the three publishers, typestate rule (flag test / flag set placement) for deferred id resolution.")


def _allids(run, rule, ast):
    for x in ("C10-x2", "C10-x3", "C10-x4"):
        run.rule(x, "(decided by C05)", floor=0)
    run.rule("C10-idspace", "the hash search treats every value except invalid_type as a legal id (small integer ids, id 0) and never overwrites a claimed bucket", floor=9)
    crules.hash_rules(run, "C10-idspace", "C10-x2", "C10-x3", "C10-x4", rule, ast)
    from . import c09
    c09.table_writer_overwrites(run, ast, rule)      # every id's entry is (re)written by every update
    run.violations = [v for v in run.violations if not v["rule"].startswith("C10-x")]
    for x in ("C10-x2", "C10-x3", "C10-x4"):
        del run.rules[x]
