"""C04 - dispatch only reads table cells that update wrote for that class and parameter (claimed in part)."""
from .. import common, crules


def check(run):
    r1, r2 = "C04-bias", "C04-size"
    run.rule(r1, "writer index, installed pointer, lattice v-table size and decoder all use the same bias: cell (slot - first_slot) of the class's table", floor=8)
    run.rule(r2, "dispatch_data is sized for every dispatch-table entry and every v-table entry; each v-table entry writes exactly one cell", floor=4)
    r3 = "C04-reserve"
    run.rule(r3, "lattice slot allocation: marking the chosen slot, reserving it in every base, and propagating through every covariant class and its bases are "
             "guarded by nothing but the visited check, the loops and 'not the class itself'", floor=14)
    for nd in ([True] if run.tier == "quick" else [True, False]):
        ast, _ = crules.unit(run, ndebug=nd)
        crules.bias_rules(run, r1, ast)
        crules.size_rules(run, r2, ast)
        crules.reserve_rules(run, r3, ast)
        crules.alloc_rules(run, r3, ast)
        crules.model_rules(run, r3, ast, parts=("params",))
    run.assumptions += ["the call-time read vptr[slot] is decided by C01-walk; with the pointer biased by -first_slot the effective cell is slot - first_slot at all three sites",
                        "C04-reserve is the structural invariant the allocator's collision-freedom argument rests on (every slot taken is reserved in all bases and "
                        "in all covariant classes' bases); a new guard on one of these steps is reported - a behaviour-preserving guard would need its own argument",
                        "collision-freedom of the slot allocation (assign_tree_slots / assign_lattice_slots: no two (method, parameter) pairs applicable to a class share a "
                        "slot) and sufficiency of used_slots for every lattice are values of a graph algorithm over run-time data: NOT decided"]
    return run.finish(level="other", explanation="AST affine rules: the index written by build_dispatch_tables, the pointer installed by install_gv and decode, the lattice "
                      "v-table size, the terms of dispatch_data's size and the number of cells written per entry.")
