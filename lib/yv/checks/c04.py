"""C04 - dispatch only reads table cells that update wrote for that class and parameter (claimed in part)."""
from .. import common, crules


def check(run):
    r1, r2 = "C04-bias", "C04-size"
    run.rule(r1, "writer index, installed pointer, lattice v-table size and decoder all use the same bias: cell (slot - first_slot) of the class's table", floor=8)
    run.rule(r2, "dispatch_data is sized for every dispatch-table entry and every v-table entry; each v-table entry writes exactly one cell", floor=4)
    r3 = "C04-reserve"
    run.rule(r3, "lattice slot allocation: marking the chosen slot, reserving it in every base, and propagating through every covariant class and its bases are "
             "guarded by nothing but the visited check, the loops and 'not the class itself'", floor=14)
    for nd in ([True] if run.tier == "quick" else [True, False]):
        ast, _ = crules.unit(run, ndebug=nd)
        crules.bias_rules(run, r1, ast)
        crules.size_rules(run, r2, ast)
        crules.reserve_rules(run, r3, ast)
        crules.alloc_rules(run, r3, ast)
        crules.mark_rules(run, r3, ast)
        crules.model_rules(run, r3, ast, parts=("params",))
        # a class only gets a cell for a method if it is known to derive from the method's class: every listed base of every
        # registration record is recorded
        crules.merge_rules(run, r3, r3, ast)
        # the v-table pointer a call starts from is the one this update installed
        if "C04-vptr" not in run.rules:
            run.rule("C04-vptr", "the v-table pointer table is rewritten (overwriting) by every update at the key calls read it at", floor=3)
        from . import c09
        c09.table_writer_rule(run, ast, "C04-vptr")
        c09.ast_rules(run, "C04-vptr", ast, table=False)
        # the index at which that table is read: the hash is collision-free on the registered ids and republished by every update
        crules.hash_rules(run, "C04-vptr", "C04-vptr", "C04-vptr", "C04-vptr", "C04-vptr", ast)
        # which classes get a cell for a method (covariant set of its parameter class), and what is written in a class's cells
        if "C04-cells" not in run.rules:
            run.rule("C04-cells", "a class gets a cell for (method, parameter) iff it is in the covariant set of the parameter's class; v-table entries carry (method, parameter, group); install_gv fills every entry", floor=8)
        crules.applicable_rules(run, "C04-cells", ast)
        crules.table_rules(run, "C04-cells", ast)
    run.assumptions += ["the call-time read vptr[slot] is decided by C01-walk; with the pointer biased by -first_slot the effective cell is slot - first_slot at all three sites",
                        "C04-reserve is the structural invariant the allocator's collision-freedom argument rests on (every slot taken is reserved in all bases and "
                        "in all covariant classes' bases); a new guard on one of these steps is reported - a behaviour-preserving guard would need its own argument",
                        "collision-freedom of the slot allocation (assign_tree_slots / assign_lattice_slots: no two (method, parameter) pairs applicable to a class share a "
                        "slot) and sufficiency of used_slots for every lattice are values of a graph algorithm over run-time data: NOT decided"]
    # slots are reserved in every base of a class: the base lists the reservation walks come from the compile-time map
    crules.basemap_rules(run, "C04-bases")
    from .. import crules as _cr
    _cr.facet_rules(run, "C04-facets")
    return run.finish(level="other", explanation="AST affine rules: the index written by build_dispatch_tables, the pointer installed by install_gv and decode, the lattice "
                      "v-table size, the terms of dispatch_data's size and the number of cells written per entry.")
