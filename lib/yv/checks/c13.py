"""C13 - encoded dispatch data decodes to the tables update built (claimed in part).

C13-extent: each declared array extent equals what the decoder reads / writes, as affine counts per
            method / per class / per v-table entry; the three sites that branch on "index entry or
            (method, group) pair" use equivalent conditions; extents are passed to the right fields.
C13-cells : error cells are appended in the order augment_methods numbers them; the stop bit is set on
            the last value of every entry-ending emission and tested after every fetch.
Does not decide: that in-place decoding never overtakes unread input for every registry (headroom),
nor that the emitted text compiles for every registry."""
import re
from .. import common, astq, witness
from .c12 import flatten_shift

FUNCS = "decode_dispatch_data|encode_dispatch_data|augment_methods|fast_perfect_hash<|::install_gv|::build_dispatch_tables|::install_global_tables"


def mentions(n, name):
    """n mentions a member / variable called `name`"""
    for x in astq.walk(n):
        if x.get("k") == "MemberExpr" and x.get("member") == name:
            return True
        if x.get("k") == "DeclRefExpr" and x["ref"]["name"].split("::")[-1] == name:
            return True
    return False


def lam_bodies(n):
    l = n["lambda"]
    return l.get("specializations") or [l["body"]]


def sym13(n):
    k = n.get("k")
    if k == "CXXMemberCallExpr":
        cal = n.get("callee") or ""
        if cal.endswith("::arity"):
            return "arity"
        if cal.endswith("::size"):
            mem = [x["member"] for x in astq.walk(n["c"][0]) if x.get("k") == "MemberExpr" and x.get("member") not in ("size",)]
            return "size(%s)" % (mem[0] if mem else "?")
    if k == "MemberExpr":
        return n.get("member")
    return None


def cond_text(n):
    return astq.text(n)


def contributions(n, counters, ctx, out):
    """collect (counter did, ctx, delta affine) for ++c / c += e inside n."""
    if n is None:
        return
    k = n.get("k")
    if k == "CompoundStmt":
        for c in n.get("c") or []:
            contributions(c, counters, ctx, out)
        return
    if k == "CXXForRangeStmt":
        rng = astq.strip(n.get("range"))
        mem = [x["member"] for x in astq.walk(rng) if x.get("k") == "MemberExpr"]
        contributions(n.get("body"), counters, ctx + (("loop", mem[0] if mem else astq.text(rng)),), out)
        return
    if k == "IfStmt":
        c = n.get("cond")
        contributions(n.get("then"), counters, ctx + (("if", c, True),), out)
        contributions(n.get("else"), counters, ctx + (("if", c, False),), out)
        return
    if k in ("ForStmt", "WhileStmt", "DoStmt"):
        contributions(n.get("body"), counters, ctx + (("loop", "?"),), out)
        return
    if k == "UnaryOperator" and n.get("op") == "++":
        t = astq.strip(n["c"][0])
        if t.get("k") == "DeclRefExpr" and t["ref"]["did"] in counters:
            out.append((t["ref"]["did"], ctx, {1: 1}))
        return
    if k == "CompoundAssignOperator" and n.get("op") == "+=":
        t = astq.strip(n["c"][0])
        if t.get("k") == "DeclRefExpr" and t["ref"]["did"] in counters:
            out.append((t["ref"]["did"], ctx, astq.affine(n["c"][1], {}, sym13)))
        return


def arity_truth(cond, polarity):
    """truth vector of a condition on arity for arity = 1, 2, 3 (None when not a pure arity predicate)."""
    c = astq.strip(cond)
    if c is None or c.get("k") != "BinaryOperator":
        return None
    lhs = astq.affine(c["c"][0], {}, sym13)
    rhs = astq.affine(c["c"][1], {}, sym13)
    if lhs is None or rhs is None or not (set(lhs) | set(rhs)) <= {"arity", 1}:
        return None
    op = c.get("op")
    out = []
    for a in (1, 2, 3):
        l = lhs.get("arity", 0) * a + lhs.get(1, 0)
        r = rhs.get("arity", 0) * a + rhs.get(1, 0)
        v = {"==": l == r, "!=": l != r, "<": l < r, ">": l > r, "<=": l <= r, ">=": l >= r}.get(op)
        if v is None:
            return None
        out.append(v if polarity else not v)
    return tuple(out)


def vp_truth(cond, polarity):
    """truth of a condition on an entry's vp_index for vp_index = 0, 1, 2."""
    c = astq.strip(cond)
    if c is None or c.get("k") != "BinaryOperator":
        return None
    sn = lambda n: "vp" if (n.get("k") == "MemberExpr" and n.get("member") == "vp_index") else None
    lhs = astq.affine(c["c"][0], {}, sn)
    rhs = astq.affine(c["c"][1], {}, sn)
    if lhs is None or rhs is None or not (set(lhs) | set(rhs)) <= {"vp", 1} or "vp" not in (set(lhs) | set(rhs)):
        return None
    out = []
    for a in (0, 1, 2):
        l = lhs.get("vp", 0) * a + lhs.get(1, 0)
        r = rhs.get("vp", 0) * a + rhs.get(1, 0)
        v = {"==": l == r, "!=": l != r, "<": l < r, ">": l > r, "<=": l <= r, ">=": l >= r}.get(c.get("op"))
        if v is None:
            return None
        out.append(v if polarity else not v)
    return tuple(out)


INDEX_ENTRY = (False, True, True)     # vp_index > 0: an index entry (one encoded value), else a (method, group) pair


def encoder_rules(run, r1, r2, f):
    where = lambda n: (f["file"], n["l"] if isinstance(n, dict) else f["line"])
    body = f["body"]
    decls = {}
    for n in astq.walk(body):
        if n.get("k") == "DeclStmt":
            for d in n["decls"]:
                decls[d["did"]] = d
    # --- the snprintf that fills the declaration: which variable feeds which field
    sn = [n for n in astq.walk(body) if n.get("k") == "CallExpr" and (n.get("callee") or "") == "snprintf"]
    if len(sn) != 1:
        raise common.AnalysisBroken("encode_dispatch_data: expected one snprintf building the declaration, found %d" % len(sn))
    args = sn[0]["c"][1:]
    fmt_ref = astq.strip(args[2])
    fmt = None
    if fmt_ref.get("k") == "DeclRefExpr" and fmt_ref["ref"]["did"] in decls:
        i = astq.strip(decls[fmt_ref["ref"]["did"]].get("init"))
        if i is not None and i.get("k") == "StringLiteral":
            fmt = i.get("s")
    if fmt is None:
        raise common.AnalysisBroken("encode_dispatch_data: declaration format string not found")
    fields = re.findall(r"(\w+)\s+(\w+)\[%d\]", fmt)
    # disambiguate the two `vtbls`: the first is the 16-bit encoded one
    names = []
    for ty, nm in fields:
        names.append(("enc_" if ty == "uint16_t" else "dec_") + nm if nm == "vtbls" else nm)
    vals = args[3:]
    if names != ["headroom", "slots", "enc_vtbls", "dec_vtbls", "dtbls"] or len(vals) != 5:
        raise common.AnalysisBroken("encode_dispatch_data: unexpected declaration fields %s" % names)
    var_of = {}
    for nm, v in zip(names, vals):
        v0 = astq.strip(v)
        if v0.get("k") != "DeclRefExpr":
            raise common.AnalysisBroken("extent of %s is not a plain variable" % nm)
        var_of[nm] = v0["ref"]["did"]
    # --- contributions of each extent variable
    contrib = {nm: [] for nm in names}
    for nm in ("slots", "dtbls"):
        d = decls.get(var_of[nm])
        init = astq.strip(d.get("init")) if d else None
        if init is None or init.get("k") != "CallExpr" or not (init.get("callee") or "").startswith("std::accumulate<"):
            run.broken.append("extent of %s is not computed by std::accumulate over the methods" % nm)
            continue
        a = init["c"][1:]
        rng = [x["member"] for x in astq.walk(a[0]) if x.get("k") == "MemberExpr" and x["member"] not in ("begin", "end")]
        lam = [x for x in astq.walk(a[3]) if x.get("k") == "LambdaExpr"]
        if not lam:
            run.broken.append("accumulate for %s has no lambda" % nm)
            continue
        lb = lam_bodies(lam[0])[0]
        sumdid = lam[0]["lambda"]["params"][0]["did"]

        def rets(n, ctx):
            k = n.get("k")
            if k == "CompoundStmt":
                for c in n.get("c") or []:
                    rets(c, ctx)
            elif k == "IfStmt":
                rets(n["then"], ctx + (("if", n["cond"], True),))
                if n.get("else"):
                    rets(n["else"], ctx + (("if", n["cond"], False),))
            elif k == "ReturnStmt":
                e = astq.affine(n["c"][0], {}, sym13) if n.get("c") else None
                if e is not None and e.get("v:sum") == 1:
                    e = {k2: v for k2, v in e.items() if k2 != "v:sum"}
                else:
                    e = None
                contrib[nm].append((("loop", rng[0] if rng else "?"),) + ctx and ((("loop", rng[0] if rng else "?"),) + ctx, e))
        rets(lb, ())
    out = []
    contributions(body, {var_of["enc_vtbls"], var_of["dec_vtbls"]}, (), out)
    for did, ctx, delta in out:
        nm = "enc_vtbls" if did == var_of["enc_vtbls"] else "dec_vtbls"
        contrib[nm].append((ctx, delta))

    def loops(ctx):
        return tuple(c[1] for c in ctx if c[0] == "loop")

    def conds(ctx):
        return [c for c in ctx if c[0] == "if"]
    # R1: decoded v-tables: one word per entry -> per-class term vtbl.size()
    dv = contrib["dec_vtbls"]
    ok = len(dv) == 1 and loops(dv[0][0]) == ("classes",) and not conds(dv[0][0]) and dv[0][1] == {"size(vtbl)": 1}
    run.instance(r1, "encode_dispatch_data: decoded v-table extent adds vtbl.size() per class", where(sn[0]), ok=ok,
                 detail={"terms": [(loops(c), astq.aff_show(d)) for c, d in dv]})
    if not ok:
        run.violation(r1, "generator::encode_dispatch_data|decoded-vtbls-extent",
                      "declared extent of the decoded v-tables adds %s per class; the decoder writes one word per v-table entry, i.e. vtbl.size()" % (
                          [astq.aff_show(d) for c, d in dv]), where(sn[0]))
    # R2: encoded v-tables: 1 per class + (1 | 2) per entry by kind
    ev = contrib["enc_vtbls"]
    per_class = [(c, d) for c, d in ev if loops(c) == ("classes",)]
    per_entry = [(c, d) for c, d in ev if loops(c) == ("classes", "vtbl")]
    ok = len(per_class) == 1 and per_class[0][1] == {1: 1} and not conds(per_class[0][0]) and len(per_entry) == 2 and len(ev) == 3
    sizes = {}
    if ok:
        for c, d in per_entry:
            cs = conds(c)
            tv = vp_truth(cs[0][1], cs[0][2]) if len(cs) == 1 else None
            if tv is None or d is None or set(d) - {1}:
                ok = False
            else:
                sizes[tv] = d.get(1, 0)
        ok = ok and sizes == {INDEX_ENTRY: 1, tuple(not x for x in INDEX_ENTRY): 2}
    run.instance(r1, "encode_dispatch_data: encoded v-table extent = 1 per class + 1 per index entry + 2 per (method, group) entry", where(sn[0]), ok=ok)
    if not ok:
        run.violation(r1, "generator::encode_dispatch_data|encoded-vtbls-extent",
                      "declared extent of the encoded v-tables is not '1 per class, 1 per index entry (vp_index > 0), 2 per other entry': %s" % (
                          [(loops(c), [cond_text(x[1]) + ("" if x[2] else " [else]") for x in conds(c)], astq.aff_show(d)) for c, d in ev]), where(sn[0]))
    # R3: slots 2*arity-1 per method
    sv = contrib["slots"]
    ok = len(sv) == 1 and sv[0][1] == {"arity": 2, 1: -1} and not conds(sv[0][0])
    run.instance(r1, "encode_dispatch_data: slots extent adds 2*arity-1 per method", where(sn[0]), ok=ok)
    if not ok:
        run.violation(r1, "generator::encode_dispatch_data|slots-extent", "declared slots extent adds %s per method (the decoder copies 2*arity-1)" % [astq.aff_show(d) for c, d in sv], where(sn[0]))
    # R4: dtbls: dispatch_table.size() for multi-methods only
    tv = contrib["dtbls"]
    zero, nonzero = None, None
    for c, d in tv:
        cs = conds(c)
        t = arity_truth(cs[0][1], cs[0][2]) if len(cs) == 1 else None
        if d == {}:
            zero = t
        elif d == {"size(dispatch_table)": 1}:
            nonzero = t
    ok = zero == (True, False, False) and nonzero == (False, True, True) and len(tv) == 2
    run.instance(r1, "encode_dispatch_data: dtbls extent adds dispatch_table.size() for multi-methods, nothing for uni-methods", where(sn[0]), ok=ok)
    if not ok:
        run.violation(r1, "generator::encode_dispatch_data|dtbls-extent", "declared dtbls extent terms: %s" % [(astq.aff_show(d), [cond_text(x[1]) for x in conds(c)]) for c, d in tv], where(sn[0]))

    # --- emission of the v-tables: values per class / per entry, index bit, stop bit
    emit_loops = [n for n in astq.walk(body) if n.get("k") == "CXXForRangeStmt" and mentions(astq.strip(n["range"]), "classes")
                  and any(x.get("k") == "CXXOperatorCallExpr" and x.get("oop") == "<<" for x in astq.walk(n["body"]))]
    if len(emit_loops) != 1:
        run.broken.append("encode_dispatch_data: expected one v-table emission loop over the classes, found %d" % len(emit_loops))
        return
    el = emit_loops[0]
    inner = [n for n in astq.walk(el["body"]) if n.get("k") == "CXXForRangeStmt" and mentions(astq.strip(n["range"]), "vtbl")]
    if len(inner) != 1:
        run.broken.append("encode_dispatch_data: v-table emission has no single loop over cls.vtbl")
        return

    def value_ops(n):
        """integer-valued operands of the << chains under n (in order), skipping nested statements given separately."""
        out = []
        ops = []
        flatten_shift(n, ops)
        for o in ops[1:]:
            o0 = astq.strip(o) if o.get("k") not in ("CXXFunctionalCastExpr",) else o
            t = (o.get("t") or o0.get("t") or "")
            if o.get("k") == "CXXFunctionalCastExpr" or (o0.get("k") in ("MemberExpr", "DeclRefExpr", "BinaryOperator") and re.search(r"\b(short|long|int)\b", t) and "*" not in t and "char" not in t):
                out.append(o)
        return out

    def emitted(n, ctx, acc):
        k = n.get("k")
        if k == "CompoundStmt":
            for c in n.get("c") or []:
                emitted(c, ctx, acc)
        elif k == "IfStmt":
            emitted(n["then"], ctx + ((n["cond"], True),), acc)
            if n.get("else"):
                emitted(n["else"], ctx + ((n["cond"], False),), acc)
        elif k == "CXXForRangeStmt":
            return
        elif k == "CXXOperatorCallExpr" and n.get("oop") == "<<":
            for v in value_ops(n):
                acc.append((ctx, v))
        elif k in ("ExprWithCleanups",):
            for c in n.get("c") or []:
                emitted(c, ctx, acc)
    per_class_vals = []
    emitted(el["body"], (), per_class_vals)
    okc = len(per_class_vals) == 1 and any(x.get("member") == "first_slot" for x in astq.walk(per_class_vals[0][1]))
    run.instance(r1, "encode_dispatch_data: emits exactly one value per class (its first slot) before the entries", where(el), ok=okc)
    if not okc:
        run.violation(r1, "generator::encode_dispatch_data|per-class-values", "per class %d values are emitted before the entries (declared: 1, decoder reads: 1)" % len(per_class_vals), where(el))
    vals = []
    emitted(inner[0]["body"], (), vals)
    # group by the vp_index condition
    by_kind = {}
    for ctx, v in vals:
        tvp = None
        for c, pol in ctx:
            t = vp_truth(c, pol)
            if t is not None:
                tvp = t
        by_kind.setdefault(tvp, []).append((ctx, v))
    idx_vals = by_kind.get(INDEX_ENTRY, [])
    pair_vals = by_kind.get(tuple(not x for x in INDEX_ENTRY), [])
    # values on one path of the pair branch: method index + one of the alternatives
    def paths(vs):
        # count values per distinct innermost path
        per = {}
        for ctx, v in vs:
            key = tuple((id(c), p) for c, p in ctx)
            per.setdefault(key, []).append(v)
        return per
    okv = len(idx_vals) == 1 and None not in by_kind
    pp = paths(pair_vals)
    # every complete path through the pair branch emits 2 values: the common prefix (method index) + 1
    prefix = [k for k in pp if all(k == kk[:len(k)] for kk in pp)]
    if prefix:
        base = len(pp[min(prefix, key=len)])
        leaf_counts = [base + len(v) for k, v in pp.items() if k != min(prefix, key=len)] or [base]
    else:
        leaf_counts = [len(v) for v in pp.values()]
    okv = okv and leaf_counts and all(c == 2 for c in leaf_counts)
    run.instance(r1, "encode_dispatch_data: emits 1 value for an index entry and 2 for a (method, group) entry", where(inner[0]), ok=bool(okv),
                 detail={"index_values": len(idx_vals), "pair_paths": leaf_counts})
    if not okv:
        run.violation(r1, "generator::encode_dispatch_data|per-entry-values", "values emitted per entry: index entries %d, other entries %s per path (declared and decoded: 1 and 2)" % (len(idx_vals), leaf_counts), where(inner[0]))
    # index bit exactly on index entries; stop on the last value of every entry
    def has_ref(n, name):
        return any(x.get("k") == "DeclRefExpr" and x["ref"]["name"].split("::")[-1] == name for x in astq.walk(n))
    okb = all(has_ref(v, "index_bit") for _, v in idx_vals) and not any(has_ref(v, "index_bit") for _, v in pair_vals)
    run.instance(r2, "encode_dispatch_data: index_bit is set on index entries and only there", where(inner[0]), ok=okb)
    if not okb:
        run.violation(r2, "generator::encode_dispatch_data|index-bit", "index_bit is not set exactly on the entries emitted in the vp_index > 0 branch", where(inner[0]))
    # last value per path must carry `stop`
    stop_decl = [d for n in astq.walk(inner[0]["body"]) if n.get("k") == "DeclStmt" for d in n["decls"] if d.get("init") is not None and any(
        x.get("k") == "DeclRefExpr" and x["ref"]["name"].endswith("stop_bit") for x in astq.walk(d["init"]))]
    oks = bool(stop_decl) and any(x.get("k") == "DeclRefExpr" and x["ref"]["name"].endswith("stop_bit") for x in astq.walk(stop_decl[0]["init"])) \
        and any(x.get("member") == "back" for x in astq.walk(stop_decl[0]["init"]))
    last_vals = [v for _, v in idx_vals]
    pk = paths(pair_vals)
    pref = min(prefix, key=len) if prefix else None
    for k, v in pk.items():
        if k != pref or len(pk) == 1:
            last_vals.append(v[-1])
    stop_did = stop_decl[0]["did"] if stop_decl else None
    missing = [v for v in last_vals if not any(x.get("k") == "DeclRefExpr" and x["ref"]["did"] == stop_did for x in astq.walk(v))]
    oks = oks and not missing and last_vals
    run.instance(r2, "encode_dispatch_data: the last value of every entry carries the stop flag of the class's last entry", where(inner[0]), ok=bool(oks), detail={"entry_ending_values": len(last_vals)})
    if not oks:
        run.violation(r2, "generator::encode_dispatch_data|stop-bit", "%d of %d entry-ending emissions do not OR in the stop flag (or the flag is not 'last entry of the v-table ? stop_bit : 0')" % (len(missing), len(last_vals)),
                      where(missing[0]) if missing else where(inner[0]))
    # dtbls emission: skip condition equivalent to the sizing one, stop bit on the last
    dl = [n for n in astq.walk(body) if n.get("k") == "CXXForRangeStmt" and n is not el and any(x.get("k") == "ContinueStmt" for x in astq.walk(n["body"]))]
    okd = False
    for n in dl:
        for s in astq.walk(n["body"]):
            if s.get("k") == "IfStmt" and any(x.get("k") == "ContinueStmt" for x in astq.walk(s["then"])):
                okd = arity_truth(s["cond"], True) == (True, False, False)
    run.instance(r1, "encode_dispatch_data: dispatch tables are emitted for multi-methods only (same predicate as the extent)", where(dl[0]) if dl else where(body), ok=okd)
    if not okd:
        run.violation(r1, "generator::encode_dispatch_data|dtbls-skip", "the dispatch-table emission loop does not skip exactly the uni-methods", where(dl[0]) if dl else where(body))
    def is_last_cell(n):
        if n.get("k") == "BinaryOperator" and n.get("op") == "=":
            rhs = n["c"][1]
        elif n.get("k") == "CXXOperatorCallExpr" and n.get("oop") == "=":
            rhs = n["c"][2]
        else:
            return False
        return has_ref(rhs, "stop_bit") and any(x.get("member") == "spec_index" for x in astq.walk(rhs))
    okl = any(is_last_cell(n) for d in dl for n in astq.walk(d["body"]))
    run.instance(r2, "encode_dispatch_data: last dispatch-table cell carries stop_bit", where(dl[0]) if dl else where(body), ok=okl)
    if not okl:
        run.violation(r2, "generator::encode_dispatch_data|dtbl-stop", "the last cell of a multi-method's dispatch table is not emitted with stop_bit", where(dl[0]) if dl else where(body))


def decoder_class_loop(f):
    """(per-record loop, is_fetch) of decode_dispatch_data"""
    body = f["body"]
    fetch = None
    for n in astq.walk(body):
        if n.get("k") == "DeclStmt":
            for d in n["decls"]:
                if d.get("init") is not None and any(x.get("k") == "LambdaExpr" for x in astq.walk(d["init"])) and any(
                        x.get("k") == "DeclRefExpr" and x["ref"]["name"].endswith("stop_bit") for x in astq.walk(d["init"])):
                    fetch = d
    if fetch is None:
        raise common.AnalysisBroken("decode_dispatch_data: fetch lambda not found")

    def is_fetch(n):
        n = astq.strip(n)
        return n is not None and n.get("k") == "CXXOperatorCallExpr" and n.get("oop") == "()" and any(
            x.get("k") == "DeclRefExpr" and x["ref"]["did"] == fetch["did"] for x in astq.walk(n))
    cl = [n for n in astq.walk(body) if n.get("k") == "CXXForRangeStmt" and mentions(astq.strip(n["range"]), "classes")
          and any(is_fetch(x) for x in astq.walk(n["body"]))]
    if len(cl) != 1:
        raise common.AnalysisBroken("decode_dispatch_data: per-class decoding loop not found")
    return cl[0], is_fetch


def record_once_rule(run, r2, f, loop=None, is_fetch=None):
    where = lambda n: (f["file"], n["l"] if isinstance(n, dict) else f["line"])
    if loop is None:
        loop, is_fetch = decoder_class_loop(f)
    cl = [loop]
    cb = loop["body"]
    # the encoder emits one v-table per distinct class (compiler.classes), the decoder walks the registration
    # records (Policy::classes, which may name a class several times): a record whose class already has its
    # v-table must be skipped before anything is read
    lv = cl[0]["var"]["did"]
    first_fetch_line = min([x["l"] for x in astq.walk(cb) if is_fetch(x)] or [10 ** 9])
    skips = [n for n in (cb.get("c") or []) if n.get("k") == "IfStmt" and n["l"] <= first_fetch_line and any(x.get("k") == "ContinueStmt" for x in astq.walk(n["then"]))
             and any(x.get("k") == "MemberExpr" and x.get("member") == "static_vptr" for x in astq.walk(n["cond"])) and any(x.get("k") == "DeclRefExpr" and x["ref"]["did"] == lv for x in astq.walk(n["cond"]))]
    oks = False
    if len(skips) == 1:
        c0 = astq.strip(skips[0]["cond"])
        nonnull = (c0.get("k") == "BinaryOperator" and c0.get("op") == "!=" and any(x.get("k") in ("CXXNullPtrLiteralExpr", "GNUNullExpr") or (x.get("k") == "IntegerLiteral" and x.get("v") == 0) for x in astq.walk(c0))) or \
                  (c0.get("k") == "UnaryOperator" and c0.get("op") == "*")
        oks = bool(nonnull) and any(x.get("k") == "UnaryOperator" and x.get("op") == "*" for x in astq.walk(c0))
    run.instance(r2, "decode_dispatch_data: a registration record whose class already has its v-table is skipped before any value is read", where(cl[0]), ok=oks)
    if not oks:
        run.violation(r2, "decode_dispatch_data|record-once", "the per-record loop does not skip records of an already decoded class: the encoder emits one v-table per distinct class, a class registered twice desynchronises the decoder", where(cl[0]))


def decoder_rules(run, r1, r2, f, aug):
    where = lambda n: (f["file"], n["l"] if isinstance(n, dict) else f["line"])
    body = f["body"]
    # fetch lambda: sets `last` from code & stop_bit, returns code & ~stop_bit
    fetch = None
    for n in astq.walk(body):
        if n.get("k") == "DeclStmt":
            for d in n["decls"]:
                if d.get("init") is not None and any(x.get("k") == "LambdaExpr" for x in astq.walk(d["init"])) and any(
                        x.get("k") == "DeclRefExpr" and x["ref"]["name"].endswith("stop_bit") for x in astq.walk(d["init"])):
                    fetch = d
    if fetch is None:
        raise common.AnalysisBroken("decode_dispatch_data: fetch lambda not found")
    fb = [x for x in astq.walk(fetch["init"]) if x.get("k") == "LambdaExpr"][0]["lambda"]["body"]
    last_sets = [n for n in astq.walk(fb) if n.get("k") == "BinaryOperator" and n.get("op") == "=" and astq.strip(n["c"][0]).get("k") == "DeclRefExpr"
                 and any(x.get("k") == "DeclRefExpr" and x["ref"]["name"].endswith("stop_bit") for x in astq.walk(n["c"][1]))]
    sets_last = len(last_sets) == 1
    last_did = astq.strip(last_sets[0]["c"][0])["ref"]["did"] if sets_last else None
    run.instance(r2, "decode_dispatch_data: every fetch records the stop bit of the value read", where(fetch.get("init")), ok=sets_last)
    if not sets_last:
        run.violation(r2, "decode_dispatch_data|fetch-stop", "fetch() does not set `last` from code & stop_bit", where(fetch["init"]))

    def is_fetch(n):
        n = astq.strip(n)
        return n is not None and n.get("k") == "CXXOperatorCallExpr" and n.get("oop") == "()" and any(
            x.get("k") == "DeclRefExpr" and x["ref"]["did"] == fetch["did"] for x in astq.walk(n))
    # the per-class loop
    cl = [n for n in astq.walk(body) if n.get("k") == "CXXForRangeStmt" and mentions(astq.strip(n["range"]), "classes")
          and any(is_fetch(x) for x in astq.walk(n["body"]))]
    if len(cl) != 1:
        raise common.AnalysisBroken("decode_dispatch_data: per-class decoding loop not found")
    cb = cl[0]["body"]
    record_once_rule(run, r2, f, cl[0], is_fetch)
    loops = [n for n in cb.get("c") or [] if n.get("k") in ("DoStmt", "WhileStmt", "ForStmt")]
    if len(loops) != 1:
        raise common.AnalysisBroken("decode_dispatch_data: per-entry loop not found")
    lp = loops[0]
    pre = [n for n in cb.get("c") or [] if n is not lp]
    n_pre = sum(1 for s in pre for x in astq.walk(s) if is_fetch(x))
    ok = n_pre == 1
    run.instance(r1, "decode_dispatch_data: reads exactly one value per class before its entries", where(cl[0]), ok=ok)
    if not ok:
        run.violation(r1, "decode_dispatch_data|per-class-reads", "%d values are read per class before the entries (the encoder emits 1)" % n_pre, where(cl[0]))
    # loop condition tests `last`
    c = lp.get("cond")
    okc = c is not None and last_did is not None and any(x.get("k") == "DeclRefExpr" and x["ref"]["did"] == last_did for x in astq.walk(c))
    run.instance(r2, "decode_dispatch_data: the entry loop ends on the stop bit", where(lp), ok=okc)
    if not okc:
        run.violation(r2, "decode_dispatch_data|loop-stop", "the per-class entry loop does not test `last`", where(lp))
    # per-path counts in the body: fetches and stores through decode_iter
    def count(n, kindf):
        return sum(1 for x in astq.walk(n) if kindf(x))

    def is_store(n):
        if n.get("k") != "BinaryOperator" or n.get("op") != "=":
            return False
        l = astq.strip(n["c"][0])
        if not (l is not None and l.get("k") == "UnaryOperator" and l.get("op") == "*"):
            return False
        # the decoded-words cursor: the local that is also the base of the static v-table pointer assignment
        return any(x.get("k") == "DeclRefExpr" and x["ref"]["did"] in cursor for x in astq.walk(l))
    cursor = set()
    for n in astq.walk(body):
        if n.get("k") == "BinaryOperator" and n.get("op") == "=" and any(x.get("k") == "MemberExpr" and x.get("member") == "static_vptr" for x in astq.walk(n["c"][0])):
            for x in astq.walk(n["c"][1]):
                if x.get("k") == "DeclRefExpr" and x["ref"].get("storage") == "local" and (x.get("t") or "").endswith("*"):
                    cursor.add(x["ref"]["did"])
    stmts = lp["body"].get("c") or []
    top_fetch = sum(count(s, is_fetch) for s in stmts if s.get("k") != "IfStmt")
    ifs = [s for s in stmts if s.get("k") == "IfStmt"]
    ok = len(ifs) == 1 and top_fetch == 1 and any(x.get("k") == "DeclRefExpr" and x["ref"]["name"].endswith("index_bit") for x in astq.walk(ifs[0]["cond"]))
    detail = {}
    if ok:
        th, el = ifs[0]["then"], ifs[0].get("else")
        # else branch may itself branch (uni / multi): count per inner path
        def path_counts(n):
            inner = [s for s in (n.get("c") or []) if s.get("k") == "IfStmt"]
            basef = sum(count(s, is_fetch) for s in (n.get("c") or []) if s.get("k") != "IfStmt")
            bases = sum(count(s, is_store) for s in (n.get("c") or []) if s.get("k") != "IfStmt")
            if not inner:
                return [(basef, bases)]
            out = []
            for i in inner:
                for br in (i["then"], i.get("else")):
                    if br is not None:
                        out += [(basef + a, bases + b) for a, b in path_counts(br)]
            return out
        tc = path_counts(th)
        ec = path_counts(el) if el else []
        detail = {"index_entry": tc, "pair_entry": ec}
        ok = tc == [(0, 1)] and ec and all(p == (1, 1) for p in ec)
    run.instance(r1, "decode_dispatch_data: an entry costs 1 read (index bit set) or 2 reads, and writes exactly one word", where(lp), ok=bool(ok), detail=detail)
    if not ok:
        run.violation(r1, "decode_dispatch_data|per-entry-reads", "per entry (extra reads, words written) is %s; the encoder emits 1 value for index entries, 2 otherwise, and declares one decoded word per entry" % detail, where(lp))
    # minimum number of entries read per class vs what the encoder can emit
    if lp.get("k") == "DoStmt":
        run.instance(r1, "decode_dispatch_data: never reads an entry the encoder did not emit (class with an empty v-table)", where(lp), ok=False)
        run.violation(r1, "decode_dispatch_data:per-class-min-reads",
                      "the per-class entry loop is a do-while: at least one entry is read per class, while the encoder emits none for a class whose v-table is empty", where(lp))
    else:
        run.instance(r1, "decode_dispatch_data: never reads an entry the encoder did not emit (class with an empty v-table)", where(lp), ok=True)
    # multi-method predicate in the dispatch-table decoding loop
    LK = ("WhileStmt", "ForStmt", "DoStmt")
    ml = [n for n in astq.walk(body) if n.get("k") == "IfStmt" and arity_truth(n["cond"], True) is not None and any(x.get("k") in LK for x in astq.walk(n["then"]))]
    okm = len(ml) == 1 and arity_truth(ml[0]["cond"], True) == (False, True, True)
    run.instance(r1, "decode_dispatch_data: dispatch tables are decoded for multi-methods only", where(ml[0]) if ml else where(body), ok=okm)
    if not okm:
        run.violation(r1, "decode_dispatch_data|dtbls-skip", "the dispatch-table decoding loop does not select exactly the multi-methods", where(ml[0]) if ml else where(body))
    if ml:
        w = [x for x in astq.walk(ml[0]["then"]) if x.get("k") in LK][0]
        okw = any(x.get("k") == "DeclRefExpr" and x["ref"]["name"].endswith("stop_bit") for x in astq.walk(w["body"]))
        run.instance(r2, "decode_dispatch_data: dispatch-table decoding ends on stop_bit", where(w), ok=okw)
        if not okw:
            run.violation(r2, "decode_dispatch_data|dtbl-stop", "dispatch-table decoding loop does not test stop_bit", where(w))
    loop_flag_rule(run, r2, f)
    error_cell_order(run, r2, f, aug)


LOOPS = ("WhileStmt", "ForStmt", "DoStmt", "CXXForRangeStmt")


def _chain(root, target):
    """nodes from root down to target (inclusive), or None"""
    if root is target:
        return [root]
    for k in astq.kids_nodup(root):
        c = _chain(k, target)
        if c is not None:
            return [root] + c
    return None


def loop_flag_rule(run, rule, f):
    """A loop that runs `while (flag)` once per iteration of an enclosing loop, and leaves the flag false when it ends, must find the
    flag (re)initialised on every entry: the flag is defined - declaration with initialiser, or assignment - by a statement of the
    enclosing loop's body that precedes the inner loop on every path (a preceding statement of one of the enclosing blocks).
    Otherwise only the first run of the inner loop does anything (the dispatch table of the second multi-method is left encoded)."""
    body = f["body"]
    n = 0
    for w in astq.walk(body):
        if w.get("k") not in ("WhileStmt", "ForStmt") or w.get("cond") is None:
            continue
        c = astq.strip(w["cond"])
        if c is not None and c.get("k") == "UnaryOperator" and c.get("op") == "!":
            c = astq.strip(c["c"][0])
        if c is None or c.get("k") != "DeclRefExpr" or c["ref"].get("storage") != "local":
            continue
        did = c["ref"]["did"]
        sets = [x for x in astq.walk(w["body"]) if x.get("k") == "BinaryOperator" and x.get("op") == "=" and (astq.strip(x["c"][0]) or {}).get("k") == "DeclRefExpr"
                and astq.strip(x["c"][0])["ref"]["did"] == did]
        if not sets:
            continue
        ch = _chain(body, w)
        outer = [i for i, x in enumerate(ch[:-1]) if x.get("k") in LOOPS]
        if not outer:
            continue
        n += 1
        o = outer[-1]
        # statements that precede the chain element inside each compound between the enclosing loop and the inner loop
        ok = False
        if w.get("k") == "ForStmt" and w.get("init") is not None:
            ini = w["init"]
            if ini.get("k") == "DeclStmt" and any(d.get("did") == did and d.get("init") is not None for d in ini["decls"]):
                ok = True
            e = astq.strip(ini) if ini.get("k") != "DeclStmt" else None
            if e is not None and e.get("k") == "BinaryOperator" and e.get("op") == "=" and (astq.strip(e["c"][0]) or {}).get("k") == "DeclRefExpr" and astq.strip(e["c"][0])["ref"]["did"] == did:
                ok = True
        for i in range(o, len(ch) - 1):
            x = ch[i]
            if x.get("k") != "CompoundStmt":
                continue
            for st in x.get("c") or []:
                if st is ch[i + 1]:
                    break
                if st.get("k") == "DeclStmt" and any(d.get("did") == did and d.get("init") is not None for d in st["decls"]):
                    ok = True
                e = astq.strip(st) if st.get("k") != "DeclStmt" else None
                if e is not None and e.get("k") == "BinaryOperator" and e.get("op") == "=" and (astq.strip(e["c"][0]) or {}).get("k") == "DeclRefExpr" and astq.strip(e["c"][0])["ref"]["did"] == did:
                    ok = True
        run.instance(rule, "decode_dispatch_data: the flag of a per-item decoding loop is (re)initialised on every entry of the loop", (f["file"], w["l"]), ok=ok)
        if not ok:
            run.violation(rule, "decode_dispatch_data|loop-flag", "the loop `while (%s)` runs once per iteration of an enclosing loop and leaves its flag cleared, but the flag is not initialised again inside the enclosing loop: only the first item is decoded" % astq.text(w["cond"])[:40], (f["file"], w["l"]))
    if n == 0:
        raise common.AnalysisBroken("decode_dispatch_data: no flag-controlled decoding loop found (loop_flag_rule)")



def error_cell_order(run, r2, f, aug):
    """decoder: the two error cells follow the definitions in the order augment_methods numbers them (ambiguous = n, not implemented = n + 1)"""
    body = f["body"]
    where = lambda n: (f["file"], n["l"] if isinstance(n, dict) else f["line"])
    appended = []
    for n in astq.walk(body):
        if n.get("k") == "BinaryOperator" and n.get("op") == "=":
            l = astq.strip(n["c"][0])
            if l is not None and l.get("k") == "UnaryOperator" and l.get("op") == "*" and any(x.get("k") == "UnaryOperator" and x.get("op") == "++" for x in astq.walk(l)):
                mem = [x["member"] for x in astq.walk(n["c"][1]) if x.get("k") == "MemberExpr" and x["member"] in ("ambiguous", "not_implemented")]
                if mem:
                    appended.append((mem[0], n))
    numbering = {}
    for n in astq.walk(aug["body"]):
        if n.get("k") == "BinaryOperator" and n.get("op") == "=":
            l = astq.strip(n["c"][0])
            if l is not None and l.get("k") == "MemberExpr" and l.get("member") == "spec_index":
                owner = [x["member"] for x in astq.walk(l) if x.get("k") == "MemberExpr" and x["member"] in ("ambiguous", "not_implemented")]
                if owner:
                    env = {}
                    for s in astq.walk(aug["body"]):
                        if s.get("k") == "DeclStmt":
                            for d in s["decls"]:
                                i0 = astq.strip(d.get("init")) if d.get("init") is not None else None
                                if i0 is not None and i0.get("k") == "CXXMemberCallExpr" and (i0.get("callee") or "").endswith("::size") and any(
                                        x.get("k") == "MemberExpr" and x.get("member") == "specs" for x in astq.walk(i0)):
                                    env[d["did"]] = {"n": 1}
                    numbering[owner[0]] = astq.affine(n["c"][1], env, sym13)
    exp_order = sorted(numbering, key=lambda k: numbering[k].get(1, 0) if numbering[k] else 99)
    ok = [a for a, _ in appended] == exp_order and numbering.get(exp_order[0] if exp_order else None) == {"n": 1} and len(exp_order) == 2
    run.instance(r2, "decode_dispatch_data: error cells appended after the definitions in the order augment_methods numbers them", where(appended[0][1]) if appended else where(body), ok=ok,
                 detail={"decoder": [a for a, _ in appended], "augment_methods": {k: astq.aff_show(v) for k, v in numbering.items()}})
    if not ok:
        run.violation(r2, "decode_dispatch_data|error-cells", "decoder appends %s after the definitions; augment_methods numbers them %s" % (
            [a for a, _ in appended], {k: astq.aff_show(v) for k, v in numbering.items()}), where(appended[0][1]) if appended else where(body))


def text_rules(run, rule, f):
    """formatted pieces of the emitted text are bounded by their own buffer: every snprintf(buf, n, ...) has n = sizeof(buf) of the
    same buffer (a smaller bound silently truncates the declaration for large registries: the text no longer compiles)"""
    where = lambda n: (f["file"], n["l"] if isinstance(n, dict) else f["line"])
    calls = [n for n in astq.walk(f["body"]) if n.get("k") == "CallExpr" and re.search(r"(^|::)snprintf$", n.get("callee") or "")]
    for n in calls:
        args = n["c"][1:]
        buf = astq.strip(args[0])
        bdid = buf["ref"]["did"] if buf is not None and buf.get("k") == "DeclRefExpr" else None
        sz = [x for x in astq.walk(args[1]) if x.get("k") == "UnaryExprOrTypeTraitExpr"]
        sdid = None
        if sz:
            inner = [x["ref"]["did"] for x in astq.walk(sz[0]) if x.get("k") == "DeclRefExpr"]
            sdid = inner[0] if inner else None
        if bdid is None or not sz:
            run.broken.append("encode_dispatch_data: snprintf with a destination / bound this rule does not classify (line %s)" % n["l"])
            continue
        ok = sdid == bdid
        run.instance(rule, "encode_dispatch_data: a formatted piece of text is bounded by the size of its own buffer", where(n), ok=ok)
        if not ok:
            run.violation(rule, "generator::encode_dispatch_data|snprintf-bound", "snprintf into `%s` is bounded by sizeof of another object (`%s`): for registries whose numbers need more characters the declaration is cut and the emitted text does not compile" % (
                buf["ref"]["name"], astq.text(sz[0])[:60]), where(n))


def emitted_decl_rules(run, rule, f):
    """two facts about the text around the tables: (1) the emitted object is declared `static` - the text ends with a call statement,
    so it is included inside a function, and decoding leaves every v-table pointer of the program pointing INTO the object: with
    automatic storage they dangle when that function returns; (2) the policy named in the emitted decoder call is the caller's
    policy argument, the default-policy macro only standing in for an empty name."""
    where = lambda n: (f["file"], n["l"] if isinstance(n, dict) else f["line"])
    lits = [x for x in astq.walk(f["body"]) if x.get("k") == "StringLiteral" and "headroom" in (x.get("s") or "") and "struct" in (x.get("s") or "")]
    if len(lits) != 1:
        run.broken.append("encode_dispatch_data: the format of the emitted declaration was not found (%d candidates)" % len(lits))
    else:
        head = lits[0]["s"].split("{", 1)[0]
        ok = bool(re.search(r"\bstatic\b", head)) and "struct" in head
        run.instance(rule, "encode_dispatch_data: the emitted tables are an object with static storage duration", where(lits[0]), ok=ok)
        if not ok:
            run.violation(rule, "generator::encode_dispatch_data|static-storage", "the emitted declaration starts `%s{`: without `static` the decoded tables live on the stack of the function that includes the text, and every v-table pointer installed by the decoder dangles once it returns" % head.strip()[:40], where(lits[0]))
    pdids = {p["did"] for p in f["params"] if "string" in (p.get("type") or "")}
    conds = [n for n in astq.walk(f["body"]) if n.get("k") == "ConditionalOperator" and any(
        x.get("k") == "CXXMemberCallExpr" and (x.get("callee") or "").endswith("::empty") and any(y.get("k") == "DeclRefExpr" and y["ref"]["did"] in pdids for y in astq.walk(x)) for x in astq.walk(n["c"][0]))]
    if not conds:
        # no fallback at all is fine as long as the name is emitted: handled by the decoder-call presence below
        emits = [x for x in astq.walk(f["body"]) if x.get("k") == "StringLiteral" and "decode_dispatch_data<" in (x.get("s") or "")]
        if not emits:
            run.broken.append("encode_dispatch_data: emission of the decoder call not found")
        return
    for n in conds:
        c0 = astq.strip(n["c"][0])
        neg = False
        while c0 is not None and c0.get("k") == "UnaryOperator" and c0.get("op") == "!":
            c0, neg = astq.strip(c0["c"][0]), not neg
        when_empty, otherwise = (n["c"][2], n["c"][1]) if neg else (n["c"][1], n["c"][2])
        refs = lambda e: any(y.get("k") == "DeclRefExpr" and y["ref"]["did"] in pdids for y in astq.walk(e))
        ok = refs(otherwise) and not refs(when_empty)
        run.instance(rule, "encode_dispatch_data: the decoder call names the caller's policy (the default-policy macro only for an empty name)", where(n), ok=ok)
        if not ok:
            run.violation(rule, "generator::encode_dispatch_data|policy-name", "`%s`: a named policy is not the one the emitted decoder call decodes into (its tables are installed in another policy's registry)" % astq.text(n)[:80], where(n))


NARROW = re.compile(r"\b(unsigned short|short|uint16_t|std::uint16_t|unsigned char|uint8_t|std::uint8_t|char)\b")


def stride_width_rule(run, rule, f):
    """a stride is a product of group counts (16 classes on each of five parameters: 65536): the element type through which the
    strides are written into the text, and the array they are declared in, hold at least 32 bits. (Slots, group and definition
    indexes are bounded by the number of methods / classes / definitions and keep the 16-bit words of the format.)"""
    where = lambda n: (f["file"], n["l"] if isinstance(n, dict) else f["line"])
    ems = []
    for n in astq.walk(f["body"]):
        if n.get("k") == "CallExpr" and re.match(r"^std::(transform|copy)<", n.get("callee") or "") and any(x.get("k") == "MemberExpr" and x.get("member") == "strides" for x in astq.walk(n["c"][1])):
            its = [x for x in astq.walk(n) if x.get("k") in ("CXXTemporaryObjectExpr", "CXXConstructExpr", "CXXFunctionalCastExpr") and "ostream_iterator<" in (x.get("t") or x.get("ctor") or "")]
            ems.append((n, its))
    if not ems:
        run.broken.append("encode_dispatch_data: emission of the strides not found")
        return
    for n, its in ems:
        if not its:
            run.broken.append("encode_dispatch_data: the strides are not written through an ostream_iterator this rule can type (line %s)" % n["l"])
            continue
        t = its[0].get("t") or its[0].get("ctor") or ""
        elem = re.search(r"ostream_iterator<([^,>]+)", t)
        et = elem.group(1).strip() if elem else "?"
        ok = elem is not None and not NARROW.search(et)
        run.instance(rule, "encode_dispatch_data: strides are written through an element type of at least 32 bits (%s)" % et, where(n), ok=ok)
        if not ok:
            run.violation(rule, "generator::encode_dispatch_data|stride-width", "the strides are written through `%s`: a stride is a product of group counts and passes 65535 with 16 classes on each of five parameters - the decoded method then ignores its last virtual argument" % et, where(n))
    lits = [x for x in astq.walk(f["body"]) if x.get("k") == "StringLiteral" and "headroom" in (x.get("s") or "") and "slots[" in (x.get("s") or "")]
    if len(lits) == 1:
        m = re.search(r"([A-Za-z_:0-9 ]+?)\s+slots\[", lits[0]["s"])
        dt = m.group(1).strip() if m else "?"
        ok = m is not None and not NARROW.search(dt)
        run.instance(rule, "encode_dispatch_data: the emitted array of slots and strides has elements of at least 32 bits (%s)" % dt, where(lits[0]), ok=ok)
        if not ok:
            run.violation(rule, "generator::encode_dispatch_data|stride-array-width", "the emitted text declares `%s slots[...]` for the slots AND strides: strides beyond 65535 are reduced modulo 65536 when the text is compiled" % dt, where(lits[0]))
    else:
        run.broken.append("encode_dispatch_data: declaration of the slots array in the emitted text not found")


def publish_rules(run, rule, dec, ast):
    """the decoder ends by publishing v-table pointers for Policy::classes - the raw registration RECORDS, in which a class that
    appears in two registration statements appears twice with the same id (the decoder's own v-table loop skips such repeats).
    Over such a range the hash search must not take a bucket that already holds the very id being placed for a collision,
    or no multiplier can ever be accepted and decoding ends in hash_search_error."""
    from .. import crules
    pubs = [n for n in astq.walk(dec["body"]) if n.get("k") in ("CallExpr", "CXXMemberCallExpr") and "publish_vptrs" in (n.get("callee") or "")]
    if len(pubs) != 1:
        run.broken.append("decode_dispatch_data: publication of the v-table pointers not found")
        return
    over_records = all((astq.refname(x) or "").endswith("::classes") for a in pubs[0]["c"][1:3] for x in astq.walk(a) if x.get("k") == "DeclRefExpr" and x["ref"].get("storage") == "global") and any(
        (astq.refname(x) or "").endswith("::classes") for a in pubs[0]["c"][1:3] for x in astq.walk(a))
    pol = re.search(r"decode_dispatch_data<([^,>]+(?:<[^<>]*>)?)", dec["name"])
    his = [f for f in crules._fn(ast, r"fast_perfect_hash<.*>::hash_initialize<") if len(f["params"]) == 3 and "static_list" in f["name"] and (not pol or pol.group(1) in f["name"])]
    if not over_records:
        run.instance(rule, "decode_dispatch_data publishes over a range without repeated ids", (dec["file"], pubs[0]["l"]), ok=True)
        return
    if not his and pol and pol.group(1) in witness.POLICIES.values() and [k for k, v in witness.POLICIES.items() if v == pol.group(1)][0] not in witness.HASHED:
        run.instance(rule, "decode_dispatch_data<%s> publishes over the registration records; the policy has no type hash (no search to reject a repeated id)" % pol.group(1), (dec["file"], pubs[0]["l"]), ok=True)
        return
    if not his:
        run.broken.append("decode_dispatch_data<%s>: the hash search reached from the decoder's publication is not in the unit" % (pol.group(1) if pol else "?"))
        return
    for f in his:
        t = crules.hash_bucket_table(f)
        if t is None:
            run.broken.append("%s: scan body not classifiable over {free, same id, other id}" % crules.short(f)[:90])
            continue
        ok = "found=false" not in t["same"] and t["other"] == {"found=false"} and t["free"] == {"bucket-write"}
        run.instance(rule, "decode_dispatch_data publishes over the registration records; the hash search it reaches (%s) does not reject an id for meeting itself" % crules.short(f)[:60], (f["file"], f["line"]), ok=ok, detail={k: sorted(v) for k, v in t.items()})
        if not ok:
            run.violation(rule, "decode_dispatch_data|publish-records", "the decoder publishes v-table pointers over Policy::classes (registration records): a class registered in two statements is two records with one id, "
                          "and the hash search treats the bucket that already holds this id as a collision (%s): no multiplier is ever accepted and decoding ends in hash_search_error" % {k: sorted(v) for k, v in t.items()}, (dec["file"], pubs[0]["l"]))


def parity_rules(run, rule, dec, ast):
    """decoding replaces update: every kind of state update installs through the registration records must be installed by the decoder
    too - the classes' static v-table pointers, the methods' slots and strides, the definitions' `next` pointers."""
    KINDS = {"static_vptr": "the classes' static v-table pointers", "slots_strides_ptr": "the methods' slots and strides", "next": "the definitions' next pointers"}

    def kinds_written(fn):
        out = {}
        for n in astq.walk(fn["body"]):
            if n.get("k") == "BinaryOperator" and n.get("op") == "=":
                l = astq.strip(n["c"][0])
                if l is not None and l.get("k") == "UnaryOperator" and l.get("op") == "*":
                    for x in astq.walk(l):
                        if x.get("k") == "MemberExpr" and x.get("member") in ("static_vptr", "next"):
                            out.setdefault(x["member"], n)
                if l is not None and l.get("k") in ("ArraySubscriptExpr", "CXXOperatorCallExpr") and any(x.get("k") == "MemberExpr" and x.get("member") == "slots_strides_ptr" for x in astq.walk(l)):
                    out.setdefault("slots_strides_ptr", n)
            if n.get("k") == "CallExpr" and re.match(r"^std::(copy|copy_n)<", n.get("callee") or "") and any(x.get("k") == "MemberExpr" and x.get("member") == "slots_strides_ptr" for x in astq.walk(n)):
                out.setdefault("slots_strides_ptr", n)
        return out
    upd = {}
    for f in ast.funcs:
        if f.get("body") and re.search(r"compiler<.*>::(install_gv|build_dispatch_tables|install_global_tables)$", f["name"]):
            for k, n in kinds_written(f).items():
                upd.setdefault(k, (f, n))
    if "static_vptr" not in upd or "slots_strides_ptr" not in upd:
        run.broken.append("update's installation of static v-table pointers / slots and strides not found in the unit (%s)" % sorted(upd))
        return
    dk = kinds_written(dec)
    for k in sorted(upd):
        ok = k in dk
        run.instance(rule, "decode_dispatch_data installs %s, as update does (%s)" % (KINDS[k], upd[k][0]["name"].rsplit("::", 1)[1]), (dec["file"], dk[k]["l"] if ok else dec["line"]), ok=ok)
        if not ok:
            run.violation(rule, "decode_dispatch_data|parity|%s" % k, "update installs %s (%s, line %s) but decode_dispatch_data never does: after decoding, that state is whatever static initialisation left" % (
                KINDS[k], upd[k][0]["name"].rsplit("::", 1)[1], upd[k][1]["l"]), (dec["file"], dec["line"]))


def scratch_rules(run, rule, f):
    """decoder scratch arrays (alloca): an array indexed by a method's position in the catalog has one entry per method, an array
    indexed by a multi-method's rank one per multi-method; an extent counted over fewer elements than the index ranges over is
    written / read beyond its end."""
    body = f["body"]
    where = lambda n: (f["file"], n["l"] if isinstance(n, dict) else f["line"])
    byid, parent = astq.index_nodes(f)
    decls = {d["did"]: d for n in astq.walk(body) if n.get("k") == "DeclStmt" for d in n["decls"]}

    def refs(n, did):
        return any(x.get("k") == "DeclRefExpr" and x["ref"].get("did") == did for x in astq.walk(n))

    def in_methods_loop(n):
        """(loop, guarded-by-arity?) when n sits in a range-for over Policy::methods"""
        x = parent.get(n["id"])
        guarded = False
        while x is not None:
            if x.get("k") == "IfStmt" and mentions(x["cond"], "arity"):
                guarded = True
            if x.get("k") == "CXXForRangeStmt" and (astq.refname(x["range"]) or "").endswith("::methods"):
                return x, guarded
            x = parent.get(x["id"])
        return None, guarded

    def counter_class(did):
        """'all' / 'multi' for an integer (or pointer) local advanced once per method / per multi-method; None otherwise"""
        cls = set()
        for n in astq.walk(body):
            if n.get("k") == "UnaryOperator" and n.get("op") in ("++",) and astq.strip(n["c"][0]).get("k") == "DeclRefExpr" and astq.strip(n["c"][0])["ref"].get("did") == did:
                lp, guarded = in_methods_loop(n)
                if lp is None:
                    return None
                cls.add("multi" if guarded else "all")
        return cls.pop() if len(cls) == 1 else None
    arrays = {}
    for did, d in decls.items():
        init = d.get("init")
        if init is None:
            continue
        al = [x for x in astq.walk(init) if x.get("k") == "CallExpr" and (x.get("callee") or "").endswith("alloca")]
        if not al:
            continue
        cnt = [x["ref"]["did"] for x in astq.walk(al[0]) if x.get("k") == "DeclRefExpr" and x["ref"].get("storage") == "local" and x["ref"].get("did") in decls]
        cc = [x for x in (counter_class(c) for c in cnt) if x]
        arrays[did] = (d, cc[0] if len(cc) == 1 else None)
    if len([a for a in arrays.values() if a[1]]) < 3:
        run.broken.append("decode_dispatch_data: scratch arrays sized by a method / multi-method count not recognised (%d)" % len(arrays))
        return
    # aliases: iterators initialised from an array
    alias = {}
    for did, d in decls.items():
        init = astq.strip(d.get("init")) if d.get("init") is not None else None
        if init is not None and init.get("k") == "DeclRefExpr" and init["ref"].get("did") in arrays:
            alias[did] = init["ref"]["did"]
    for adid, (ad, ext) in sorted(arrays.items()):
        if ext is None:
            continue
        need = set()
        sites = []
        for n in astq.walk(body):
            # arr[idx]
            if n.get("k") == "ArraySubscriptExpr" and astq.strip(n["c"][0]).get("k") == "DeclRefExpr" and astq.strip(n["c"][0])["ref"].get("did") == adid:
                idx = astq.strip(n["c"][1])
                ic = None
                if idx.get("k") == "DeclRefExpr" and idx["ref"].get("did") in decls:
                    ic = counter_class(idx["ref"]["did"])
                    if ic is None:
                        # a method index read from the encoded stream, or a loop variable bounded by a count
                        init = decls[idx["ref"]["did"]].get("init")
                        ic = "all"       # any method's position may come out of the encoded data
                        for lp in [x for x in astq.walk(body) if x.get("k") == "ForStmt" and x.get("cond") is not None]:
                            if refs(lp["cond"], idx["ref"]["did"]):
                                bnd = [y["ref"]["did"] for y in astq.walk(lp["cond"]) if y.get("k") == "DeclRefExpr" and y["ref"].get("did") in decls and y["ref"]["did"] != idx["ref"]["did"]]
                                bc = [counter_class(b) for b in bnd]
                                if len(bc) == 1 and bc[0]:
                                    ic = bc[0]
                need.add(ic or "all")
                sites.append(n)
            # *it++ with it an iterator over arr
            if n.get("k") == "UnaryOperator" and n.get("op") == "++" and astq.strip(n["c"][0]).get("k") == "DeclRefExpr" and alias.get(astq.strip(n["c"][0])["ref"].get("did")) == adid:
                lp, guarded = in_methods_loop(n)
                need.add("multi" if (lp is not None and guarded) else "all")
                sites.append(n)
        ok = not (ext == "multi" and "all" in need)
        run.instance(rule, "decode_dispatch_data: scratch array `%s` (one entry per %s) covers the positions it is indexed with (%s)" % (
            ad["name"], "method" if ext == "all" else "multi-method", ", ".join(sorted("every method" if x == "all" else "multi-methods" for x in need)) or "unused"), where(sites[0]) if sites else where(body), ok=ok)
        if not ok:
            run.violation(rule, "decode_dispatch_data|scratch|%s" % ("multi-for-all"), "scratch array `%s` has one entry per multi-method but is indexed by a method's position among all methods: a multi-method declared after uni-methods writes beyond the array" % ad["name"], where(sites[0]) if sites else where(body))


def check(run):
    r1, r2 = "C13-extent", "C13-cells"
    run.rule(r1, "declared extents = decoder reads/writes as affine per-method / per-class / per-entry counts; equivalent branch predicates", floor=10)
    run.rule(r2, "error-cell order, index bit, stop bit and the one-table-per-class discipline agree between encoder, decoder and augment_methods", floor=8)
    pols = ["release", "debug"] if run.tier == "quick" else ["release", "debug", "p_map", "p_ind", "p_throw"]
    src, _ = witness.call_matrix(pols, ["rr"], witness.update_block(pols))
    variants = [True] if run.tier == "quick" else [True, False]
    for nd in variants:
        ast = astq.Ast(common.ast_json(run, src, "c13_ast_%s" % ("nd" if nd else "dbg"), ndebug=nd, funcs=FUNCS))
        encs = [f for f in ast.funcs if f.get("body") and "generator::encode_dispatch_data<" in f["name"] and len(f["params"]) == 3]
        decs = [f for f in ast.funcs if f.get("body") and "decode_dispatch_data<" in f["name"]]
        augs = [f for f in ast.funcs if f.get("body") and f["name"].endswith("::augment_methods")]
        if not encs or not decs or not augs:
            raise common.AnalysisBroken("encoder / decoder / augment_methods instantiation not found")
        run.units.append({"unit": "c13_ast", "ndebug": nd, "encoders": len(encs), "decoders": len(decs)})
        from . import c12
        for f in encs:
            encoder_rules(run, r1, r2, f)
            c12.encoder_layout_rule(run, r2, f)
            text_rules(run, r2, f)
            emitted_decl_rules(run, r2, f)
            stride_width_rule(run, r1, f)
        c12.codec_rule(run, r1, ast, encoder=False)
        for f in decs:
            decoder_rules(run, r1, r2, f, augs[0])
            scratch_rules(run, r1, f)
            publish_rules(run, r2, f, ast)
            parity_rules(run, r2, f, ast)
    run.assumptions += ["compiler invariants slots.size() == arity and strides.size() == arity - 1 (augment_methods / build_dispatch_tables) are taken as given",
                        "headroom (in-place decoding never overtakes unread input) depends on run-time sizes: not decided"]
    return run.finish(level="other", explanation="AST rules over the instantiated encoder, decoder and augment_methods: contributions to each declared extent as affine "
                      "terms under loop / branch context, compared with the number of values the emission loops write and the decoder reads per class and per "
                      "entry; predicates on arity / vp_index compared by truth table; flag bits and error-cell order compared across the three sites.")
