"""C17 - the update report tells the truth about gaps and ambiguities (claimed in part)."""
from .. import common, crules


def check(run):
    r1, r2, r3 = "C17-pair", "C17-guard", "C17-accumulate"
    run.rule(r1, "each report counter is incremented exactly in the branch that installs the matching error cell", floor=12)
    run.rule(r2, "the two concrete_* counters are guarded by the same concreteness condition (outer dimensions and this group)", floor=3)
    run.rule(r3, "accumulate adds each per-method counter to the field of the same name (flags as != 0)", floor=6)
    for nd in ([True] if run.tier == "quick" else [True, False]):
        ast, _ = crules.unit(run, ndebug=nd)
        crules.cells_rules(run, "C17-cells", r1, r2, ast) if False else None
        run.rule("C17-cells", "(cells themselves are decided by C01-cells)", floor=0)
        crules.cells_rules(run, "C17-cells", r1, r2, ast)
        crules.accumulate_rule(run, r3, ast)
        if "C17-count" not in run.rules:
            run.rule("C17-count", "report.cells / concrete_cells = product over every dimension of the number of (concrete) groups, multi-methods only", floor=4)
        crules.cellcount_rules(run, "C17-count", ast)
        crules.group_concrete_rules(run, "C17-count", ast)
        crules.abstract_flag_rules(run, "C17-count", ast)
        # the cells being counted are the cells built: what decides a gap / an ambiguity for a tuple of classes
        if "C17-resolution" not in run.rules:
            run.rule("C17-resolution", "a tuple is a gap / an ambiguity as C01 defines it: specificity table, elimination step, applicability by covariant set, every listed base merged", floor=10)
        crules.order_rules(run, "C17-resolution", None, ast)
        crules.best_rules(run, "C17-resolution", ast)
        crules.applicable_rules(run, "C17-resolution", ast)
        crules.merge_rules(run, "C17-resolution", None, ast)
    # the cell verdict belongs to C01
    run.violations = [v for v in run.violations if v["rule"] != "C17-cells"]
    del run.rules["C17-cells"]
    run.assumptions += ["that a counted cell corresponds to a real tuple of registered classes (grouping by applicable-definition masks) is a run-time computation: not decided"]
    return run.finish(level="other", explanation="AST decision tables for build_dispatch_table: which counters are incremented, under which symbolic guards, for a best set "
                      "of size 0 / 1 / 2+; sibling comparison of the guards of the two concrete_* counters; field pairing in accumulate.")
