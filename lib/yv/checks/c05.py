"""C05 - the type-id hash is perfect on registered ids or reported; the checked variant rejects the rest (claimed in part)."""
from .. import common, crules


def check(run):
    r = ["C05-accept", "C05-same", "C05-publish", "C05-checked", "C05-allids"]
    run.rule(r[0], "parameters are installed only after a complete collision-free scan; an occupied bucket is never overwritten; the empty marker is invalid_type", floor=9)
    run.rule(r[1], "the search probes with the expression hash_type_id computes; hash_shift = 64 - M and 1 << M buckets (index < size)", floor=6)
    run.rule(r[2], "publish_vptrs: hash search, then resize to hash_length, then indexed stores, unconditionally on every update", floor=6)
    run.rule(r[3], "checked hash returns an index only when it is in range and control[index] is the id; control is the accepted scan's bucket vector", floor=2)
    run.rule(r[4], "search and publishers iterate every id of every class", floor=6)
    for nd in ([True] if run.tier == "quick" else [True, False]):
        ast, _ = crules.unit(run, ndebug=nd)
        crules.hash_rules(run, r[0], r[1], r[2], r[3], r[4], ast)
        crules.merge_rules(run, None, r[4], ast)          # every id of a class is kept (compared raw, not through the projection)
        crules.publish_range_rules(run, r[2], ast)
        crules.hash_sizing_rules(run, r[0], ast)
    # "with the checked hash, every id that was not registered is reported": the checked hash is only worth something on the routes
    # that pass it - every route from an object to a v-table pointer does, under the checked policies (the C15-call rule)
    from .. import callpath, witness
    from . import c15
    run.rule("C05-routes", "under the checked policies every route from an object to a v-table pointer (dynamic_vptr, virtual_ptr's constructor on both branches, final) passes the checked hash", floor=20)
    run.rule("C05-f", "(final's type comparison: decided by C15-final)", floor=0)
    for nd in ([True] if run.tier == "quick" else [True, False]):
        for u in callpath.build_units(run, sorted(witness.CHECKED), ["r", "V", "X", "W", "sS", "rir"], ndebug=nd, tag="c15"):
            c15.call_rules(run, "C05-routes", "C05-f", u)
    run.violations = [v for v in run.violations if v["rule"] != "C05-f"]
    del run.rules["C05-f"]
    run.assumptions += ["that the random search finds a multiplier (or terminates) for a given id set, and the numeric content of the tables, are run-time values: not decided",
                        "the exhaustion path (hash_search_error + abort) is an instance of C02-abort"]
    from .. import crules as _cr
    _cr.facet_rules(run, "C05-facets")
    return run.finish(level="other", explanation="AST rules on fast_perfect_hash::hash_initialize / hash_type_id, checked_perfect_hash and vptr_vector::publish_vptrs: path "
                      "enumeration of the scan body under 'bucket occupied / free', position of the only normal return, equality of the probe and look-up "
                      "expressions, constants of the empty-bucket marker, CFG control dependence of the sizing and publishing calls.")
