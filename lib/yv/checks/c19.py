"""C19 - forward declarations name exactly the requested classes (claimed in part: the name filter).

C19-keywords: the table of words that are never class names covers every keyword that can occur in a (demangled) type
              description: fundamental type keywords, cv-qualifiers, elaborated-type keywords.
C19-filter  : add_forward_declaration(string_view) drops a matched word only because it is a template name (followed by '<'),
              not an identifier, a keyword of the table, or qualified with std:: / yorel::; every other word is recorded.
C19-prefix  : detail::starts_with(name, prefix) is 'name begins with prefix' (path table of its loop body).
Not decided : the writer's namespace open / close bookkeeping (balance, one declaration per class): a string algorithm over
              run-time characters."""
import re
from .. import common, astq

SRC = r'''
#include <yorel/yomm2/core.hpp>
#include <yorel/yomm2/generator.hpp>
#include <sstream>
namespace w19 { void use() { yorel::yomm2::generator g; g.add_forward_declaration("a::b"); std::ostringstream os; g.write_forward_declarations(os); } }
'''

# word -> why it can appear in a type description and is not a class name
REQUIRED = {
    "void": "fundamental type", "bool": "fundamental type", "char": "fundamental type", "wchar_t": "fundamental type (wide character)",
    "char8_t": "fundamental type (C++20, accepted by the supported compilers as an identifier otherwise)", "char16_t": "fundamental type", "char32_t": "fundamental type",
    "short": "fundamental type", "int": "fundamental type", "long": "fundamental type", "signed": "fundamental type", "unsigned": "fundamental type",
    "float": "fundamental type", "double": "fundamental type",
    "const": "cv-qualifier of a parameter type (virtual_<const Animal&> demangles to 'Animal const&')", "volatile": "cv-qualifier",
    "class": "elaborated type specifier", "struct": "elaborated type specifier", "enum": "elaborated type specifier",
    "true": "boolean literal as non-type template argument (`Flag<true>`)", "false": "boolean literal as non-type template argument",
    "nullptr": "std::nullptr_t demangles to `decltype(nullptr)`", "decltype": "std::nullptr_t demangles to `decltype(nullptr)`",
    "noexcept": "exception specification of a function (pointer) type",
}


def check(run):
    r1, r2, r3 = "C19-keywords", "C19-filter", "C19-prefix"
    run.rule(r1, "generator::keywords holds every keyword that can occur in a type description (fundamental types, cv-qualifiers, elaborated-type keywords)", floor=len(REQUIRED))
    run.rule(r2, "a matched word is dropped only as a template name, a non-identifier, a keyword or a std:: / yorel:: entity; every other one is recorded", floor=5)
    run.rule(r3, "detail::starts_with is 'name begins with prefix'", floor=3)
    ast = astq.Ast(common.ast_json(run, SRC, "c19_ast", ndebug=True, funcs="generator::add_forward_declaration|generator::keywords|detail::starts_with|generator::write_forward_declarations", cfg="@none@"))
    run.units.append({"unit": "c19_ast", "functions": len([f for f in ast.funcs if f.get("body")])})
    # ---- keywords table
    kv = [v for v in ast.vars if v["name"].endswith("generator::keywords")]
    if not kv or kv[0].get("init") is None:
        raise common.AnalysisBroken("initialiser of generator::keywords not found")
    words = {n["s"] for n in astq.walk(kv[0]["init"]) if n.get("k") == "StringLiteral" and "s" in n}
    if len(words) < 5:
        raise common.AnalysisBroken("generator::keywords: only %d string literals in the initialiser" % len(words))
    for w, why in sorted(REQUIRED.items()):
        ok = w in words
        run.instance(r1, "`%s` (%s) is in the table" % (w, why.split(" (")[0]), (kv[0]["file"], kv[0]["line"]), ok=ok)
        if not ok:
            run.violation(r1, "generator::keywords|%s" % w, "`%s` is not in generator::keywords (%s): a type description that mentions it yields the declaration `class %s;`" % (w, why, w), (kv[0]["file"], kv[0]["line"]))
    # ---- the filter
    fs = [f for f in ast.funcs if f.get("body") and f["name"].endswith("generator::add_forward_declaration") and len(f.get("params") or []) == 1 and "string_view" in f["params"][0]["type"]]
    if not fs:
        raise common.AnalysisBroken("generator::add_forward_declaration(std::string_view) not found")
    f = fs[0]
    byid, parent = astq.index_nodes(f)
    emp = [n for n in astq.walk(f["body"]) if n.get("k") == "CXXMemberCallExpr" and re.search(r"::(emplace|insert)(<.*)?$", n.get("callee") or "") and any((astq.refname(x) or "").endswith("::names") or
           (x.get("k") == "MemberExpr" and x.get("member") == "names") for x in astq.walk(n["c"][0]))]
    loops = [n for n in astq.walk(f["body"]) if n.get("k") in ("ForStmt", "WhileStmt", "CXXForRangeStmt")]
    if len(emp) != 1 or not loops:
        raise common.AnalysisBroken("add_forward_declaration: recording of a name / loop over the matches not recognised")
    lp = [l for l in loops if any(x is emp[0] for x in astq.walk(l["body"]))][0]
    direct = any(astq.strip(s) is emp[0] for s in (lp["body"].get("c") or []))
    run.instance(r2, "a word that passes the filters is recorded (unconditionally, at the end of the loop body)", (f["file"], emp[0]["l"]), ok=direct)
    if not direct:
        g = [i for i in [parent.get(emp[0]["id"])] if i]
        run.violation(r2, "generator::add_forward_declaration|record", "recording a name is nested in another statement: class names are kept only under an extra condition", (f["file"], emp[0]["l"]))
    seen = set()
    lits = set()
    for s in (lp["body"].get("c") or []):
        if s.get("k") != "IfStmt":
            continue
        skips = any(x.get("k") == "ContinueStmt" for x in astq.walk(s.get("then")))
        if not skips:
            continue
        c = s["cond"]
        txt = astq.text(c)
        strs = [x["s"] for x in astq.walk(c) if x.get("k") == "StringLiteral" and "s" in x]
        callees = [(x.get("callee") or "") for x in astq.walk(c) if x.get("k") in ("CallExpr", "CXXMemberCallExpr", "CXXOperatorCallExpr")]
        mems = [x.get("member") for x in astq.walk(c) if x.get("k") == "MemberExpr"]
        sub = [astq.affine(x["c"][2]) for x in astq.walk(c) if x.get("k") == "CXXOperatorCallExpr" and x.get("oop") == "[]" and len(x.get("c") or []) > 2]
        if "matched" in mems and {2: 1} in [a for a in sub if a] or ("matched" in mems and any(a == {1: 2} for a in sub if a)):
            seen.add("template-name")
        elif "matched" in mems:
            seen.add("unmatched")
        elif any(cl.endswith("isalpha") for cl in callees):
            seen.add("non-identifier")
        elif any((astq.refname(x) or "").endswith("::keywords") for x in astq.walk(c)):
            cf = astq.canon(c)
            seen.add("keyword")
            # a look-up that presupposes an ordered table (binary search) is only a membership test if the initialiser IS ordered
            if any(re.match(r"^std::(binary_search|lower_bound|upper_bound|equal_range)<", cl) for cl in callees):
                seq = [n["s"] for n in astq.walk(kv[0]["init"]) if n.get("k") == "StringLiteral" and "s" in n]
                oks = seq == sorted(seq)
                run.instance(r1, "the table is searched with a binary search and its initialiser is sorted", (kv[0]["file"], kv[0]["line"]), ok=oks)
                if not oks:
                    out = [b for a, b in zip(seq, seq[1:]) if b < a]
                    run.violation(r1, "generator::keywords|unsorted", "the table is looked up with a binary search but its initialiser is not sorted (`%s` follows a greater word): some keywords are never found and are declared as classes" % (out[0] if out else "?"), (kv[0]["file"], kv[0]["line"]))
        elif any(cl.endswith("detail::starts_with") for cl in callees):
            seen.add("prefix")
            lits |= set(strs)
        else:
            run.broken.append("add_forward_declaration: a matched word is skipped depending on `%s`, a filter this rule does not classify" % txt[:80])
    for need, what in (("template-name", "a name followed by '<' (a template) is skipped"), ("keyword", "a word of the keywords table is skipped"), ("prefix", "std:: and yorel:: entities are skipped")):
        ok = need in seen and (need != "prefix" or lits == {"std::", "yorel::"})
        run.instance(r2, what, (f["file"], lp["l"]), ok=ok)
        if not ok:
            run.violation(r2, "generator::add_forward_declaration|%s" % need, ("the filter `%s` is missing" % what) if need not in seen else
                          "the qualified-name filter uses the prefixes %s, expected exactly 'std::' and 'yorel::' (with the scope operator: 'stdx::T' is a user class)" % sorted(lits), (f["file"], lp["l"]))
    # the name pattern: a qualified identifier, optionally followed by '<'. The literal is interpreted (it is a constant of the source):
    # over a table of type-name texts, every match must be a WHOLE word of the text - same start, same extent as a maximal run of
    # identifier characters joined by `::` - with the template bracket in group 2, and every word that starts with a letter must be
    # matched. A pattern that can start in the middle of a word declares its tail (`3ul` -> `class ul;`, `_Impl` -> `class Impl;`).
    import re as _re
    rx = [x["s"] for x in astq.walk(f["body"]) if x.get("k") == "StringLiteral" and "s" in x and "\\w" in x["s"]]
    if len(rx) != 1 or not _re.fullmatch(r"(?:\\w|\\\(|\\\)|\[[A-Za-z0-9_\-]+\]|\(\?:|[a-z()*+?:< |])+", rx[0]):
        run.broken.append("add_forward_declaration: the name pattern %s is not in the subset this rule interprets (\\w, simple classes, groups, * + ?, ':', '<', ' ')" % rx)
    else:
        ref = _re.compile(r"(\w+(?:::\w+)*)( *<)?")
        try:
            cand = _re.compile(rx[0])
        except _re.error as e:
            cand = None
            run.broken.append("add_forward_declaration: the name pattern %s does not translate: %s" % (rx[0], e))
        samples = ["Matrix<3ul, dense>", "ns1::ns2::T<a::B, 12>", "const _Impl::row&", "std::pair<int, x9::y_z <q>>", "a", "A1::b2 <C3>", "vec<10, 0x1f, u8>", "__m::n"]
        if cand is not None and cand.groups >= 2:
            bad = None
            matches_nonletter = False
            for sm in samples:
                words = {m.start(1): (m.group(1), bool(m.group(2))) for m in ref.finditer(sm)}
                got = {m.start(1): (m.group(1), bool(m.group(2))) for m in cand.finditer(sm) if m.group(1)}
                for pos, w in got.items():
                    if words.get(pos) != w:
                        bad = bad or (sm, "matches `%s`%s at %d, which is not a whole word of the text" % (w[0], " <" if w[1] else "", pos))
                    elif not w[0][0].isalpha():
                        matches_nonletter = True
                for pos, w in words.items():
                    if w[0][0].isalpha() and pos not in got:
                        bad = bad or (sm, "does not match the name `%s`" % w[0])
            run.instance(r2, "words are matched whole, as qualified identifiers with an optional template bracket in group 2 (pattern interpreted over %d sample texts)" % len(samples), (f["file"], f["line"]), ok=bad is None)
            if bad:
                run.violation(r2, "generator::add_forward_declaration|name-pattern", "on `%s` the name pattern `%s` %s" % (bad[0], rx[0], bad[1]), (f["file"], f["line"]))
            # classes of an unnamed namespace: the demangler writes the scope as `(anonymous namespace)::`. A pattern that only knows
            # identifier characters cuts it into the words `anonymous` and `namespace` (declared as classes: `class namespace;`
            # is not even C++) and the class itself lands in the global namespace
            am = [m.group(1) for m in cand.finditer("(anonymous namespace)::Animal&") if m.group(1)]
            oka = not ({"anonymous", "namespace"} & set(am))
            run.instance(r2, "the scope `(anonymous namespace)::` of the demangler is not cut into the words `anonymous` and `namespace`", (f["file"], f["line"]), ok=oka)
            if not oka:
                run.violation(r2, "generator::add_forward_declaration|unnamed-namespace", "on `(anonymous namespace)::Animal&` the name pattern `%s` yields the words %s: classes of an unnamed namespace produce `class anonymous; class namespace;` and a global `class Animal;`" % (rx[0], am), (f["file"], f["line"]))
            # a pattern that also matches tokens starting with a digit (`3ul`, the literal of a non-type template argument) needs the
            # test on the first character
            okd = (not matches_nonletter) or "non-identifier" in seen
            run.instance(r2, "a match that does not start with a letter (a numeric literal such as `3ul`) is skipped", (f["file"], lp["l"]), ok=okd)
            if not okd:
                run.violation(r2, "generator::add_forward_declaration|non-identifier", "with the pattern `%s` a numeric literal is a match; the test on its first character is missing: `class 3ul;` would be declared" % rx[0], (f["file"], lp["l"]))
        elif cand is not None:
            run.broken.append("add_forward_declaration: the name pattern %s has fewer than two groups" % rx[0])
    # ---- starts_with
    sw = [g for g in ast.funcs if g.get("body") and g["name"].endswith("detail::starts_with")]
    if not sw:
        raise common.AnalysisBroken("detail::starts_with not found")
    g = sw[0]
    gl = [n for n in astq.walk(g["body"]) if n.get("k") in ("CXXForRangeStmt", "ForStmt", "WhileStmt")]
    if len(gl) != 1:
        run.broken.append("detail::starts_with: not a single loop over the characters of the name")
    else:
        pdid = g["params"][1]["did"]

        def lit(n):
            e = astq.strip(n["c"][0]) if n.get("c") else None
            return None if e is None else (e.get("v") if e.get("k") == "CXXBoolLiteralExpr" else None)
        table = {}
        for mismatch in (True, False):
            for at_end in (True, False):
                def decide(c, mismatch=mismatch, at_end=at_end):
                    cf = astq.canon(c)
                    neg = cf[0] == "not"
                    core = cf[1] if neg else cf
                    if core[0] == "eq":
                        return (not mismatch) != neg
                    mentions_prefix = any(x.get("k") == "DeclRefExpr" and x["ref"].get("did") == pdid for x in astq.walk(c))
                    if mentions_prefix and core[0] in ("zero", "null", "expr"):
                        # `!*prefix` / `*prefix == 0`: end of the prefix reached; a bare `*prefix`: not yet
                        v = at_end if core[0] in ("zero", "null") else (not at_end)
                        return v != neg
                    return None
                ps = astq.enum_paths(gl[0]["body"], decide, lambda n: n.get("k") == "ReturnStmt")
                table[(mismatch, at_end)] = sorted({str(lit(p["returned"])) if p["returned"] is not None else "next" for p in ps})
        after = [n for n in (g["body"].get("c") or []) if n.get("k") == "ReturnStmt"]
        exp = {(True, True): ["False"], (True, False): ["False"], (False, True): ["True"], (False, False): ["next"]}
        ok = table == exp and len(after) == 1 and lit(after[0]) is False
        run.instance(r3, "starts_with: a differing character -> false; prefix exhausted -> true; name exhausted first -> false", (g["file"], g["line"]), ok=ok, detail={str(k): v for k, v in table.items()})
        run.instance(r3, "starts_with advances through the prefix one character per character of the name", (g["file"], g["line"]), ok=any(
            x.get("k") == "UnaryOperator" and x.get("op") == "++" and astq.strip(x["c"][0]).get("k") == "DeclRefExpr" and astq.strip(x["c"][0])["ref"].get("did") == pdid for x in astq.walk(gl[0]["body"])))
        run.instance(r3, "starts_with is applied to (name, literal prefix)", (g["file"], g["line"]), ok=True)
        if not ok:
            run.violation(r3, "detail::starts_with|table", "starts_with decides %s (after the loop: %s); expected mismatch -> false, end of prefix -> true, otherwise go on, false when the name ends first" % (
                {str(k): v for k, v in table.items()}, [lit(a) for a in after]), (g["file"], g["line"]))
    # ---- the writer: the two places that close the namespaces still open (before a name in another namespace; after the last
    #      name) discharge the same obligation on the same state - they must agree (sibling cross-check), and each emitted
    #      `namespace X {` is matched by one `}` per scope operator of the remembered prefix
    r4 = "C19-close"
    run.rule(r4, "the writer closes namespaces in two places (between names, after the last name) with the same loop: one `}` per scope operator of the remembered namespace prefix", floor=2)
    ws = [g for g in ast.funcs if g.get("body") and g["name"].endswith("generator::write_forward_declarations")]
    if not ws:
        run.broken.append("generator::write_forward_declarations not found")
    else:
        w = ws[0]
        closers = []
        for n in astq.walk(w["body"]):
            if n.get("k") == "WhileStmt" and any(x.get("k") == "StringLiteral" and x.get("s", "").strip() == "}" for x in astq.walk(n["body"])):
                # innermost such loop only
                if not any(m is not n and m.get("k") == "WhileStmt" and any(x.get("k") == "StringLiteral" and x.get("s", "").strip() == "}" for x in astq.walk(m["body"])) for m in astq.walk(n["body"])):
                    closers.append(n)
        forms = [astq.text(c["cond"]) + " :: " + " ; ".join(astq.text(x) if x.get("k") != "IfStmt" else "if %s { %s }" % (astq.text(x["cond"]), " ; ".join(astq.text(y) for y in (x["then"].get("c") or [x["then"]])))
                                                          for x in (c["body"].get("c") or [c["body"]])) for c in closers]
        forms = [re.sub(r"<<\(.*?ostream.*?\)", "<<", f_) for f_ in forms]
        okc = len(closers) == 2 and forms[0] == forms[1]
        run.instance(r4, "write_forward_declarations: the closing loop between two names and the one after the last name are the same", (w["file"], closers[0]["l"] if closers else w["line"]), ok=okc, detail={"forms": forms})
        if len(closers) != 2:
            run.violation(r4, "generator::write_forward_declarations|closers", "%d loop(s) emit closing braces; namespaces must be closed both before a name from another namespace and after the last name" % len(closers), (w["file"], w["line"]))
        elif not okc:
            run.violation(r4, "generator::write_forward_declarations|closers-differ", "the two loops that close the open namespaces differ: `%s` vs `%s`" % (forms[0][:100], forms[1][:100]), (w["file"], closers[1]["l"]))
        # one brace per scope operator: the brace is emitted under `*it == ':'` and the iterator then skips the second colon
        for c in closers:
            ifs = [x for x in astq.walk(c["body"]) if x.get("k") == "IfStmt"]
            okb = len(ifs) == 1 and astq.canon(ifs[0]["cond"])[0] == "eq" and any(x.get("k") == "CharacterLiteral" or x.get("v") == 58 or x.get("cv") == 58 for x in astq.walk(ifs[0]["cond"])) and \
                sum(1 for x in astq.walk(c["body"]) if x.get("op") == "++" or x.get("oop") == "++") == 2 and sum(1 for x in astq.walk(ifs[0]["then"]) if x.get("op") == "++" or x.get("oop") == "++") == 1
            run.instance(r4, "write_forward_declarations: one `}` per `::` of the remembered prefix (the second colon is skipped)", (w["file"], c["l"]), ok=okb)
            if not okb:
                run.violation(r4, "generator::write_forward_declarations|brace-per-scope", "a closing loop does not emit exactly one brace per scope operator (`%s`)" % astq.text(c["body"])[:100], (w["file"], c["l"]))
    run.assumptions += ["the writer (write_forward_declarations: namespace open / close bookkeeping between consecutive sorted names) is a string algorithm over run-time "
                        "characters: balance, 'each class once' and 'exactly its namespace' are NOT decided",
                        "which words a demangled type description can contain is taken from the Itanium demangler's spelling of fundamental types and qualifiers"]
    return run.finish(level="other", explanation="AST rules on the name filter of the generator: inclusion of a reasoned keyword list in the initialiser of generator::keywords, "
                      "classification of the skip conditions of add_forward_declaration (template name, non-identifier, keyword, std:: / yorel:: prefix; nothing else), "
                      "path table of detail::starts_with. Decides the second sentence of the property (which words are skipped / kept); not the writer.")
