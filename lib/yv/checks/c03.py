"""C03 - next refers to the most specific strictly more general definition (claimed in part)."""
from .. import common, crules


def check(run):
    r1, r2, r3 = "C03-base", "C03-sel", "C03-always"
    run.rule(r1, "is_base(a, b): in every position a's class is b's class or a base of it, strictly in one (decision table)", floor=3)
    run.rule(r2, "next = sole best candidate's function / not_implemented when none / ambiguous when several; candidates = is_base(other, this)", floor=15)
    run.rule(r3, "the store through info->next is control dependent only on the two loops and the pointer's own null test", floor=3)
    for nd in ([True] if run.tier == "quick" else [True, False]):
        ast, _ = crules.unit(run, ndebug=nd)
        crules.order_rules(run, None, r1, ast)
        crules.next_rules(run, r2, r3, ast)
        run.rule("C03-best", "best(): the per-pair elimination step used to pick next among the candidates", floor=3)
        crules.best_rules(run, "C03-best", ast)
        if "C03-model" not in run.rules:
            run.rule("C03-model", "what next is computed from: a definition's parameter classes come from its own id list, its function from its own record; the class "
                     "lattice merges every listed base; update runs every phase", floor=8)
        crules.model_rules(run, "C03-model", ast, parts=("pf", "iter", "vp"))
        crules.merge_rules(run, "C03-model", None, ast)
        crules.phase_rules(run, "C03-model", ast)
        # the next pointer update stores through is the one the FIRST registration of the function established
        crules.idem_rules(run, "C03-model", ast)
    # the pointer update stores through is the definition container's own `next`: detected for every container that has one
    from .. import e3
    nu = e3.Unit("c03_next", """
#include <yorel/yomm2/core.hpp>
#include <yorel/yomm2/symbols.hpp>
using namespace yorel::yomm2;
namespace c03n {
struct A { virtual ~A() {} };
using M = method<void, int(virtual_<A&>)>;
struct Plain { static M::next_type next; static int fn(A&); };
struct NoDefault { NoDefault() = delete; static M::next_type next; static int fn(A&); };
struct Crtp : M::next<Crtp> { static int fn(A&); };
struct CrtpNoDefault : M::next<CrtpNoDefault> { CrtpNoDefault() = delete; static int fn(A&); };
struct None { static int fn(A&); };
struct Wrong { static int next; static int fn(A&); };
}
using namespace c03n;
""")
    for c, has in (("Plain", True), ("NoDefault", True), ("Crtp", True), ("CrtpNoDefault", True), ("None", False), ("Wrong", False)):
        nu.add("has_next|%s" % c, "definition container %s: add_definition %s its next pointer" % (c, "registers" if has else "has none to register"),
               "static_assert(std::is_base_of_v<M::add_definition_<%s, %s>, M::add_definition<%s>>);" % (c, "true" if has else "false", c))
    nu.raw("struct Crtp2 : M::next<Crtp2> { static int fn(A&); };")
    nu.add("next|per-container", "method::next<C> is a distinct variable per definition container (one next pointer per definition)",
           "static_assert(!std::is_same_v<M::next<Crtp>, M::next<Crtp2>> && &M::next<Crtp>::next != &M::next<Crtp2>::next);")
    run.rule("C03-wiring", "add_definition hands the container's `next` (of the method's next_type) to the registration, whatever else the container is (not default-constructible, CRTP helper)", floor=6)
    for ob, ok, msg in e3.run_unit(run, "C03-wiring", nu):
        if not ok:
            run.violation("C03-wiring", ob["key"], "%s: %s" % (ob["desc"], msg), "include/yorel/yomm2/detail.hpp")
    run.assumptions += ["that best() returns the most specific elements of its argument for every lattice is a value computed by a graph algorithm: not decided",
                        "the pointer registered as info.next is the definition's own `next` variable (macros / add_definition): type-level, see C20 add_definition witnesses"]
    return run.finish(level="other", explanation="AST decision tables (path enumeration over a finite abstract domain) for is_base and for the selection of the value "
                      "stored through info->next as a function of the size of the best candidate set; CFG control dependence of that store.")
