"""C15 - checked policies diagnose every use of an unregistered class (claimed in part).

C15-update: every class_map look-up of a listed base / method parameter / definition parameter runs for every record, is
            null-tested before use, and the null outcome reports the looked-up id and aborts.
C15-call  : under a checked policy every route from an object to a v-table pointer (dynamic_vptr, virtual_ptr's
            constructor on both branches, final) passes through the checked hash.
C15-final : final compares the dynamic with the static type under runtime_checks; the 'different' outcome (only) reports a
            method_table_error carrying the dynamic id."""
import re
from .. import common, callpath, irq, sym, vptr, crules, witness, eff, astq


def call_rules(run, r_call, r_final, u):
    mod = u["module"]
    P = u["policy"]
    S = sym.Sym(mod, opaque=r"::dynamic_type<|::static_type<")
    fns = vptr.vp_functions(mod)
    for kind in ("dynamic_vptr", "ctor_obj", "final"):
        for f in fns[kind]:
            ok, bad = vptr.through_checked_hash(f, P, mod)
            short = re.sub(r"yorel::yomm2::", "", irq.strip_ret(f.dname))[:150]
            run.instance(r_call, "%s: every path passes the checked hash" % short, f.where(), ok=ok)
            if not ok:
                route = {"dynamic_vptr": "Policy::dynamic_vptr", "ctor_obj": "virtual_ptr::virtual_ptr(Other&&)", "final": "virtual_ptr::final"}[kind]
                run.violation(r_call, "%s|unchecked-path" % route, "%s has a path to its return (line %s) that never validates the class id with checked_perfect_hash::hash_type_id: an unregistered class yields a v-table pointer instead of an unknown_class_error" % (short, bad.line), f.where())
    # nobody but the checked hash calls the unchecked one under this policy
    for f in mod.funcs.values():
        if not f.body or not irq.is_lib_name(f.dname):
            continue
        if re.search(r"checked_perfect_hash<.*>::hash_type_id\(", f.dname):
            continue
        for i in f.all_insts():
            if i.op in ("call", "invoke") and i.callee and re.search(r"fast_perfect_hash<.*>::hash_type_id\(", i.callee) and ("<%s>" % witness.POLICIES[P].replace("policy::", "yorel::yomm2::policy::")) in i.callee.replace(" ", ""):
                run.instance(r_call, "unchecked hash call in %s" % f.dname, i.where(), ok=False)
                run.violation(r_call, "%s|calls-unchecked-hash" % re.sub(r"<.*", "", irq.strip_ret(f.dname)), "%s calls the unchecked fast_perfect_hash::hash_type_id under a checked policy" % f.dname[:160], i.where())
    # final
    for f in fns["final"]:
        short = re.sub(r"yorel::yomm2::", "", irq.strip_ret(f.dname))[:150]
        cmps = []
        for i in f.all_insts():
            if i.op == "icmp":
                a, b = S.value(f, i.ops[0]), S.value(f, i.ops[1])
                names = [x[1] for x in (a, b) if x[0] == "call"]
                if any("::dynamic_type<" in n for n in names) and any("::static_type<" in n for n in names):
                    cmps.append((i, a if "dynamic_type" in a[1] else b))
        ok = len(cmps) == 1
        why = "no comparison of dynamic_type(obj) with static_type<C>()"
        if ok:
            c, dynv = cmps[0]
            br = [i for i in f.all_insts() if i.op == "br" and i.ops and i.ops[0] == ["i", c.id]]
            handler = [i for i in f.all_insts() if i.op in ("call", "invoke") and i.callee and eff.HANDLER_CALL.search(i.callee)]
            ok = len(br) == 1 and bool(handler)
            if ok:
                t, e = br[0].get("succ")
                ne_edge = t if c.get("pred") == "ne" else e

                def reach(b, tgt, seen=None):
                    seen = seen if seen is not None else set()
                    if b == tgt:
                        return True
                    if b in seen:
                        return False
                    seen.add(b)
                    return any(reach(s, tgt, seen) for s in f.succ(b))
                hb = [h.bb for h in handler]
                ok = any(reach(ne_edge, h) for h in hb)
                why = "the 'different' outcome does not lead to the error handler"
                if ok:
                    # ... on EVERY path: no return is reachable from the 'different' edge without passing the handler call
                    rets = {i.bb for i in f.all_insts() if i.op == "ret"}

                    def escapes(b, seen):
                        if b in hb or b in seen:
                            return False
                        seen.add(b)
                        if b in rets:
                            return True
                        return any(escapes(s2, seen) for s2 in f.succ(b))
                    if escapes(ne_edge, set()):
                        ok = False
                        why = "with dynamic id != static id a path returns a pointer without reporting the method_table_error (the report depends on a further condition)"
                # error.type = dynamic id
                lo = mod.layout_by_name.get("yorel::yomm2::method_table_error")
                if ok and lo:
                    stored = [S.value(f, i.ops[0]) for i in f.all_insts() if i.op == "store" and sym.split_base(S.value(f, i.ops[1]))[1] == lo["fields"].get("type")
                              and sym.split_base(S.value(f, i.ops[1]))[0] is not None and sym.split_base(S.value(f, i.ops[1]))[0][0] == "alloca"]
                    ok = dynv in stored
                    why = "the method_table_error does not carry the dynamic type id"
        run.instance(r_final, "%s: dynamic != static -> method_table_error(dynamic id)" % short, f.where(), ok=ok)
        if not ok:
            run.violation(r_final, "virtual_ptr::final|type-check", "%s: %s" % (short, why), f.where())
        # the registration check in final is about the STATIC class (the one whose v-table is handed out); validating the
        # dynamic id there reports an object of another, unregistered class as 'unknown class' before the type comparison
        # can report the method-table error the property requires
        hc = [i for i in f.all_insts() if i.op in ("call", "invoke") and i.callee and re.search(r"checked_perfect_hash<.*>::hash_type_id\(", i.callee)]
        for i in hc:
            v = S.value(f, i.ops[0]) if i.ops else None
            okh = v is not None and v[0] == "call" and "::static_type<" in v[1]
            run.instance(r_final, "%s: the registration check validates the static class id" % short, i.where(), ok=okh)
            if not okh:
                run.violation(r_final, "virtual_ptr::final|checked-id", "%s validates %s with the checked hash: an object of another (unregistered) dynamic class is reported as unknown class instead of as a method-table error" % (short, sym.show(v)[:100] if v else "?"), i.where())


def check(run):
    r1, r2, r3 = "C15-update", "C15-call", "C15-final"
    run.rule(r1, "update-time class_map look-ups: run for every record, null-tested first, null -> unknown_class_error(looked-up id) + handler + abort", floor=9)
    run.rule(r2, "checked policies: dynamic_vptr, virtual_ptr's constructor (both branches) and final always pass the checked hash", floor=20)
    run.rule(r3, "final: dynamic != static type -> method_table_error carrying the dynamic id", floor=6)
    r4 = "C15-abort"
    run.rule(r4, "after the report of an unknown class / wrong final type no path continues to a table read: abort() follows the handler call", floor=6)
    for nd in ([True] if run.tier == "quick" else [True, False]):
        ast, _ = crules.unit(run, ndebug=nd)
        crules.lookup_rules(run, None, r1, ast)
        lookups_unconditional(run, r1, ast)
        crules.phase_rules(run, r1, ast)
        # what the checked hash does with an id it does not know: report it through the handler, then abort - on every rejecting path
        for x in ("C15-h1", "C15-h2", "C15-h3", "C15-h5"):
            if x not in run.rules:
                run.rule(x, "(decided by C05)", floor=0)
        crules.hash_rules(run, "C15-h1", "C15-h2", "C15-h3", r2, "C15-h5", ast)
        run.violations = [v for v in run.violations if not v["rule"].startswith("C15-h")]
        units = callpath.build_units(run, sorted(witness.CHECKED), ["r", "V", "X", "W", "sS", "rir"], ndebug=nd, tag="c15")
        for u in units:
            call_rules(run, r2, r3, u)
            abort_rule(run, r4, u)
    for x in ("C15-h1", "C15-h2", "C15-h3", "C15-h5"):
        run.rules.pop(x, None)
    run.assumptions += ["what the checked hash rejects (range + identity test against the control table) is decided by C05-checked; abort after the handler by C02-abort",
                        "policies with runtime_checks but without a type hash have no registration test at call time; the property is stated for the stock debug policy"]
    from .. import crules as _cr
    _cr.facet_rules(run, "C15-facets")
    return run.finish(level="other", explanation="AST rules on the three update-time look-ups (null test, reported id, abort, control dependence) and IR path queries on every "
                      "object-to-v-table-pointer route of the checked policies (must pass the checked hash), plus the operand check of final's type comparison.")


def lookups_unconditional(run, rule, ast):
    for f in crules.by_name(ast, "augment_classes") + crules.by_name(ast, "augment_methods"):
        subs = crules._class_map_subscripts(f)
        for n in astq.walk(f["body"]):
            if n.get("k") == "DeclStmt":
                for d in n["decls"]:
                    init = d.get("init")
                    if init is None or d["type"].endswith("&"):
                        continue
                    sub = [x for x in astq.walk(init) if x in subs]
                    if not sub:
                        continue
                    lookup_vars = {dd["did"] for n2 in astq.walk(f["body"]) if n2.get("k") == "DeclStmt" for dd in n2["decls"]
                                   if dd.get("init") is not None and not dd["type"].endswith("&") and any(x in subs for x in astq.walk(dd["init"]))}

                    def is_own_null_test(cn):
                        cf = astq.canon(cn) if cn else ("expr", "?")
                        cf = cf[1] if cf[0] == "not" else cf
                        return cf[0] == "null" and cf[1].startswith("v#") and int(cf[1][2:]) in lookup_vars
                    bad = [astq.text(cn) if cn else "?" for cls, cn, blk in (crules._cdep_conds(f, sub[0]) or []) if cls not in ("loop", "trace") and not is_own_null_test(cn)]
                    run.instance(rule, "%s: the look-up of %s runs for every record" % (crules.short(f), d["name"]), (f["file"], sub[0]["l"]), ok=not bad)
                    for t in bad:
                        run.violation(rule, "compiler::%s|lookup-skipped" % f["name"].split("::")[-1], "the look-up (and null test) of %s is skipped depending on `%s`: an unregistered class in a skipped record goes unreported" % (d["name"], t), (f["file"], sub[0]["l"]))


def abort_rule(run, rule, u):
    from . import c02
    from .. import path
    mod = u["module"]
    for f, call, kind in c02.handler_sites(mod):
        if not re.search(r"checked_perfect_hash<.*>::hash_type_id|virtual_ptr<.*>::final<|compiler<.*>::\w+\(", f.dname):
            continue
        ok, bad = path.after_call_reaches(f, call, lambda i: i.op in ("call", "invoke") and i.get("callee") == "abort")
        run.instance(rule, "%s: abort after the report" % re.sub(r"yorel::yomm2::", "", irq.strip_ret(f.dname)), call.where(), ok=ok)
        if not ok:
            run.violation(rule, "%s|no-abort" % c02.site_key(f), "after reporting the error, %s can return (line %s) and the caller goes on to read a table" % (f.dname[:140], bad.line), call.where())
