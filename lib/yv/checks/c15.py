"""C15 - checked policies diagnose every use of an unregistered class (claimed in part).

C15-update: every class_map look-up of a listed base / method parameter / definition parameter runs for every record, is
            null-tested before use, and the null outcome reports the looked-up id and aborts.
C15-call  : under a checked policy every route from an object to a v-table pointer (dynamic_vptr, virtual_ptr's
            constructor on both branches, final) passes through the checked hash.
C15-final : final compares the dynamic with the static type under runtime_checks; the 'different' outcome (only) reports a
            method_table_error carrying the dynamic id."""
import re
from .. import common, callpath, irq, sym, vptr, crules, witness, eff, astq


def call_rules(run, r_call, r_final, u):
    mod = u["module"]
    P = u["policy"]
    S = sym.Sym(mod, opaque=r"::dynamic_type<|::static_type<")
    fns = vptr.vp_functions(mod)
    for kind in ("dynamic_vptr", "ctor_obj", "final"):
        for f in fns[kind]:
            ok, bad = vptr.through_checked_hash(f, P, mod)
            short = re.sub(r"yorel::yomm2::", "", irq.strip_ret(f.dname))[:150]
            run.instance(r_call, "%s: every path passes the checked hash" % short, f.where(), ok=ok)
            if not ok:
                route = {"dynamic_vptr": "Policy::dynamic_vptr", "ctor_obj": "virtual_ptr::virtual_ptr(Other&&)", "final": "virtual_ptr::final"}[kind]
                run.violation(r_call, "%s|unchecked-path" % route, "%s has a path to its return (line %s) that never validates the class id with checked_perfect_hash::hash_type_id: an unregistered class yields a v-table pointer instead of an unknown_class_error" % (short, bad.line), f.where())
    # nobody but the checked hash calls the unchecked one under this policy
    for f in mod.funcs.values():
        if not f.body or not irq.is_lib_name(f.dname):
            continue
        if re.search(r"checked_perfect_hash<.*>::hash_type_id\(", f.dname):
            continue
        for i in f.all_insts():
            if i.op in ("call", "invoke") and i.callee and re.search(r"fast_perfect_hash<.*>::hash_type_id\(", i.callee) and ("<%s>" % witness.POLICIES[P].replace("policy::", "yorel::yomm2::policy::")) in i.callee.replace(" ", ""):
                run.instance(r_call, "unchecked hash call in %s" % f.dname, i.where(), ok=False)
                run.violation(r_call, "%s|calls-unchecked-hash" % re.sub(r"<.*", "", irq.strip_ret(f.dname)), "%s calls the unchecked fast_perfect_hash::hash_type_id under a checked policy" % f.dname[:160], i.where())
    # final
    for f in fns["final"]:
        short = re.sub(r"yorel::yomm2::", "", irq.strip_ret(f.dname))[:150]
        cmps = []
        for i in f.all_insts():
            if i.op == "icmp":
                a, b = S.value(f, i.ops[0]), S.value(f, i.ops[1])
                names = [x[1] for x in (a, b) if x[0] == "call"]
                if any("::dynamic_type<" in n for n in names) and any("::static_type<" in n for n in names):
                    cmps.append((i, a if "dynamic_type" in a[1] else b))
        ok = len(cmps) == 1
        why = "no comparison of dynamic_type(obj) with static_type<C>()"
        if ok:
            c, dynv = cmps[0]
            br = [i for i in f.all_insts() if i.op == "br" and i.ops and i.ops[0] == ["i", c.id]]
            handler = [i for i in f.all_insts() if i.op in ("call", "invoke") and i.callee and eff.HANDLER_CALL.search(i.callee)]
            ok = len(br) == 1 and bool(handler)
            if ok:
                t, e = br[0].get("succ")
                ne_edge = t if c.get("pred") == "ne" else e

                def reach(b, tgt, seen=None):
                    seen = seen if seen is not None else set()
                    if b == tgt:
                        return True
                    if b in seen:
                        return False
                    seen.add(b)
                    return any(reach(s, tgt, seen) for s in f.succ(b))
                hb = [h.bb for h in handler]
                ok = any(reach(ne_edge, h) for h in hb)
                why = "the 'different' outcome does not lead to the error handler"
                # error.type = dynamic id
                lo = mod.layout_by_name.get("yorel::yomm2::method_table_error")
                if ok and lo:
                    stored = [S.value(f, i.ops[0]) for i in f.all_insts() if i.op == "store" and sym.split_base(S.value(f, i.ops[1]))[1] == lo["fields"].get("type")
                              and sym.split_base(S.value(f, i.ops[1]))[0] is not None and sym.split_base(S.value(f, i.ops[1]))[0][0] == "alloca"]
                    ok = dynv in stored
                    why = "the method_table_error does not carry the dynamic type id"
        run.instance(r_final, "%s: dynamic != static -> method_table_error(dynamic id)" % short, f.where(), ok=ok)
        if not ok:
            run.violation(r_final, "virtual_ptr::final|type-check", "%s: %s" % (short, why), f.where())
        # the registration check in final is about the STATIC class (the one whose v-table is handed out); validating the
        # dynamic id there reports an object of another, unregistered class as 'unknown class' before the type comparison
        # can report the method-table error the property requires
        hc = [i for i in f.all_insts() if i.op in ("call", "invoke") and i.callee and re.search(r"checked_perfect_hash<.*>::hash_type_id\(", i.callee)]
        for i in hc:
            v = S.value(f, i.ops[0]) if i.ops else None
            okh = v is not None and v[0] == "call" and "::static_type<" in v[1]
            run.instance(r_final, "%s: the registration check validates the static class id" % short, i.where(), ok=okh)
            if not okh:
                run.violation(r_final, "virtual_ptr::final|checked-id", "%s validates %s with the checked hash: an object of another (unregistered) dynamic class is reported as unknown class instead of as a method-table error" % (short, sym.show(v)[:100] if v else "?"), i.where())


def final_report_rule(run, rule):
    """final under a checked policy: when the object's class differs from the static class, EVERY path reports the method-table error
    (handler call, then abort) before it returns - and when the class is the same, none does. 'Differs' is decided over the two
    tests the code may make: the raw ids differ, and (if the code consults it) Policy::type_index of the two ids differs; any other
    condition between the test and the report is left open (both outcomes explored), so a report that depends on it is flagged."""
    src, _ = callpath.unit_source("debug", ["r", "V", "X"])
    ast = astq.Ast(common.ast_json(run, src, "c15_final", ndebug=False, funcs="virtual_ptr<"))
    n = 0
    for f in ast.funcs:
        if not f.get("body") or not re.search(r"virtual_ptr<.*>::final<", f["name"]):
            continue
        dyn, stat = set(), set()
        for x in astq.walk(f["body"]):
            if x.get("k") == "DeclStmt":
                for d in x["decls"]:
                    if d.get("init") is None:
                        continue
                    cs = [(y.get("callee") or "") for y in astq.walk(d["init"]) if y.get("k") in ("CallExpr", "CXXMemberCallExpr")]
                    if any("::dynamic_type<" in c for c in cs):
                        dyn.add(d["did"])
                    elif any("::static_type<" in c for c in cs):
                        stat.add(d["did"])
        if not dyn or not stat:
            continue
        n += 1

        def operand(e):
            """'d' / 's' for the raw ids, 'D' / 'S' for Policy::type_index(id)"""
            e = astq.strip(e)
            while e is not None and e.get("k") in ("CXXConstructExpr", "MaterializeTemporaryExpr", "CXXBindTemporaryExpr") and len(e.get("c") or []) == 1:
                e = astq.strip(e["c"][0])
            if e is None:
                return None
            if e.get("k") == "DeclRefExpr":
                return "d" if e["ref"]["did"] in dyn else "s" if e["ref"]["did"] in stat else None
            if e.get("k") in ("CallExpr", "CXXMemberCallExpr") and (e.get("callee") or "").endswith("::type_index") and len(e.get("c") or []) >= 2:
                o = operand(e["c"][-1])
                return o.upper() if o in ("d", "s") else None
            return None

        def mk_decide(differ):
            def decide(c):
                c = astq.strip(c)
                if c is None:
                    return None
                if c.get("k") == "UnaryOperator" and c.get("op") == "!":
                    v = decide(c["c"][0])
                    return None if v is None else not v
                if c.get("k") == "BinaryOperator" and c.get("op") in ("&&", "||"):
                    a, b = decide(c["c"][0]), decide(c["c"][1])
                    if c["op"] == "&&":
                        return False if (a is False or b is False) else True if (a and b) else None
                    return True if (a is True or b is True) else False if (a is False and b is False) else None
                op, l, r = None, None, None
                if c.get("k") == "BinaryOperator" and c.get("op") in ("==", "!="):
                    op, l, r = c["op"], operand(c["c"][0]), operand(c["c"][1])
                elif c.get("k") == "CXXOperatorCallExpr" and c.get("oop") in ("==", "!=") and len(c.get("c") or []) >= 3:
                    op, l, r = c["oop"], operand(c["c"][1]), operand(c["c"][2])
                if op and l and r and {l, r} == {"d", "s"}:
                    # raw ids: equal ids mean the same class; different ids say nothing when classes may have several ids - but the
                    # scenario under test fixes it: class differs => ids differ; same class with ANOTHER id => ids differ too
                    return (op == "!=")
                if op and l and r and {l, r} == {"D", "S"}:
                    return (op == "!=") == differ
                return None
            return decide

        def is_report(x):
            return x.get("k") in ("CallExpr", "CXXMemberCallExpr", "CXXOperatorCallExpr") and re.search(r"::error$|vectored_error<.*>::error|operator\(\)", x.get("callee") or "") is not None and any(
                "method_table_error" in (y.get("t") or "") for y in astq.walk(x))
        for differ in (True, False):
            paths = astq.enum_paths(f["body"], mk_decide(differ), lambda x: any(is_report(y) for y in astq.walk(x)))
            uses_index = any((y.get("callee") or "").endswith("::type_index") for y in astq.walk(f["body"]) if y.get("k") in ("CallExpr", "CXXMemberCallExpr"))
            if not differ and not uses_index:
                continue          # the code only knows raw ids: 'same class, other id' is the recorded finding of C10, not decided here
            silent = [p for p in paths if not p["events"] and not p.get("noreturn")]
            loud = [p for p in paths if p["events"]]
            ok = (not silent) if differ else (not loud)
            what = "an object of another class is reported as a method-table error on every path" if differ else "an object of the same class (whatever id it carries) is not reported"
            run.instance(rule, "%s: %s" % (crules.short(f)[:90], what), (f["file"], f["line"]), ok=ok)
            if not ok:
                g = [astq.text(c)[:60] for c, v in (silent if differ else loud)[0]["guards"]]
                run.violation(rule, "virtual_ptr::final|type-check", "%s: %s - depending on `%s`" % (crules.short(f)[:90], "with an object of ANOTHER class a path returns a pointer without reporting the method_table_error" if differ else "an object of the SAME class is reported as a method-table error", "; ".join(g) or "?"), (f["file"], f["line"]))
    if n == 0:
        run.broken.append("C15-final: no instantiation of virtual_ptr::final with its type check found in the AST unit")


def context_rule(run, rule, ast):
    """every unknown_class_error built at update time says so: `context` is set (to `update`) next to `type` - the handler is
    documented to read it, and reading an unset member is undefined"""
    n = 0
    for f in crules.by_name(ast, "augment_classes") + crules.by_name(ast, "augment_methods"):
        for st in astq.walk(f["body"]):
            if st.get("k") != "DeclStmt":
                continue
            for d in st["decls"]:
                if not (d.get("type") or "").endswith("unknown_class_error"):
                    continue
                n += 1
                sets = {}
                for x in astq.walk(f["body"]):
                    if x.get("k") == "BinaryOperator" and x.get("op") == "=":
                        l = astq.strip(x["c"][0])
                        if l is not None and l.get("k") == "MemberExpr" and l.get("c") and (astq.strip(l["c"][0]) or {}).get("k") == "DeclRefExpr" and astq.strip(l["c"][0])["ref"]["did"] == d["did"]:
                            sets[l["member"]] = x["c"][1]
                okc = "context" in sets and (astq.refname(astq.strip(sets["context"])) or "").endswith("::update")
                run.instance(rule, "%s: the unknown_class_error built at line %s carries context = update" % (crules.short(f), st["l"]), (f["file"], st["l"]), ok=okc)
                if not okc:
                    run.violation(rule, "compiler::%s|error-context" % f["name"].rsplit("::", 1)[1], "the unknown_class_error built here sets %s but not `context` (documented: where the error was detected): the handler reads an indeterminate value" % sorted(sets), (f["file"], st["l"]))
    if n < 3:
        run.broken.append("C15: fewer than three update-time unknown_class_error objects found (%d)" % n)


def check(run):
    r1, r2, r3 = "C15-update", "C15-call", "C15-final"
    run.rule(r1, "update-time class_map look-ups: run for every record, null-tested first, null -> unknown_class_error(looked-up id) + handler + abort", floor=9)
    run.rule(r2, "checked policies: dynamic_vptr, virtual_ptr's constructor (both branches) and final always pass the checked hash", floor=20)
    run.rule(r3, "final: dynamic != static type -> method_table_error carrying the dynamic id", floor=6)
    r4 = "C15-abort"
    run.rule(r4, "after the report of an unknown class / wrong final type no path continues to a table read: abort() follows the handler call", floor=6)
    final_report_rule(run, r3)
    # a checked policy without an error_handler facet ("report ... if Policy has an error_handler facet; otherwise, abort") must be able
    # to use final at all
    from .. import e3
    fu = e3.Unit("c15_final_noerr", witness.PRELUDE + "\nnamespace yw_reg { yw::pol_classes<yw::p_noerr> r; }\n")
    fu.add("must-compile|final-no-handler", "virtual_ptr::final / final_virtual_ptr compile under a checked policy that has no error_handler facet",
           "auto c15_f(yw::B& b) { auto p = virtual_ptr<yw::B, yw::p_noerr>::final(b); auto q = final_virtual_ptr<yw::p_noerr>(b); return p._vptr() == q._vptr(); }", separate=True)
    for ob, ok, msg in e3.run_unit(run, r3, fu, ndebug=False):
        if not ok:
            run.violation(r3, ob["key"], "%s: %s" % (ob["desc"], msg), "include/yorel/yomm2/core.hpp")
    for nd in ([True] if run.tier == "quick" else [True, False]):
        ast, _ = crules.unit(run, ndebug=nd)
        crules.lookup_rules(run, None, r1, ast)
        lookups_unconditional(run, r1, ast)
        context_rule(run, r1, ast)
        crules.phase_rules(run, r1, ast)
        # what the checked hash does with an id it does not know: report it through the handler, then abort - on every rejecting path
        for x in ("C15-h1", "C15-h2", "C15-h3", "C15-h5"):
            if x not in run.rules:
                run.rule(x, "(decided by C05)", floor=0)
        crules.hash_rules(run, "C15-h1", "C15-h2", "C15-h3", r2, "C15-h5", ast)
        run.violations = [v for v in run.violations if not v["rule"].startswith("C15-h")]
        units = callpath.build_units(run, sorted(witness.CHECKED), ["r", "V", "X", "W", "sS", "rir"], ndebug=nd, tag="c15")
        for u in units:
            call_rules(run, r2, r3, u)
            abort_rule(run, r4, u)
    for x in ("C15-h1", "C15-h2", "C15-h3", "C15-h5"):
        run.rules.pop(x, None)
    run.assumptions += ["what the checked hash rejects (range + identity test against the control table) is decided by C05-checked; abort after the handler by C02-abort",
                        "policies with runtime_checks but without a type hash have no registration test at call time; the property is stated for the stock debug policy"]
    from .. import crules as _cr
    _cr.facet_rules(run, "C15-facets")
    return run.finish(level="other", explanation="AST rules on the three update-time look-ups (null test, reported id, abort, control dependence) and IR path queries on every "
                      "object-to-v-table-pointer route of the checked policies (must pass the checked hash), plus the operand check of final's type comparison.")


def lookups_unconditional(run, rule, ast):
    for f in crules.by_name(ast, "augment_classes") + crules.by_name(ast, "augment_methods"):
        subs = crules._class_map_subscripts(f)
        for n in astq.walk(f["body"]):
            if n.get("k") == "DeclStmt":
                for d in n["decls"]:
                    init = d.get("init")
                    if init is None or d["type"].endswith("&"):
                        continue
                    sub = [x for x in astq.walk(init) if x in subs]
                    if not sub:
                        continue
                    lookup_vars = {dd["did"] for n2 in astq.walk(f["body"]) if n2.get("k") == "DeclStmt" for dd in n2["decls"]
                                   if dd.get("init") is not None and not dd["type"].endswith("&") and any(x in subs for x in astq.walk(dd["init"]))}

                    def is_own_null_test(cn):
                        cf = astq.canon(cn) if cn else ("expr", "?")
                        cf = cf[1] if cf[0] == "not" else cf
                        return cf[0] == "null" and cf[1].startswith("v#") and int(cf[1][2:]) in lookup_vars
                    bad = [astq.text(cn) if cn else "?" for cls, cn, blk in (crules._cdep_conds(f, sub[0]) or []) if cls not in ("loop", "trace") and not is_own_null_test(cn)]
                    run.instance(rule, "%s: the look-up of %s runs for every record" % (crules.short(f), d["name"]), (f["file"], sub[0]["l"]), ok=not bad)
                    for t in bad:
                        run.violation(rule, "compiler::%s|lookup-skipped" % f["name"].split("::")[-1], "the look-up (and null test) of %s is skipped depending on `%s`: an unregistered class in a skipped record goes unreported" % (d["name"], t), (f["file"], sub[0]["l"]))


def abort_rule(run, rule, u):
    from . import c02
    from .. import path
    mod = u["module"]
    for f, call, kind in c02.handler_sites(mod):
        if not re.search(r"checked_perfect_hash<.*>::hash_type_id|virtual_ptr<.*>::final<|compiler<.*>::\w+\(", f.dname):
            continue
        ok, bad = path.after_call_reaches(f, call, lambda i: i.op in ("call", "invoke") and i.get("callee") == "abort")
        run.instance(rule, "%s: abort after the report" % re.sub(r"yorel::yomm2::", "", irq.strip_ret(f.dname)), call.where(), ok=ok)
        if not ok:
            run.violation(rule, "%s|no-abort" % c02.site_key(f), "after reporting the error, %s can return (line %s) and the caller goes on to read a table" % (f.dname[:140], bad.line), call.where())
