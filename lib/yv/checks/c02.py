"""C02 - unresolvable calls are reported accurately and never dispatched silently.

C02-types : the resolution handlers report the dynamic types of exactly the virtual arguments, in
            order; status and arity constants are the right ones.
C02-abort : after every call of a policy error handler in the library, every normal path reaches
            abort() (or another noreturn call) before any return.
C02-unwind: nothing between method::operator() and the handler swallows a thrown exception."""
import re
from .. import common, callpath, irq, sym, witness, path, walk, eff

DYN = re.compile(r"::dynamic_type<(.*)>\(")
HANDLERS = ("not_implemented_handler", "ambiguous_handler")


def handler_fns(mod, ns):
    out = {}
    for f in mod.funcs.values():
        if f.body and ("method<%s::key," % ns) in f.dname:
            for h in HANDLERS:
                if re.search(r">::%s\(" % h, f.dname):
                    out[h] = f
    return out


def method_ctor(mod, ns):
    for f in mod.funcs.values():
        if f.body and ("method<%s::key," % ns) in f.dname and re.search(r">::method\(\)$", f.dname):
            return f
    return None


def eval_min(S, fn, v, mod):
    """value of load(std::min(&a, &b)) when both operands are resolvable constants."""
    if v[0] == "load" and v[1][0] == "call" and "std::min<" in v[1][1]:
        vals = []
        for a in v[1][2]:
            if a[0] == "alloca":
                # single constant store
                hits = []
                for i in fn.all_insts():
                    if i.op == "store" and S.value(fn, i.ops[1]) == a:
                        hits.append(S.value(fn, i.ops[0]))
                if len(hits) == 1 and hits[0][0] == "const":
                    vals.append(hits[0][1])
            elif a[0] == "global":
                for g in mod.globals.values():
                    if g["dname"] == a[1] and g.get("const") and g.get("init") and g["init"][0] == "c":
                        vals.append(g["init"][1])
        if len(vals) == 2:
            return ("const", min(vals))
    return v


def check_types(run, u, rule):
    mod = u["module"]
    S = sym.Sym(mod, opaque=r"::dynamic_type<")
    lo = mod.layout_by_name.get("yorel::yomm2::resolution_error")
    en = mod.layout_by_name.get("yorel::yomm2::resolution_error::status_type")
    mi = mod.layout_by_name.get("yorel::yomm2::detail::method_info")
    if not lo or not en or not mi:
        raise common.AnalysisBroken("layout of resolution_error / status_type / method_info not found in debug info")
    want_status = {"not_implemented": en["enum"].get("no_definition"), "ambiguous": en["enum"].get("ambiguous")}
    if None in want_status.values() or want_status["not_implemented"] == want_status["ambiguous"]:
        raise common.AnalysisBroken("resolution_error::status_type enumerators changed: %s" % en["enum"])
    for ent in u["index"]:
        ns, shape, pol = ent["ns"], ent["shape"], ent["policy"]
        n = witness.arity(shape)
        vpos = witness.vpositions(shape)
        hs = handler_fns(mod, ns)
        ctor = method_ctor(mod, ns)
        if len(hs) != 2 or ctor is None:
            run.broken.append("handlers / constructor of method %s not found (%s)" % (ns, list(hs)))
            continue
        # which function does the constructor install in which method_info field?
        installed = {}
        for i in ctor.all_insts():
            if i.op == "store":
                v = S.value(ctor, i.ops[0])
                a = S.value(ctor, i.ops[1])
                base, off = sym.split_base(a)
                if v[0] == "func" and base is not None and base[0] == "arg":
                    for fld in ("not_implemented", "ambiguous"):
                        if off == mi["fields"].get(fld):
                            installed[fld] = v[1]
        for fld in ("not_implemented", "ambiguous"):
            hname = installed.get(fld)
            f = None
            for h in hs.values():
                if h.dname == hname:
                    f = h
            what = "method_info::%s of %s shape=%s policy=%s" % (fld, ns, shape, pol)
            if f is None:
                run.instance(rule, what, ctor.where(), ok=False)
                run.violation(rule, "method::method|%s-not-a-handler" % fld,
                              "method constructor installs %s in method_info::%s, not one of the method's resolution handlers" % (hname, fld), ctor.where())
                continue
            problems = check_handler(run, S, mod, f, shape, vpos, n, lo, want_status[fld], fld)
            run.instance(rule, what, f.where(), ok=not problems, detail={"handler": f.dname.split(">::")[-1][:40]})
            mask = "".join("v" if witness.is_virtual(c) else "n" for c in shape)
            kinds = "".join(sorted(set(c for c in shape if witness.is_virtual(c))))
            for code, msg in problems:
                run.violation(rule, "method::%s_handler|%s|%s" % (fld, code, mask if code in ("count", "order", "nonvirtual-used", "arity", "copy") else kinds),
                              "%s (signature shape %s, policy %s)" % (msg, shape, pol), f.where(), detail={"function": f.dname})


def check_handler(run, S, mod, f, shape, vpos, n, lo, want_status, fld):
    problems = []
    src = walk.source_groups(f, has_this=False)
    if len(src) != len(shape):
        run.broken.append("cannot map IR arguments of %s to %d declared parameters" % (f.dname[:100], len(shape)))
        return problems
    err = None       # alloca of the resolution_error
    for i in f.all_insts():
        if i.op == "alloca" and "resolution_error" in (i.get("allocty") or ""):
            err = ("alloca", f.name, i.id, 0)
    if err is None:
        run.broken.append("%s builds no resolution_error in its own body (delegation to a helper is not modelled)" % f.dname[:120])
        return problems
    # stores into the error object
    status = arity = None
    for i in f.all_insts():
        if i.op == "store":
            a = S.value(f, i.ops[1])
            base, off = sym.split_base(a)
            if base == err:
                v = S.value(f, i.ops[0])
                if off == lo["fields"]["status"]:
                    status = v
                elif off == lo["fields"]["arity"]:
                    arity = v
    if status != ("const", want_status):
        problems.append(("status", "handler installed as method_info::%s stores status %s, expected %s" % (fld, sym.show(status) if status else None, want_status)))
    if arity != ("const", n):
        problems.append(("arity", "error.arity is %s, expected the number of virtual parameters %d" % (sym.show(arity) if arity else None, n)))
    # the local id array: first argument of the copy into error.types
    copies = [i for i in f.all_insts() if i.op in ("call", "invoke") and i.callee and re.search(r"std::copy_n<|std::copy<|llvm\.memcpy|std::memcpy", i.callee)]
    arr = None
    for c in copies:
        vals = [S.value(f, o) for o in c.ops]
        dests = [sym.split_base(v) for v in vals]
        if any(b == err and off == lo["fields"]["types"] for b, off in dests if b is not None):
            srcs = [sym.split_base(v)[0] for v in vals if sym.split_base(v)[0] is not None and sym.split_base(v)[0] != err and sym.split_base(v)[0][0] == "alloca"]
            if srcs:
                arr = srcs[0]
                cnt = None
                for v in vals:
                    v2 = eval_min(S, f, v, mod)
                    if v2[0] == "const":
                        cnt = v2[1]
                if "memcpy" in c.callee and cnt is not None:
                    cnt //= 8
                if cnt != min(n, 16):
                    problems.append(("copy", "%s ids are copied into error.types, expected %d" % (cnt, min(n, 16))))
    if arr is None:
        problems.append(("nocopy", "no copy of the collected ids into error.types found"))
        return problems
    stores = {}
    for i in f.all_insts():
        if i.op == "store":
            a = S.value(f, i.ops[1])
            base, off = sym.split_base(a)
            if base == arr:
                stores.setdefault(off, []).append(S.value(f, i.ops[0]))
    # ids collected through the helper `collect_tip<Policy, ArgType>(iter, arg)` (one call per parameter, in order): the helper of a
    # virtual ArgType stores ONE value through the cursor and advances it, the helper of a non-virtual one does nothing. Its stored
    # value is summarised in terms of its own argument and substituted with the handler's actual argument.
    helper_args = set()          # (call inst id, operand index) of arguments handed to a do-nothing helper: not a use
    from .. import vptr as _vp
    j = 0
    for i in f.all_insts():
        if i.op in ("call", "invoke") and i.callee and "::collect_tip<" in i.callee:
            g = mod.funcs.get(i.callee_name) if hasattr(i, "callee_name") else None
            if g is None:
                g = next((x for x in mod.funcs.values() if x.body and x.dname == i.callee), None)
            if g is None:
                run.broken.append("%s: body of %s not in the unit" % (f.dname[:80], i.callee[:80]))
                continue
            Sg = sym.Sym(mod, opaque=r"::dynamic_type<")
            gst = [x for x in g.all_insts() if x.op == "store"]
            # stores through the cursor: value operands that are not the cursor's own advance (a pointer stored back into arg0)
            vals = []
            for x in gst:
                tgt = Sg.value(g, x.ops[1])
                val = Sg.value(g, x.ops[0])
                if tgt == ("arg", 0):
                    continue                 # the cursor itself being advanced
                vals.append(val)
            if not gst:
                helper_args.add(i.id)
                continue
            if len(vals) != 1:
                run.broken.append("%s: the helper %s stores %d values" % (f.dname[:80], i.callee[:60], len(vals)))
                continue
            actual = S.value(f, i.ops[1])
            v0 = vals[0]
            if v0[0] == "call" and v0[2]:
                # the object the id is taken from, in the helper's own terms: does it denote the helper's argument? (temporaries the
                # helper makes on the way - a copy of the smart pointer - are resolved in the helper's context)
                gsrc = walk.source_groups(g, has_this=False)
                pc = walk.param_of(g, v0[2][-1], gsrc, Sg)
                if pc is not None and 1 in gsrc[pc][1]:
                    v0 = (v0[0], v0[1], tuple(v0[2][:-1]) + (actual,))
                else:
                    v0 = _vp.subst_arg(v0, 1, actual)
            else:
                v0 = _vp.subst_arg(v0, 1, actual)
            stores.setdefault(8 * j, []).append(v0)
            j += 1
    offs = sorted(stores)
    if offs != [8 * j for j in range(n)] or any(len(v) != 1 for v in stores.values()):
        problems.append(("count", "ids are stored at array offsets %s, expected one per virtual parameter %s" % (offs, [8 * j for j in range(n)])))
    for j, off in enumerate(offs[:n]):
        v = stores[off][0]
        m = DYN.search(v[1]) if v[0] == "call" else None
        if not m:
            problems.append(("notdyn", "id #%d is %s, not a Policy::dynamic_type(...) of an argument" % (j, sym.show(v)[:160])))
            continue
        cls = m.group(1).strip()
        obj = v[2][-1]
        p = walk.param_of(f, obj, src, S)
        if p is None or p not in vpos:
            problems.append(("nonvirtual", "id #%d is the dynamic type of %s, not of a virtual argument" % (j, "parameter %s" % p if p is not None else sym.show(obj)[:80])))
        elif vpos.index(p) != j:
            problems.append(("order", "id #%d is taken from virtual argument #%d" % (j, vpos.index(p))))
        if re.sub(r"\s*const$", "", cls) not in ("yw::A",):
            problems.append(("pointee", "id #%d is Policy::dynamic_type<%s>: the type of the argument holder, not of the object (class yw::A)" % (j, cls[:80])))
    # no non-virtual parameter may be used
    uses = f.uses()
    for pi, (stem, idxs) in enumerate(src):
        if pi not in vpos:
            for k in idxs:
                def only_spill(x):
                    """the argument is spilled to a stack slot whose address only goes to do-nothing helpers"""
                    if x.op != "store" or not x.ops or x.ops[0] != ["a", k] or len(x.ops) < 2 or x.ops[1][0] != "i":
                        return False
                    slot = ("i", x.ops[1][1])
                    return all(y is x or (y.op in ("call", "invoke") and y.id in helper_args) for y in uses.get(slot, []))
                real = [x for x in uses.get(("a", k), []) if x.id not in helper_args and not only_spill(x)]
                if real:
                    problems.append(("nonvirtual-used", "non-virtual parameter #%d is used by the handler" % pi))
                    break
    return problems


def handler_sites(mod):
    """(fn, call inst, description) for every call of a policy error handler in library code."""
    S = sym.Sym(mod)
    for f in mod.funcs.values():
        if not f.body or not irq.is_lib_name(f.dname):
            continue
        for i in f.all_insts():
            if i.op not in ("call", "invoke"):
                continue
            if i.callee:
                if eff.HANDLER_CALL.search(i.callee):
                    yield f, i, "Policy::error"
            else:
                v = S.value(f, i.get("indirect"))
                if v[0] == "load" and v[1][0] == "global" and v[1][1].endswith("::call_error"):
                    yield f, i, "call_error"


def site_key(f):
    d = f.dname
    d = re.sub(r"w_\w+_\d+::key", "K", d)
    # class/function without template arguments: stable identity of the site
    bn = irq.base_name(d) if irq.param_list(d) is not None else d
    prev = None
    while prev != bn:
        prev = bn
        bn = re.sub(r"<[^<>]*>", "\x00", bn)
    bn = bn.replace("\x00", "<>")
    bn = re.sub(r"^.* (?=yorel::)", "", bn)
    return bn[:160]


def check(run):
    pols = callpath.ALL_POLICIES
    shapes = callpath.shapes_for(run.tier)
    r1, r2, r3 = "C02-types", "C02-abort", "C02-unwind"
    run.rule(r1, "resolution handlers report dynamic types of exactly the virtual arguments, in order, with the right status/arity", floor=2 * len(pols) * len(shapes))
    run.rule(r2, "after every policy error-handler call every normal path reaches abort()/noreturn before returning", floor=len(pols) * (2 * len(shapes) + 4))
    run.rule(r3, "no function between operator() and the handler call catches or terminates on a thrown exception", floor=len(pols) * len(shapes))
    variants = [True] if run.tier == "quick" else [True, False]
    kinds_seen = set()
    for nd in variants:
        units = callpath.build_units(run, pols, shapes, ndebug=nd)
        for u in units:
            mod = u["module"]
            check_types(run, u, r1)
            for f, call, kind in handler_sites(mod):
                ok, bad = path.after_call_reaches(f, call, lambda i: i.op in ("call", "invoke") and i.get("callee") == "abort")
                sk = site_key(f)
                kinds_seen.add(sk)
                run.instance(r2, "%s call in %s" % (kind, re.sub(r"w_\w+_\d+::key", "K", f.dname)), call.where(), ok=ok)
                if not ok:
                    run.violation(r2, "%s|%s" % (sk, kind),
                                  "a path from the %s call in %s returns (at line %s) without calling abort()" % (kind, f.dname[:160], bad.line), call.where())
            # unwind: functions on the call path + handlers
            an = eff.Analyzer(mod)
            # the error path leaves no trace: "later calls still dispatch correctly" after a handler that throws - the method's
            # handlers and the policies' own default handlers write no shared state (the exception may leave at any call)
            r6 = "C02-stateless"
            if r6 not in run.rules:
                run.rule(r6, "the error path (resolution handlers, the policies' default error handlers) writes no shared state: a throwing handler leaves everything as it was", floor=len(pols) * 2)
            ents = [(k, f) for k, f in callpath.entries(mod) if k == "handler"]
            ents += [("default handler", f) for f in mod.funcs.values() if f.body and re.search(
                r"policy::(backward_compatible_error_handler<.*>::default_error_handler|vectored_error<.*>::default_error_handler|throw_error::error|backward_compatible_error_handler<.*>::default_call_error_handler)\(", f.dname)]
            for kind, f in ents:
                e = an.run(f, own_eargs=callpath.own_args(f, irq.param_list(irq.strip_ret(f.dname))))
                wr = [w for w in e.writes if any(a[0] in ("global",) for a in w["prov"]) or any(a[0] == "loaded" and any(b[0] == "global" for b in a[1:]) for a in w["prov"])]
                # writing to the error stream is output, not state
                wr = [w for w in wr if not all(re.search(r"std::(cerr|cout|clog)|detail::cerr|::error_stream|::trace_stream", mod.gd(a[1])) for a in w["prov"] if a[0] == "global")]
                run.instance(r6, "%s %s" % (kind, re.sub(r"w_\w+_\d+::key", "K", f.dname)), f.where(), ok=not wr)
                for w in wr:
                    tgt = ", ".join(eff.fmt_prov(mod, w["prov"]))
                    fq = re.sub(r"<.*", "", irq.strip_ret(w["fn"]))
                    run.violation(r6, "%s|%s" % (fq[:120], w["kind"]), "the error path writes shared state: %s -> %s (in %s): after a handler that throws, the next error (or call) does not see the state the program set up" % (
                        w["kind"], tgt[:160], w["fn"][:140]), w["where"])
            for kind, ent in callpath.entries(mod):
                if kind != "wrapper" or not re.match(r"^w_\w+::call\(", ent.dname):
                    continue
                e = an.run(ent)
                fs = set(e.funcs)
                ns = ent.dname.split("::")[0]
                for h in handler_fns(mod, ns).values():
                    fs.add(h.dname)
                bad = []
                for dn in fs:
                    for f in mod.by_dname.get(dn, []):
                        if not irq.is_lib_name(f.dname) or not f.body:
                            continue
                        for i in f.all_insts():
                            if i.op == "landingpad" and (i.get("clauses", 0) > 0):
                                bad.append((f, i, "catch clause"))
                            if i.op in ("call", "invoke") and (i.get("callee") or "") == "__clang_call_terminate":
                                bad.append((f, i, "noexcept boundary (std::terminate)"))
                run.instance(r3, "call path of %s" % ent.dname, ent.where(), ok=not bad, detail={"functions": len(fs)})
                for f, i, why in bad:
                    run.violation(r3, "%s|%s" % (site_key(f), why), "%s in %s on the path from the method call to the error handler: a throwing handler's exception would not reach the caller" % (why, f.dname[:160]), i.where())
    if run.tier == "thorough":
        n = 0
        rus = callpath.repo_units(run)
        for ru in rus:
            rmod = irq.Module(ru["path"])
            for f, call, kind in handler_sites(rmod):
                ok, bad = path.after_call_reaches(f, call, lambda i: i.op in ("call", "invoke") and i.get("callee") == "abort")
                n += 1
                run.instance(r2, "%s: %s call in %s" % (ru["file"], kind, f.dname), call.where(), ok=ok)
                if not ok:
                    run.violation(r2, "%s|%s" % (site_key(f), kind), "a path from the %s call in %s (unit %s) returns without calling abort()" % (kind, f.dname[:160], ru["file"]), call.where())
        run.units.append({"unit": "repository units (compile database)", "count": len(rus), "handler_call_sites": n})
    from .. import crules
    r4, r5 = "C02-order", "C02-cells"
    run.rule(r4, "the 'more specific' predicate that decides between a definition and the ambiguity cell is the documented table", floor=3)
    run.rule(r5, "an empty best set installs the not-implemented cell, a non-unique one the ambiguity cell, never a definition", floor=12)
    for nd in variants:
        ast, _ = crules.unit(run, ndebug=nd)
        crules.order_rules(run, r4, None, ast)
        crules.cells_rules(run, r5, None, None, ast)
        crules.model_rules(run, r5, ast, parts=("dummies",))
        run.rule("C02-registered", "every definition handed to add_function takes part in resolution: a definition not yet registered is always pushed into the method's catalog", floor=3)
        crules.list_rules(run, "C02-registered", "C02-registered", "C02-registered", "C02-registered", ast)     # the catalogs that decide which definitions exist (incl. idem rules)
        run.rule("C02-best", "best(): an incomparable member is never removed (so that ambiguity is detected)", floor=3)
        crules.best_rules(run, "C02-best", ast)
        if "C02-model" not in run.rules:
            run.rule("C02-model", "what decides 'no / several most specific definitions': applicability by covariant set, every listed base merged, definitions mirrored one to one, every phase run", floor=10)
        crules.applicable_rules(run, "C02-model", ast)
        crules.merge_rules(run, "C02-model", None, ast)
        crules.model_rules(run, "C02-model", ast, parts=("pf", "iter", "vp"))
        crules.phase_rules(run, "C02-model", ast)
    # whether a policy HAS an error handler is asked of the final policy class: a handler mixed in by inheritance (the way the
    # library's own benchmarks add facets) must be seen, or the handlers of its methods abort without reporting anything
    crules.facet_rules(run, "C02-facets")
    run.rule("C02-handlers", "the handler setters return the previous handler; the initial handler of vectored_error<P, Provider> comes from the provider", floor=4)
    crules.handler_api_rules(run, "C02-handlers")
    # pre-generated tables: the decoder rebuilds each method's cells; its error cells must be the ones update numbers
    from . import c13
    from .. import astq, witness as _w
    pols13 = ["release", "debug"]
    src13, _ = _w.call_matrix(pols13, ["rr"], _w.update_block(pols13))
    ast13 = astq.Ast(common.ast_json(run, src13, "c13_ast_nd", ndebug=True, funcs=c13.FUNCS))
    decs = [f for f in ast13.funcs if f.get("body") and "decode_dispatch_data<" in f["name"]]
    augs = [f for f in ast13.funcs if f.get("body") and f["name"].endswith("::augment_methods")]
    if not decs or not augs:
        run.broken.append("decode_dispatch_data / augment_methods not instantiated for the error-cell order rule")
    for f in decs:
        c13.error_cell_order(run, r5, f, augs[0])
    must = ["yorel::yomm2::method<>::not_implemented_handler", "yorel::yomm2::method<>::ambiguous_handler",
            "checked_perfect_hash<>::hash_type_id", "fast_perfect_hash<>::hash_initialize", "compiler<>::augment_classes",
            "compiler<>::augment_methods", "virtual_ptr<>::final", "backward_compatible_error_handler<>::default_error_handler"]
    for m in must:
        if not any(m in k for k in kinds_seen):
            run.broken.append("expected handler call site %s not found (sites seen: %d)" % (m, len(kinds_seen)))
    run.assumptions += ["what std::function / the user's handler does is outside the library; 'handler throws' is modelled as the exceptional edge of the call",
                        "that error cells sit in the right table cells is decided by C01-cells (AST), not here"]
    return run.finish(level="other", explanation="IR-level (post mem2reg) rules over every method instantiation of the witness matrix and every "
                      "handler call site in the library: symbolic summaries of the ids stored into resolution_error, constants stored into "
                      "status/arity, must-reach-abort path query after each handler call, absence of catch/terminate pads on the call path.",
                      extra_cov={"policies": pols, "shapes": shapes, "handler_call_sites": sorted(kinds_seen)})
