"""C12 - generated static offsets equal the offsets installed by update.

C12-layout: every reader and writer of a method's slots-and-strides array uses the documented layout
            slot_k -> cell k, stride_k -> cell arity + k - 1 (k >= 1):
              * generator::write_static_offsets (AST: emission order vs index, as affine forms)
              * compiler::install_gv, decode_dispatch_data, generator::encode_dispatch_data (AST shape)
              * method::resolve with compile-time offsets (IR symbolic walk)
C12-check : with runtime_checks every compile-time offset is cross-checked against the cell the
            installer wrote for the same position, and a mismatch reaches the handler + abort."""
import re
from .. import crules, common, astq, callpath, witness, walk, sym, irq, path, eff

SS = "slots_strides_ptr"


def symname(n):
    k = n.get("k")
    if k == "CXXMemberCallExpr" and (n.get("callee") or "").endswith("::arity"):
        return "arity"
    if k == "MemberExpr" and n.get("member") == "arity":
        return "arity"
    return None


def flatten_shift(n, out):
    """operands of a chain of operator<< in output order."""
    n0 = astq.strip(n)
    if n0 is not None and n0.get("k") == "CXXOperatorCallExpr" and n0.get("oop") == "<<":
        c = n0.get("c") or []
        # c[0] = callee, c[1] = lhs, c[2] = rhs
        flatten_shift(c[1], out)
        out.append(c[2])
    else:
        out.append(n)


def is_ss_subscript(n):
    n = astq.strip(n)
    if n is None or n.get("k") != "ArraySubscriptExpr":
        return None
    base = astq.strip(n["c"][0])
    if base is not None and base.get("k") == "MemberExpr" and base.get("member") in (SS, "slots_strides"):
        return n
    return None


def mentions_ss(n):
    return any(x.get("k") == "MemberExpr" and x.get("member") in (SS, "slots_strides") for x in astq.walk(n))


class Emission:
    def __init__(self):
        self.section = None
        self.count = {}       # affine
        self.items = []       # (section, position affine, index affine, node)
        self.unclassified = []


def emit_walk(n, st, env):
    if n is None:
        return
    k = n.get("k")
    if k == "CompoundStmt":
        for c in n.get("c") or []:
            emit_walk(c, st, env)
        return
    if k == "IfStmt":
        emit_walk(n.get("then"), st, env)
        emit_walk(n.get("else"), st, env)
        return
    if k == "ForStmt":
        init, cond, inc, body = n.get("init"), n.get("cond"), n.get("inc"), n.get("body")
        var = lo = hi = None
        if init and init.get("k") == "DeclStmt" and len(init["decls"]) == 1 and init["decls"][0].get("init") is not None:
            var = init["decls"][0]
            lo = astq.affine(init["decls"][0]["init"], env, symname)
        c0 = astq.strip(cond) if cond else None
        if c0 is not None and c0.get("k") == "BinaryOperator" and c0.get("op") in ("<", "!=") and var is not None:
            lhs = astq.strip(c0["c"][0])
            if lhs.get("k") == "DeclRefExpr" and lhs["ref"]["did"] == var["did"]:
                hi = astq.affine(c0["c"][1], env, symname)
        i0 = astq.strip(inc) if inc else None
        okinc = i0 is not None and i0.get("k") == "UnaryOperator" and i0.get("op") == "++"
        if var is None or lo is None or hi is None or not okinc:
            if mentions_ss(n):
                st.unclassified.append(n)
            return
        env2 = dict(env)
        isym = var["name"]
        env2[var["did"]] = {isym: 1}
        sub = Emission()
        sub.section = st.section
        sub.count = {}
        emit_walk(body, sub, env2)
        st.unclassified += sub.unclassified
        if sub.section != st.section and sub.items:
            st.unclassified.append(n)     # section switches inside a loop body: not modelled
            return
        per = len(sub.items)
        for sec, pos, idx, node, _a, _b, _c in sub.items:
            # position of this emission in iteration i: count_before + (i - lo) * per + pos
            p = astq.aff_add(st.count, astq.aff_add(astq.aff_scale(astq.aff_add({isym: 1}, lo, -1), per), pos))
            st.items.append((sec, p, idx, node, isym, lo, hi))
        st.count = astq.aff_add(st.count, astq.aff_scale(astq.aff_add(hi, lo, -1), per))
        return
    if k in ("WhileStmt", "DoStmt", "CXXForRangeStmt"):
        if mentions_ss(n):
            st.unclassified.append(n)
        return
    if k == "DeclStmt":
        for d in n.get("decls", []):
            if d.get("init") is not None and mentions_ss(d["init"]):
                st.unclassified.append(n)
        return
    # expression statement
    ops = []
    flatten_shift(n, ops)
    if len(ops) == 1:
        if mentions_ss(n):
            st.unclassified.append(n)
        return
    for o in ops:
        o0 = astq.strip(o)
        if o0 is None:
            continue
        if o0.get("k") == "StringLiteral":
            s = o0.get("s") or ""
            if "strides[]" in s:
                st.section, st.count = "strides", {}
            elif "slots[]" in s:
                st.section, st.count = "slots", {}
            continue
        sub = is_ss_subscript(o0)
        if sub is not None:
            idx = astq.affine(sub["c"][1], env, symname)
            st.items.append((st.section, dict(st.count), idx, sub, None, None, None))
            st.count = astq.aff_add(st.count, {1: 1})
        elif mentions_ss(o0):
            st.unclassified.append(o0)


def generator_rule(run, rule, ast):
    fs = [f for f in ast.funcs if f.get("body") and f["name"].endswith("generator::write_static_offsets") and len(f["params"]) == 2]
    if not fs:
        raise common.AnalysisBroken("generator::write_static_offsets(const method_info&, std::ostream&) not found")
    f = fs[0]
    # width of what is printed: static offsets are std::size_t; an integer inserted into the stream through a narrower
    # type (in the function or a lambda nested in it) is printed modulo 2^width
    NARROW = r"^(const )?(std::)?(u?int(8|16|32)_t|unsigned short|short|unsigned int|int|unsigned char|signed char|char|uint_least(8|16|32)_t|uint_fast8_t)$"
    nins = 0
    for n in astq.walk(f["body"]):
        if n.get("k") == "CXXOperatorCallExpr" and n.get("oop") == "<<" and len(n.get("c") or []) >= 3:
            v = astq.strip(n["c"][2])
            t = (v.get("t") or "") if v is not None else ""
            if v is None or v.get("k") in ("StringLiteral", "CharacterLiteral") or "char" in t and "*" in t:
                continue
            if re.search(r"(unsigned long|size_t|unsigned long long)$", t):
                nins += 1
            elif re.match(NARROW, t):
                nins += 1
                run.instance(rule, "generator::write_static_offsets: integers are printed at full width", (f["file"], n["l"]), ok=False)
                run.violation(rule, "generator::write_static_offsets|width", "an integer of type `%s` is inserted into the output: offsets of 2^%s or more are printed truncated" % (
                    t, (re.search(r"(8|16|32)", t).group(1) if re.search(r"(8|16|32)", t) else "8" if "char" in t else "16" if "short" in t else "32")), (f["file"], n["l"]))
    if nins:
        run.instance(rule, "generator::write_static_offsets: integers are printed at full width", (f["file"], f["line"]), ok=True)
    # the specialisation is written for the method the offsets were read from: the name put after `static_offsets<` is the
    # demangled type of that method, untransformed (a name with, say, the policy argument cut off designates another method)
    names = [d for n in astq.walk(f["body"]) if n.get("k") == "DeclStmt" for d in n["decls"] if d.get("init") is not None and any(
        x.get("k") == "CallExpr" and (x.get("callee") or "").endswith("core::demangle") for x in astq.walk(d["init"]))]
    if len(names) != 1:
        run.broken.append("generator::write_static_offsets: the demangled method name is not a single local (%d)" % len(names))
    else:
        nd = names[0]

        def root_call(e):
            e = astq.strip(e)
            while e is not None and e.get("k") in ("CXXConstructExpr", "CXXBindTemporaryExpr", "MaterializeTemporaryExpr") and len(e.get("c") or []) == 1:
                e = astq.strip(e["c"][0])
            return e
        r0 = root_call(nd["init"])
        pure = r0 is not None and r0.get("k") == "CallExpr" and (r0.get("callee") or "").endswith("core::demangle") and any(x.get("k") == "MemberExpr" and x.get("member") == "method_type" for x in astq.walk(r0))
        changed = [n for n in astq.walk(f["body"]) if ((n.get("k") == "BinaryOperator" and n.get("op") == "=") or (n.get("k") == "CXXOperatorCallExpr" and n.get("oop") in ("=", "+="))) and
                   astq.strip(n["c"][0] if n.get("k") == "BinaryOperator" else n["c"][1]).get("k") == "DeclRefExpr" and astq.strip(n["c"][0] if n.get("k") == "BinaryOperator" else n["c"][1])["ref"].get("did") == nd["did"]]
        changed += [n for n in astq.walk(f["body"]) if n.get("k") == "CXXMemberCallExpr" and not n.get("cconst") and astq.strip(n["c"][0]["c"][0] if n["c"][0].get("c") else n["c"][0]).get("k") == "DeclRefExpr" and
                    astq.strip(n["c"][0]["c"][0])["ref"].get("did") == nd["did"] and re.search(r"::(erase|replace|resize|assign|append|insert|pop_back|clear)$", n.get("callee") or "")]
        okn = pure and not changed
        run.instance(rule, "generator::write_static_offsets: the specialisation is named by the demangled type of the method itself", (f["file"], nd.get("l", f["line"])), ok=okn)
        if not okn:
            run.violation(rule, "generator::write_static_offsets|method-name", "the name written after `static_offsets<` is not the untouched demangled type of the method (%s): the offsets are attached to another method" % (
                "it is rewritten by `%s`" % astq.text(changed[0])[:70] if changed else "initialised from `%s`" % astq.text(r0)[:70]), (f["file"], (changed[0] if changed else nd).get("l", f["line"])))
    st = Emission()
    emit_walk(f["body"], st, {})
    if st.unclassified:
        run.broken.append("generator::write_static_offsets reads the slots/strides array in a construct the emission model does not classify (line %s)" % st.unclassified[0].get("l"))
    if len(st.items) < 3:
        run.broken.append("generator::write_static_offsets: only %d emissions of slots/strides cells recognised" % len(st.items))
    for sec, pos, idx, node, isym, lo, hi in st.items:
        exp = pos if sec == "slots" else astq.aff_add(pos, {"arity": 1})
        ok = idx is not None and sec in ("slots", "strides") and idx == exp
        what = "emitted %s[%s] reads slots_strides[%s]" % (sec, astq.aff_show(pos), astq.aff_show(idx))
        run.instance(rule, "generator::write_static_offsets: " + what, (f["file"], node["l"]), ok=ok)
        if not ok:
            run.violation(rule, "generator::write_static_offsets|%s" % sec,
                          "%s; the installed layout keeps %s_k in cell %s" % (what, sec[:-1], astq.aff_show(exp)), (f["file"], node["l"]))


def who_installs_rule(run, rule, ast):
    """the methods' offsets are global state that calls read: they are written when tables are INSTALLED (install_gv, with the
    v-tables they index), never while a registry is merely compiled - compile() of a changed registry, without installation, must
    leave the installed offsets and the installed v-tables in agreement."""
    writers = {}
    for f in ast.funcs:
        if not f.get("body") or not re.search(r"compiler<.*>::\w+$", f["name"]):
            continue
        for n in astq.walk(f["body"]):
            hit = False
            if n.get("k") == "CallExpr" and re.match(r"^std::(copy|copy_n|transform)<", n.get("callee") or "") and any(x.get("k") == "MemberExpr" and x.get("member") == SS for x in astq.walk(n)):
                hit = True
            if n.get("k") == "BinaryOperator" and n.get("op") == "=" and any(x.get("k") == "MemberExpr" and x.get("member") == SS for x in astq.walk(n["c"][0])):
                hit = True
            if hit:
                writers.setdefault(f["name"].rsplit("::", 1)[1], (f, n))
    if not writers:
        return
    bad = {k: v for k, v in writers.items() if k not in ("install_gv", "install_global_tables")}
    run.instance(rule, "the methods' slots and strides are written by the installation step only (%s)" % sorted(writers), None, ok=not bad)
    for k, (f, n) in bad.items():
        run.violation(rule, "compiler::%s|installs-offsets" % k, "%s writes the methods' slots and strides: compiling a changed registry without installing it (a dry run, or re-installing an older result) leaves the installed v-tables with offsets that belong to other tables" % k, (f["file"], n["l"]))


def installer_rule(run, rule, ast):
    """install_gv: slots copied to the start of the array, strides right after them; uni-methods: cell 0."""
    who_installs_rule(run, rule, ast)
    for f in [f for f in ast.funcs if f.get("body") and f["name"].endswith("::install_gv")]:
        copies = []
        vardefs = {}
        for n in astq.walk(f["body"]):
            if n.get("k") == "DeclStmt":
                for d in n["decls"]:
                    if d.get("init") is not None:
                        vardefs[d["did"]] = d["init"]
        for n in astq.walk(f["body"]):
            if n.get("k") == "CallExpr" and (n.get("callee") or "").startswith("std::copy<"):
                copies.append(n)

        def src_member(n):
            # <x>.slots.begin() -> 'slots'
            for x in astq.walk(n):
                if x.get("k") == "MemberExpr" and x.get("member") in ("slots", "strides"):
                    return x["member"]
            return None
        ss_copies = []
        for c in copies:
            args = c["c"][1:]
            dest = astq.strip(args[2])
            ss_copies.append((src_member(args[0]), src_member(args[1]), dest, c))
        first = [c for c in ss_copies if c[2] is not None and c[2].get("k") == "MemberExpr" and c[2].get("member") == SS]
        if not first:
            # no block copy into the array: an element-wise installer - check the indexed stores instead
            stores = []
            for n in astq.walk(f["body"]):
                if n.get("k") == "BinaryOperator" and n.get("op") == "=":
                    sub = is_ss_subscript(n["c"][0])
                    if sub is not None:
                        rhs = astq.strip(n["c"][1])
                        src = None
                        j = None
                        if rhs is not None and rhs.get("k") == "CXXOperatorCallExpr" and rhs.get("oop") == "[]":
                            mem = [x["member"] for x in astq.walk(rhs["c"][1]) if x.get("k") == "MemberExpr" and x.get("member") in ("slots", "strides")]
                            src = mem[0] if mem else None
                            j = astq.affine(rhs["c"][2], {}, symname)
                        stores.append((astq.affine(sub["c"][1], {}, symname), src, j, n))
            if not any(s0[1] == "strides" for s0 in stores):
                # a cursor-style installer: `auto it = ...slots_strides_ptr; *it++ = m.slots[..]; ...`
                cw = cursor_installer(f)
                if cw is None:
                    run.broken.append("%s: neither a block copy, indexed stores nor cursor writes of slots and strides into the method's array were recognised" % f["name"][-60:])
                    continue
                for pos, src, j, n in cw:
                    exp = j if src == "slots" else astq.aff_add(j, {"arity": 1})
                    okx = pos == exp
                    run.instance(rule, "%s: %s[%s] written to cell %s" % (f["name"][-60:], src, astq.aff_show(j), astq.aff_show(pos)), (f["file"], n["l"]), ok=okx)
                    if not okx:
                        run.violation(rule, "compiler::install_gv|%s-cell" % src, "install_gv writes %s[%s] to cell %s of the array; the layout (and every reader) needs cell %s" % (src, astq.aff_show(j), astq.aff_show(pos), astq.aff_show(exp)), (f["file"], n["l"]))
                continue
            for idx, src, j, n in stores:
                if src is None or idx is None or j is None:
                    run.broken.append("%s: store into the slots-and-strides array not classifiable (line %s)" % (f["name"][-60:], n["l"]))
                    continue
                exp = j if src == "slots" else astq.aff_add(astq.aff_add(j, {"arity": 1}), {})
                okx = idx == exp
                run.instance(rule, "%s: %s[%s] stored in cell %s" % (f["name"][-60:], src, astq.aff_show(j), astq.aff_show(idx)), (f["file"], n["l"]), ok=okx)
                if not okx:
                    run.violation(rule, "compiler::install_gv|%s-cell" % src, "install_gv stores %s[%s] in cell %s of the array; the layout needs cell %s" % (src, astq.aff_show(j), astq.aff_show(idx), astq.aff_show(exp)), (f["file"], n["l"]))
            continue
        ok1 = len(first) == 1 and first[0][0] == "slots" and first[0][1] == "slots"
        run.instance(rule, "%s: slots copied to the start of the slots-and-strides array" % f["name"][-60:], (f["file"], f["line"]), ok=ok1)
        if not ok1:
            run.violation(rule, "compiler::install_gv|slots-first", "install_gv does not copy m.slots to the start of slots_strides_ptr", (f["file"], f["line"]))
            continue
        # second copy: destination is the variable initialised with the first copy's result
        res_var = None
        for did, init in vardefs.items():
            if astq.strip(init) is not None and astq.strip(init).get("id") == first[0][3]["id"]:
                res_var = did
        second = [c for c in ss_copies if c[2] is not None and c[2].get("k") == "DeclRefExpr" and c[2]["ref"]["did"] == res_var]
        ok2 = res_var is not None and len(second) == 1 and second[0][0] == "strides" and second[0][1] == "strides"
        run.instance(rule, "%s: strides copied right after the slots" % f["name"][-60:], (f["file"], f["line"]), ok=ok2)
        if not ok2:
            run.violation(rule, "compiler::install_gv|strides-after-slots", "install_gv does not copy m.strides to the position returned by the copy of m.slots", (f["file"], f["line"]))
        # uni-method branch
        uni = []
        for n in astq.walk(f["body"]):
            if n.get("k") == "BinaryOperator" and n.get("op") == "=":
                sub = is_ss_subscript(n["c"][0])
                if sub is not None:
                    uni.append((astq.affine(sub["c"][1]), n))
        for idx, n in uni:
            rhs = astq.strip(n["c"][1])
            ridx = None
            if rhs is not None and rhs.get("k") == "CXXOperatorCallExpr" and rhs.get("oop") == "[]":
                ridx = astq.affine(rhs["c"][2])
            ok3 = idx == {} and ridx == {} and any(x.get("member") == "slots" for x in astq.walk(rhs))
            run.instance(rule, "%s: uni-method slot stored in cell 0" % f["name"][-60:], (f["file"], n["l"]), ok=ok3)
            if not ok3:
                run.violation(rule, "compiler::install_gv|uni-cell", "install_gv stores a uni-method's slot as %s = %s" % (astq.text(n["c"][0]), astq.text(n["c"][1])), (f["file"], n["l"]))


def cursor_installer(f):
    """writes `*cur++ = m.slots[j]` / `m.strides[j]` through a cursor initialised with slots_strides_ptr:
    -> [(cell position affine, 'slots'|'strides', source index affine, node)] or None when not in that form."""
    cur = None
    for n in astq.walk(f["body"]):
        if n.get("k") == "DeclStmt":
            for d in n["decls"]:
                i0 = astq.strip(d.get("init")) if d.get("init") is not None else None
                if i0 is not None and i0.get("k") == "MemberExpr" and i0.get("member") == SS:
                    cur = d["did"]
    if cur is None:
        return None
    out = []
    bad = []

    def is_write(n):
        if n.get("k") != "BinaryOperator" or n.get("op") != "=":
            return None
        l = astq.strip(n["c"][0])
        if l.get("k") == "UnaryOperator" and l.get("op") == "*":
            inc = astq.strip(l["c"][0])
            if inc.get("k") == "UnaryOperator" and inc.get("op") == "++" and inc.get("postfix") and astq.strip(inc["c"][0]).get("k") == "DeclRefExpr" and astq.strip(inc["c"][0])["ref"]["did"] == cur:
                rhs = astq.strip(n["c"][1])
                if rhs.get("k") == "CXXOperatorCallExpr" and rhs.get("oop") == "[]":
                    mem = [x["member"] for x in astq.walk(rhs["c"][1]) if x.get("k") == "MemberExpr" and x.get("member") in ("slots", "strides")]
                    if mem:
                        return mem[0], rhs["c"][2]
        return None

    def walk(n, count, env):
        k = n.get("k")
        if k == "CompoundStmt":
            for c in n.get("c") or []:
                count = walk(c, count, env)
            return count
        if k == "IfStmt":
            c1 = walk(n["then"], count, env) if n.get("then") else count
            return c1
        if k == "ForStmt":
            init = n.get("init")
            if not (init and init.get("k") == "DeclStmt" and len(init["decls"]) == 1):
                if any(is_write(x) for x in astq.walk(n)):
                    bad.append(n)
                return count
            var = init["decls"][0]
            lo = astq.affine(var.get("init"), env, symname)
            c0 = astq.strip(n.get("cond"))
            hi = astq.affine(c0["c"][1], env, symname) if c0 is not None and c0.get("k") == "BinaryOperator" and c0.get("op") == "<" else None
            if lo is None or hi is None:
                if any(is_write(x) for x in astq.walk(n)):
                    bad.append(n)
                return count
            env2 = dict(env)
            env2[var["did"]] = {var["name"]: 1}
            writes = [(x, is_write(x)) for x in (n["body"].get("c") or [n["body"]]) if is_write(x)]
            per = len(writes)
            for t, (x, (src, jn)) in enumerate(writes):
                pos = astq.aff_add(count, astq.aff_add(astq.aff_scale(astq.aff_add({var["name"]: 1}, lo, -1), per), {1: t} if t else {}))
                out.append((pos, src, astq.affine(jn, env2, symname), x))
            return astq.aff_add(count, astq.aff_scale(astq.aff_add(hi, lo, -1), per))
        w = is_write(n)
        if w:
            out.append((dict(count), w[0], astq.affine(w[1], env, symname), n))
            return astq.aff_add(count, {1: 1})
        return count
    # the statements that follow the cursor's declaration, in its own block
    for n in astq.walk(f["body"]):
        if n.get("k") == "CompoundStmt":
            cs = n.get("c") or []
            for i, s0 in enumerate(cs):
                if s0.get("k") == "DeclStmt" and any(d["did"] == cur for d in s0["decls"]):
                    count = {}
                    for s1 in cs[i + 1:]:
                        count = walk(s1, count, {})
    if bad or not out or any(o[2] is None for o in out):
        return None
    return out


def _cursor_rule(run, rule, f, call, cnt, env):
    """the read cursor over the packed offsets advances, per method, by exactly the number of cells copied from it: the next
    method's cells start where this one's end (anything else installs a neighbour's offsets from the second method on)"""
    src = astq.strip(call["c"][1])
    while src is not None and src.get("k") in ("UnaryOperator",) and src.get("op") in ("+",):
        src = astq.strip(src["c"][0])
    if src is None or src.get("k") != "DeclRefExpr" or src["ref"].get("storage") != "local":
        run.broken.append("decode_dispatch_data: the source of the block copy is not a local cursor (%s)" % astq.text(call["c"][1])[:60])
        return
    did = src["ref"]["did"]
    byid, parent = astq.index_nodes(f)
    # the compound statement the copy belongs to
    x = call
    while x is not None and not (parent.get(x["id"]) is not None and parent[x["id"]].get("k") == "CompoundStmt"):
        x = parent.get(x["id"])
    blk = parent.get(x["id"]) if x is not None else None
    if blk is None:
        run.broken.append("decode_dispatch_data: block of the slots-and-strides copy not found")
        return
    is_cur = lambda e: (astq.strip(e) or {}).get("k") == "DeclRefExpr" and astq.strip(e)["ref"]["did"] == did
    total, unknown, nested = {}, [], []
    for st in blk.get("c") or []:
        for n in astq.walk(st):
            adv = None
            if n.get("k") == "UnaryOperator" and n.get("op") in ("++", "--") and is_cur(n["c"][0]):
                adv = {1: 1 if n["op"] == "++" else -1}
            elif n.get("k") == "CompoundAssignOperator" and n.get("op") in ("+=", "-=") and is_cur(n["c"][0]):
                a = astq.affine(n["c"][1], env, symname)
                adv = None if a is None else (a if n["op"] == "+=" else astq.aff_scale(a, -1))
                if a is None:
                    unknown.append(n)
            elif n.get("k") == "BinaryOperator" and n.get("op") == "=" and is_cur(n["c"][0]):
                r = astq.strip(n["c"][1])
                a = None
                if r is not None and r.get("k") == "CallExpr" and re.match(r"^std::next<", r.get("callee") or "") and len(r["c"]) == 3 and is_cur(r["c"][1]):
                    a = astq.affine(r["c"][2], env, symname)
                elif r is not None and r.get("k") == "BinaryOperator" and r.get("op") == "+":
                    if is_cur(r["c"][0]):
                        a = astq.affine(r["c"][1], env, symname)
                    elif is_cur(r["c"][1]):
                        a = astq.affine(r["c"][0], env, symname)
                if a is None:
                    unknown.append(n)
                adv = a
            elif n.get("k") == "CallExpr" and re.match(r"^std::advance<", n.get("callee") or "") and len(n["c"]) == 3 and is_cur(n["c"][1]):
                adv = astq.affine(n["c"][2], env, symname)
                if adv is None:
                    unknown.append(n)
            else:
                continue
            if adv is not None:
                if astq.strip(st) is not n and st is not n:
                    # an advance below a condition or inside a loop
                    pk = [q.get("k") for q in _ancestors(parent, n, st)]
                    if any(k in ("IfStmt", "WhileStmt", "ForStmt", "DoStmt", "CXXForRangeStmt", "ConditionalOperator", "SwitchStmt") for k in pk):
                        nested.append(n)
                        continue
                total = astq.aff_add(total, adv)
    if unknown or nested:
        run.broken.append("decode_dispatch_data: the packed-offsets cursor is advanced in a way the rule does not model (%s)" % astq.text((unknown + nested)[0])[:60])
        return
    # the packed offsets share a union with the v-tables the decoder expands IN PLACE: they are read before that expansion starts
    from . import c13
    try:
        cloop, _ = c13.decoder_class_loop(f)
    except common.AnalysisBroken:
        cloop = None
    if cloop is not None:
        top = f["body"].get("c") or []
        def top_index(n):
            for k, st in enumerate(top):
                if any(x is n for x in astq.walk(st)):
                    return k
            return None
        ic, il = top_index(call), top_index(cloop)
        if ic is None or il is None:
            run.broken.append("decode_dispatch_data: position of the offsets copy / the in-place expansion not found")
        else:
            okp = ic < il
            run.instance(rule, "decode_dispatch_data: the packed offsets are copied out before the v-tables are expanded in place over them", (f["file"], call["l"]), ok=okp)
            if not okp:
                run.violation(rule, "decode_dispatch_data|offsets-after-expansion", "the slots and strides are copied from the encoded area after the v-tables have been expanded in place over it (the two share a union): the methods receive overwritten words as offsets", (f["file"], call["l"]))
    total = {k: v for k, v in total.items() if v}
    ok = total == {k: v for k, v in (cnt or {}).items() if v}
    run.instance(rule, "decode_dispatch_data: the packed-offsets cursor advances by the number of cells copied (per method)", (f["file"], call["l"]), ok=ok, detail={"copied": astq.aff_show(cnt or {}), "advance": astq.aff_show(total)})
    if not ok:
        run.violation(rule, "decode_dispatch_data|cursor-advance", "per method %s cells are copied from the packed offsets but the cursor advances by %s: every method after a multi-method gets its neighbour's offsets" % (
            astq.aff_show(cnt or {}), astq.aff_show(total)), (f["file"], call["l"]))


def _ancestors(parent, n, stop):
    out = []
    x = parent.get(n["id"])
    while x is not None and x is not stop:
        out.append(x)
        x = parent.get(x["id"])
    if x is stop:
        out.append(stop)
    return out


def codec_rule(run, rule, ast, encoder=True):
    """decode copies 2*arity-1 cells per method to the start of the array; the encoder emits slots then strides."""
    for f in [f for f in ast.funcs if f.get("body") and "decode_dispatch_data<" in f["name"]]:
        vardefs = {}
        for n in astq.walk(f["body"]):
            if n.get("k") == "DeclStmt":
                for d in n["decls"]:
                    if d.get("init") is not None:
                        vardefs[d["did"]] = d["init"]
        hits = []
        for n in astq.walk(f["body"]):
            if n.get("k") == "CallExpr" and (n.get("callee") or "").startswith("std::copy_n<"):
                args = n["c"][1:]
                dest = astq.strip(args[2])
                if dest is not None and dest.get("k") == "MemberExpr" and dest.get("member") == SS:
                    env = {did: astq.affine(init, {}, symname) for did, init in vardefs.items() if astq.affine(init, {}, symname) is not None}
                    cnt = astq.affine(args[1], env, symname)
                    hits.append((cnt, n))
        if not hits:
            run.broken.append("%s: no block copy into the method's slots-and-strides array recognised" % f["name"][:70])
            continue
        ok = len(hits) == 1 and hits[0][0] == {"arity": 2, 1: -1}
        if len(hits) == 1:
            _cursor_rule(run, rule, f, hits[0][1], hits[0][0], env)
        run.instance(rule, "%s: copies 2*arity-1 cells to the start of the method's array" % f["name"][:70], (f["file"], f["line"]), ok=ok)
        if not ok:
            run.violation(rule, "decode_dispatch_data|block-copy", "decode_dispatch_data copies %s cells into slots_strides_ptr (expected 2*arity - 1)" % (
                [astq.aff_show(h[0]) for h in hits]), (f["file"], hits[0][1]["l"] if hits else f["line"]))
    for f in [f for f in ast.funcs if encoder and f.get("body") and "generator::encode_dispatch_data<" in f["name"] and len(f["params"]) == 3]:
        encoder_layout_rule(run, rule, f)


def stream_state_rule(run, rule, f):
    """a function that switches the caller's stream to hexadecimal leaves it with showbase on (or switches back to decimal):
    numbers written to the same stream afterwards - the static offsets - are then still valid C++ literals"""
    manip = []
    for n in astq.walk(f["body"]):
        if n.get("k") == "CXXOperatorCallExpr" and n.get("oop") == "<<":
            for x in astq.walk(n["c"][2] if len(n.get("c") or []) > 2 else n):
                nm = (astq.refname(x) or "")
                if nm in ("std::hex", "std::dec", "std::oct", "std::showbase", "std::noshowbase"):
                    manip.append((x.get("l", n["l"]), nm.split("::")[1], n))
    if not manip:
        return
    manip.sort(key=lambda t: t[0])
    base, show = "dec", None
    for l, m, _ in manip:
        if m in ("hex", "dec", "oct"):
            base = m
        else:
            show = (m == "showbase")
    ok = base == "dec" or show is True
    run.instance(rule, "%s: the stream is left decimal, or hexadecimal with showbase" % f["name"].split("yomm2::")[-1][:60], (f["file"], manip[-1][0]), ok=ok)
    if not ok:
        run.violation(rule, "generator::%s|stream-state" % f["name"].split("::")[-1].split("<")[0], "the function leaves the caller's stream in %s without showbase: static offsets written to it afterwards are printed as bare hexadecimal digits (10 reads `a`, 16 reads `10`)" % base, (f["file"], manip[-1][0]))


def encoder_layout_rule(run, rule, f):
    stream_state_rule(run, rule, f)
    """the encoder emits, per method, ALL its slots and then ALL its strides (the decoder block-copies the 2*arity-1 words to the
    start of slots_strides, whose layout is slots-then-strides): emissions are whole-range algorithms or element loops over one of
    the two vectors; a loop that emits a slot and a stride in the same iteration interleaves them (identical up to arity 2 only)."""
    byid, parent = astq.index_nodes(f)
    ems = []
    for n in astq.walk(f["body"]):
        kind = None
        if n.get("k") == "CallExpr" and re.match(r"^std::(transform|copy|copy_n|for_each)<", n.get("callee") or ""):
            mem = [x["member"] for x in astq.walk(n["c"][1]) if x.get("k") == "MemberExpr" and x.get("member") in ("slots", "strides", "dispatch_table")]
            if mem and mem[0] in ("slots", "strides"):
                kind = mem[0]
        elif n.get("k") == "CXXOperatorCallExpr" and n.get("oop") == "<<" and len(n.get("c") or []) >= 3:
            mem = [x["member"] for x in astq.walk(n["c"][2]) if x.get("k") == "MemberExpr" and x.get("member") in ("slots", "strides")]
            if mem and any(x.get("k") == "CXXOperatorCallExpr" and x.get("oop") == "[]" for x in astq.walk(n["c"][2])):
                kind = mem[0]
        if kind:
            # an element-wise emission (`os << v[i]`) belongs to its innermost loop; a whole-range algorithm iterates by itself
            loops = crules._enclosing(parent, n, ("ForStmt", "WhileStmt", "CXXForRangeStmt")) if n.get("k") == "CXXOperatorCallExpr" else []
            ems.append((kind, n, loops[0] if loops else None))
    if not ems:
        run.broken.append("%s: emission of slots / strides not recognised" % f["name"][:70])
        return
    kinds = [k for k, _, _ in ems]
    inter = [(a, b) for a in ems for b in ems if a[0] == "slots" and b[0] == "strides" and a[2] is not None and a[2] is b[2]]
    order_ok = "slots" in kinds and "strides" in kinds and max(i for i, k in enumerate(kinds) if k == "slots") < min(i for i, k in enumerate(kinds) if k == "strides") and \
        max(e[1]["l"] for e in ems if e[0] == "slots") <= min(e[1]["l"] for e in ems if e[0] == "strides")
    ok = order_ok and not inter
    run.instance(rule, "%s: emits a method's slots, then its strides" % f["name"][:70], (f["file"], f["line"]), ok=ok)
    if inter:
        run.violation(rule, "generator::encode_dispatch_data|interleaved", "encode_dispatch_data emits a slot and a stride in the same loop iteration (lines %s, %s): slot_k and stride_k alternate, the decoder and the installed layout keep all slots first" % (
            inter[0][0][1]["l"], inter[0][1][1]["l"]), (f["file"], inter[0][1][1]["l"]))
    elif not ok:
        run.violation(rule, "generator::encode_dispatch_data|order", "encode_dispatch_data emits %s (expected slots then strides)" % kinds, (f["file"], f["line"]))


def check_rule(run, rule, u):
    """IR: in resolve_* of methods with static offsets under a runtime_checks policy."""
    mod = u["module"]
    S = sym.Sym(mod)
    for ent in u["index"]:
        if not ent.get("static"):
            continue
        ns, shape = ent["ns"], ent["shape"]
        n = witness.arity(shape)
        ss = walk.ss_global(mod, ns)
        found = {}
        for f in mod.funcs.values():
            if not f.body or ("method<%s::key," % ns) not in f.dname or not re.search(r">::resolve_(uni|multi_first|multi_next)<", f.dname):
                continue
            for i in f.all_insts():
                if i.op in ("call", "invoke") and i.callee and "::check_static_offset<" in i.callee:
                    kind = "slot" if "static_slot_error" in i.callee else ("stride" if "static_stride_error" in i.callee else "?")
                    vals = [S.value(f, o) for o in i.ops[1:3]]
                    found.setdefault(kind, []).append((vals, i, f))
        # sibling cross-check: every call site hands over (compile-time offset, installed cell) in the SAME order - the callee names its
        # parameters `actual` and `expected` and reports them under those names
        orders = {}
        for kind, sites in found.items():
            for vals, i, f in sites:
                o = "static-first" if vals and vals[0] is not None and vals[0][0] == "const" else "installed-first" if vals and len(vals) > 1 and vals[1] is not None and vals[1][0] == "const" else "?"
                orders.setdefault(o, []).append((i, f))
        if len([o for o in orders if o != "?"]) > 1:
            minority = min((o for o in orders if o != "?"), key=lambda o: len(orders[o]))
            i0, f0 = orders[minority][0]
            run.instance(rule, "%s shape=%s: all check_static_offset call sites pass (compile-time, installed) in the same order" % (ns, shape), None, ok=False)
            run.violation(rule, "method::resolve|check-argument-order|arity%d" % n, "the call sites of check_static_offset disagree on the order of (compile-time offset, installed cell): %s - the error then reports the two numbers under swapped names" % (
                {o: len(v) for o, v in orders.items()}), i0.where())
        elif found:
            run.instance(rule, "%s shape=%s: all check_static_offset call sites pass (compile-time, installed) in the same order" % (ns, shape), None, ok=True)
        want = [("slot", k, 8 * k, ent["slots"][k]) for k in range(n)] + [("stride", k, 8 * (n + k - 1), ent["strides"][k - 1]) for k in range(1, n)]
        for kind, k, off, const in want:
            cell = ("load", sym.mk_add([("global", ss), ("const", off)]))
            ok = any(set(map(repr, vals)) == {repr(cell), repr(("const", const))} for vals, _, _ in found.get(kind, []))
            run.instance(rule, "%s shape=%s: static %s #%d cross-checked against installed cell %d" % (ns, shape, kind, k, off // 8), None, ok=ok)
            if not ok:
                got = [[sym.show(v) for v in vals] for vals, _, _ in found.get(kind, [])]
                site = found.get(kind, [(None, None, None)])[0]
                run.violation(rule, "method::resolve|static-%s-check|arity%d" % (kind, n),
                              "with runtime checks the compile-time %s of virtual argument #%d is not compared with installed cell %d of slots_strides (comparisons present: %s)" % (kind, k, off // 8, got),
                              site[1].where() if site[1] is not None else None)


def check_static_offset_rule(run, rule, mod):
    """check_static_offset: the error path is taken exactly when actual != expected."""
    n = 0
    for f in mod.funcs.values():
        if not f.body or "::check_static_offset<" not in f.dname:
            continue
        n += 1
        handler = [i for i in f.all_insts() if i.op in ("call", "invoke") and i.callee and eff.HANDLER_CALL.search(i.callee)]
        cmps = [i for i in f.all_insts() if i.op == "icmp" and {tuple(o) for o in i.ops} == {("a", 1), ("a", 2)}]
        ok = bool(handler) and len(cmps) == 1
        if ok:
            c = cmps[0]
            br = [i for i in f.all_insts() if i.op == "br" and i.ops and i.ops[0] == ["i", c.id]]
            ok = len(br) == 1
            if ok:
                t, e = br[0].get("succ")
                ne_edge = t if c.get("pred") == "ne" else (e if c.get("pred") == "eq" else None)
                other = e if ne_edge == t else t
                hb = handler[0].bb

                def reach(b, tgt, seen=None):
                    seen = seen or set()
                    if b == tgt:
                        return True
                    if b in seen:
                        return False
                    seen.add(b)
                    return any(reach(s, tgt, seen) for s in f.succ(b))
                ok = ne_edge is not None and reach(ne_edge, hb) and not reach(other, hb)
                # every call compares: no path from the entry to a return avoids the comparison
                rets = [i.bb for i in f.all_insts() if i.op == "ret"]
                entry = f.order[0]
                skip = [r for r in rets if c.bb != entry and reach(entry, r, {c.bb})]
                if ok and skip:
                    run.instance(rule, "check_static_offset: every call compares actual with expected: %s" % re.sub(r"so_\w+_\d+::key", "K", f.dname), f.where(), ok=False)
                    run.violation(rule, "method::check_static_offset|skipped", "a path through check_static_offset returns without comparing the static offset with the installed one (the check depends on more than its arguments)", f.where())
                    continue
                run.instance(rule, "check_static_offset: every call compares actual with expected: %s" % re.sub(r"so_\w+_\d+::key", "K", f.dname), f.where(), ok=True)
        # a mismatch never returns: whether or not the policy has a handler, and whatever the handler does, abort() follows
        if cmps and len(cmps) == 1:
            c0 = cmps[0]
            br0 = [i for i in f.all_insts() if i.op == "br" and i.ops and i.ops[0] == ["i", c0.id]]
            if len(br0) == 1:
                t0, e0 = br0[0].get("succ")
                ne0 = t0 if c0.get("pred") == "ne" else (e0 if c0.get("pred") == "eq" else None)
                rets0 = {i.bb for i in f.all_insts() if i.op == "ret"}

                def escapes0(b, seen):
                    if b in seen:
                        return False
                    seen.add(b)
                    if b in rets0:
                        return True
                    return any(escapes0(s2, seen) for s2 in f.succ(b))
                if ne0 is not None:
                    okr = not escapes0(ne0, set())
                    run.instance(rule, "check_static_offset: a mismatch never returns to the caller: %s" % re.sub(r"so_\w+_\d+::key", "K", f.dname), f.where(), ok=okr)
                    if not okr:
                        run.violation(rule, "method::check_static_offset|mismatch-returns", "after a mismatch a path returns to the caller (the abort depends on the handler facet or on what the handler does): the call goes on with stale offsets", f.where())
        # what the error carries: `expected` and `actual` are the function's own two arguments (one each), nothing read from elsewhere
        S0 = sym.Sym(mod)
        en = "static_slot_error" if "static_slot_error" in f.dname else "static_stride_error"
        lo = mod.layout_by_name.get("yorel::yomm2::" + en)
        if lo:
            # the error object is the only local aggregate written field by field: offset 0 is the method id, the two other words
            # are `expected` and `actual`
            stored = {}
            for i in f.all_insts():
                if i.op == "store":
                    base, off = sym.split_base(S0.value(f, i.ops[1]))
                    if base is not None and base[0] in ("alloca", "local") and isinstance(off, int) and 0 < off < lo["size"]:
                        stored[off] = S0.value(f, i.ops[0])
            okc = len(stored) == 2 and {repr(v) for v in stored.values()} == {repr(("arg", 1)), repr(("arg", 2))}
            run.instance(rule, "check_static_offset: the error reports the two compared numbers (expected, actual = the function's arguments): %s" % re.sub(r"so_\w+_\d+::key", "K", f.dname), f.where(), ok=okc)
            if not okc:
                run.violation(rule, "method::check_static_offset|report", "the %s carries %s: not the two numbers that were compared (the function's own arguments)" % (
                    en, ", ".join("+%d: %s" % (o, sym.show(v)[:70]) for o, v in sorted(stored.items()))), f.where())
        run.instance(rule, "check_static_offset: mismatch (and only mismatch) reaches the error handler: %s" % re.sub(r"so_\w+_\d+::key", "K", f.dname), f.where(), ok=ok)
        if not ok:
            run.violation(rule, "method::check_static_offset|branch", "check_static_offset does not route exactly the actual != expected outcome to the error handler", f.where())
    return n


def check(run):
    r1, r2 = "C12-layout", "C12-check"
    run.rule(r1, "all readers/writers of the slots-and-strides array agree on: slot_k at k, stride_k at arity+k-1", floor=30)
    run.rule(r2, "runtime checks compare each compile-time offset with the installed cell of the same position; mismatch -> handler + abort", floor=20)
    pols = ["release", "debug"]
    src, _ = witness.call_matrix(pols, ["rrr"], witness.update_block(pols))
    variants = [True] if run.tier == "quick" else [True, False]
    for nd in variants:
        ast = astq.Ast(common.ast_json(run, src, "c12_ast_%s" % ("nd" if nd else "dbg"), ndebug=nd,
                                       funcs="generator::write_static_offsets|install_gv|decode_dispatch_data|encode_dispatch_data|detail::compiler<"))
        run.units.append({"unit": "c12_ast", "ndebug": nd, "functions": len([f for f in ast.funcs if f.get("body")])})
        generator_rule(run, r1, ast)
        installer_rule(run, r1, ast)
        codec_rule(run, r1, ast)
    # IR: compile-time offsets in the walk, and their run-time cross-check
    ir_pols = ["release", "debug", "p_dbg2", "p_map", "p_ind"] if run.tier == "quick" else callpath.ALL_POLICIES
    units = callpath.build_units(run, ir_pols, ["r"], static_shapes=callpath.STATIC_SHAPES, tag="so")
    nchk = 0
    for u in units:
        walk.check_unit(run, u, r1)
        if u["policy"] in witness.CHECKED:
            check_rule(run, r2, u)
            nchk += check_static_offset_rule(run, r2, u["module"])
    if not nchk:
        run.broken.append("no check_static_offset instantiation found under a runtime_checks policy")
    # a checked policy WITHOUT an error handler (documented: "if it is present ... its error member is called") must still compile and
    # still stop on a stale offset: the handler call is under `if constexpr`, the abort is not
    from .. import e3
    blk, ns = witness.static_method_block("p_noerr", "rr", 0)
    nu = e3.Unit("c12_noerr", witness.PRELUDE + "\nnamespace yw_reg { yw::pol_classes<yw::p_noerr> r; }\n")
    one_line = " ".join(re.sub(r"//.*$", "", l) for l in blk.split("\n"))
    nu.add("must-compile|checked-no-handler", "a method with compile-time offsets under a checked policy that has no error_handler facet compiles", one_line + " int c12_use(yw::A& a, yw::A& b) { return %s::call(a, b); }" % ns, separate=True)
    for ob, ok, msg in e3.run_unit(run, r2, nu, ndebug=False):
        if not ok:
            run.violation(r2, ob["key"], "%s: %s" % (ob["desc"], msg), "include/yorel/yomm2/core.hpp")
    # re-key the walk violations for this property
    for v in run.violations:
        if v["rule"] == r1 and v["key"].startswith("method::"):
            v["key"] = v["key"] + "|static-offsets"
    run.assumptions += ["the numbers written by update (slot allocation, strides) are values of a run-time algorithm: only positions are decided",
                        "abort after the handler call in check_static_offset is an instance of C02-abort"]
    return run.finish(level="other", explanation="Positions only: AST emission model of generator::write_static_offsets (which array cell each emitted "
                      "element reads, as affine forms in the loop variable and arity, compared as polynomials with the layout), AST shape rules for "
                      "install_gv / decode / encode, IR symbolic walk of resolve for methods with a static_offsets specialisation (arity 1-4, non-virtual "
                      "parameters between), and the run-time cross-check's operands.")
