"""C07 - update after any load / unload history behaves like a fresh update (claimed in part).

C07-fresh    : nothing on the update path reads a static that is not policy-keyed registration / output state; no
               function-local static, cache or 'already compiled' flag survives between updates.
C07-recompute: what update installs is recomputed unconditionally: next pointers, hash search + v-table pointer
               publication, static v-table pointers and slots/strides.
C07-oneshot  : deferred ids go unresolved -> resolved exactly once (typestate on the flag words).
C07-catalog  : the registration objects add themselves in the constructor and remove themselves in the destructor, and
               the list operations keep the catalog well linked in every list-shape case (shared with C18)."""
import re
from .. import common, crules, astq

STATE = [
    (r"basic_domain<.*>::(classes|methods|dispatch_data)$", "the policy's catalogs and dispatch data: registration input / update output"),
    (r"method_tables<.*>::static_vptr(<.*>)?$", "per class static v-table pointer: update output"),
    (r"fast_perfect_hash<.*>::hash_(mult|shift|length)$", "hash parameters: recomputed by every search"),
    (r"fast_perfect_hash<.*>::hash_(min|max)$", "index range ever seen: only grows, only over-sizes the pointer vector (stated in the property text)"),
    (r"checked_perfect_hash<.*>::control$", "control table: resized and refilled by every search"),
    (r"vptr_(vector|map)<.*>::vptrs$", "v-table pointer table: update output"),
    (r"basic_indirect_vptr<.*>::indirect_vptrs$", "table of addresses of static v-table pointers: update output"),
    (r"(vectored_error|backward_compatible_error_handler)<.*>::(error|call_error)$", "the policy's handlers"),
    (r"basic_(trace|error)_output<.*>::(trace_stream|error_stream|trace_enabled)$", "diagnostic streams"),
    (r"detail::cerr$", "diagnostic sink"),
    (r"method<.*>::fn$", "the method object itself (registration record)"),
    (r"type_id_list<.*>::(value|begin|end)$", "static id lists of registrations"),
]


def fresh_rule(run, rule, ast):
    n = 0
    for f in ast.funcs:
        nm = f["name"]
        if not re.search(r"detail::compiler<.*>::|::hash_initialize<|::publish_vptrs<|generic_compiler::", nm):
            continue
        n += 1
        bad = []
        for r in f.get("srefs", []):
            if r.get("const"):
                continue
            why = None
            if "::" not in r["name"].replace(nm, "") and r["name"].startswith(nm):
                why = "function-local static"
            if why is None and not any(re.search(rx, r["name"]) for rx, _ in STATE):
                why = "static that is not policy-keyed registration / output state"
            if re.search(r"\)::\w+$", r["name"]) or r["name"].count("::") and r["name"].rsplit("::", 1)[0] == nm:
                why = "function-local static"
            if why:
                bad.append((r, why))
        run.instance(rule, "%s reads only registration / output state (%d statics)" % (crules.short(f), len(f.get("srefs", []))), (f["file"], f["line"]), ok=not bad)
        for r, why in bad:
            run.violation(rule, "%s|%s" % (re.sub(r"<.*", "", nm).split("yomm2::")[-1], r["name"].split("::")[-1]),
                          "%s references %s (%s): state that survives between updates and is not rebuilt from the catalogs" % (nm[:160], r["name"][:160], why), (f["file"], r.get("line") or f["line"]))
    if n < 20:
        run.broken.append("only %d update-path functions seen" % n)


def once_rule(run, rule, ast):
    """nothing in the library is computed once per process and kept: the only function-local static of the library is the
    registration record of add_function (which IS registration state). Any other function-local static whose initialiser is not a
    compile-time constant - a memo of a hash lookup, of a registration check, of a v-table pointer - keeps what one update
    established and shows it to calls made after a later update (a class unregistered since is still accepted, a moved table is
    still pointed to)."""
    n = 0
    for v in ast.vars:
        if not v.get("static_local"):
            continue
        n += 1
        rec = v["name"].endswith("::info") and re.search(r"add_function<.*>::add_function", v["name"]) or re.search(r"add_function<.*>::add_function::info$", v["name"]) or v["name"] == "info"
        init = v.get("init")
        const_init = v.get("constexpr") or init is None or not any(
            (x.get("k") in ("CallExpr", "CXXMemberCallExpr", "CXXOperatorCallExpr")) or (x.get("k") == "DeclRefExpr" and x["ref"].get("storage") in ("global", "local") and x["ref"].get("dk") != "EnumConstant")
            for x in astq.walk(init))
        # a dynamic initialiser that touches nothing of the library (a system constant, say) does not depend on any update
        lib = init is not None and any(("yorel::yomm2" in (x.get("callee") or "")) or (x.get("k") in ("DeclRefExpr", "MemberExpr") and "yorel::yomm2" in (astq.refname(x) or "")) for x in astq.walk(init))
        ok = bool(rec) or bool(const_init) or not lib
        run.instance(rule, "function-local static `%s` (%s) is the registration record or a compile-time constant" % (v["name"].split("::")[-1], v["file"].split("yomm2/")[-1] + ":" + str(v["line"])), (v["file"], v["line"]), ok=ok)
        if not ok:
            run.violation(rule, "static-local|%s:%s" % (v["file"].split("yomm2/")[-1], v["name"].split("::")[-1]), "function-local static `%s` is initialised once per process from `%s`: what it holds was established by one update and survives the following ones" % (
                v["name"][-100:], astq.text(init)[:80]), (v["file"], v["line"]))
    if n == 0:
        run.broken.append("no function-local static of the library in the unit (the registration record of add_function should be there)")


def install_rule(run, rule, ast):
    """install_gv: the static v-table pointer and slots/strides stores are guarded by loops / the uni-method test only."""
    for f in crules.by_name(ast, "install_gv"):
        targets = []
        for n in astq.walk(f["body"]):
            if n.get("k") == "BinaryOperator" and n.get("op") == "=":
                l = astq.strip(n["c"][0])
                if l.get("k") == "UnaryOperator" and l.get("op") == "*" and any(x.get("k") == "MemberExpr" and x.get("member") == "static_vptr" for x in astq.walk(l)):
                    targets.append(("static v-table pointer", n))
            if n.get("k") == "CallExpr" and (n.get("callee") or "").startswith("std::copy<") and any(x.get("k") == "MemberExpr" and x.get("member") == "slots_strides_ptr" for x in astq.walk(n)):
                targets.append(("slots and strides", n))
            if n.get("k") == "BinaryOperator" and n.get("op") == "=" and any(x.get("k") == "MemberExpr" and x.get("member") == "slots_strides_ptr" for x in astq.walk(n["c"][0])):
                targets.append(("slots and strides", n))      # written element by element
            if n.get("k") == "CXXMemberCallExpr" and (n.get("callee") or "").endswith("::publish_vptrs") or (n.get("k") == "CallExpr" and "::publish_vptrs<" in (n.get("callee") or "")):
                targets.append(("publication of v-table pointers", n))
        for need in ("static v-table pointer", "slots and strides", "publication of v-table pointers"):
            if not any(w == need for w, _ in targets):
                run.broken.append("%s: no installation of the %s recognised" % (crules.short(f), need))
        for what, n in targets:
            bad = []
            for cls, cn, blk in crules._cdep_conds(f, n) or []:
                if cls in ("loop", "trace"):
                    continue
                t = astq.text(cn) if cn else "?"
                c0 = astq.strip(cn) if cn else {}
                mems = {y.get("member") for y in astq.walk(cn) if y.get("k") == "MemberExpr"} if cn else set()
                if "arity" in mems and c0.get("k") == "BinaryOperator":
                    continue          # uni-method / multi-method split
                if "first_slot" in mems and what == "static v-table pointer":
                    continue          # corner case branch for a class without methods: both branches assign
                bad.append(t)
            run.instance(rule, "%s: %s installed unconditionally" % (crules.short(f), what), (f["file"], n["l"]), ok=not bad)
            for t in bad:
                run.violation(rule, "compiler::install_gv|%s" % what.split()[0], "installing the %s is skipped depending on `%s`" % (what, t), (f["file"], n["l"]))


def check(run):
    r = ["C07-fresh", "C07-recompute", "C07-oneshot", "C07-catalog"]
    run.rule(r[0], "update-path functions read only policy-keyed registration / output state; no function-local static or cache", floor=20)
    run.rule(r[1], "next pointers, hash search, v-table pointer publication, static v-table pointers, slots/strides are (re)installed unconditionally by every update", floor=12)
    run.rule(r[2], "deferred ids are resolved exactly once per cell (guard flag tested before, set after)", floor=4)
    run.rule(r[3], "registration objects register in the constructor and unregister unconditionally in the destructor; list operations keep the catalog linked", floor=50)
    for x in ("x1", "x2", "x3", "x4", "x5"):
        run.rule("C07-" + x, "(decided elsewhere)", floor=0)
    for nd in ([True] if run.tier == "quick" else [True, False]):
        ast, _ = crules.unit(run, ndebug=nd)
        from .. import witness
        pols = ["release", "debug", "p_def", "p_map", "p_ind"]
        src, _ = witness.call_matrix(pols, ["rr"], witness.update_block(pols))
        rast = astq.Ast(common.ast_json(run, src, "c07_refs_%s" % ("nd" if nd else "dbg"), ndebug=nd, funcs="@none@", refs=True))
        fresh_rule(run, r[0], rast)
        src2, _ = witness.call_matrix(pols, ["rr", "V", "X"], witness.routes_block(pols) + "\n" + witness.update_block(pols))
        once_rule(run, r[0], astq.Ast(common.ast_json(run, src2, "c07_once_%s" % ("nd" if nd else "dbg"), ndebug=nd, funcs="@none@")))
        crules.next_rules(run, "C07-x1", r[1], ast)
        crules.hash_rules(run, r[1], "C07-x3", r[1], "C07-x4", "C07-x5", ast)      # accept: every update searches anew (no shortcut that keeps the previous parameters)
        install_rule(run, r[1], ast)
        from . import c09
        crules.phase_rules(run, r[1], ast)
        c09.ast_rules(run, r[1], ast, table=False)      # indirect policies: the address table points at the classes' static v-table pointers, valid across updates
        from . import c09
        c09.table_writer_overwrites(run, ast, r[1])
        crules.deferred_rules(run, r[2], None, None, ast)
        crules.list_rules(run, r[3], r[3], r[3], r[3], ast)
    run.violations = [v for v in run.violations if not re.match(r"C07-x\d", v["rule"])]
    for x in ("x1", "x2", "x3", "x4", "x5"):
        del run.rules["C07-" + x]
    run.assumptions += ["equivalence with a fresh process for arbitrary add/remove histories is a statement over all histories: these are the structural reasons it can hold "
                        "(update rebuilds everything from the catalogs; the catalogs are exact) - the induction over histories is not mechanised",
                        "v-table pointers / hash entries of classes unregistered since the previous update are stale by design until the next update: not decided"]
    from .. import crules as _cr
    _cr.facet_rules(run, "C07-facets")
    return run.finish(level="other", explanation="AST who-may-read rule over the statics referenced by every function of the update path (frozen list of policy-keyed state, one "
                      "reason each), CFG control-dependence whitelists of the installing stores / calls, typestate rule on deferred-id flags, and the C18 catalog rules.",
                      extra_cov={"state_whitelist": [{"pattern": a, "reason": b} for a, b in STATE]})
