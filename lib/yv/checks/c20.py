"""C20 - use_definitions registers exactly the defined combinations.
Everything in templates.hpp is a type function: the type checker decides it (E3)."""
import itertools
import random
from .. import common, e3

PRELUDE = r'''
#include <yorel/yomm2/core.hpp>
#include <yorel/yomm2/symbols.hpp>
#include <yorel/yomm2/templates.hpp>
using namespace yorel::yomm2;
namespace c20 {
template<int L, int I> struct e {};                       // element I of list L
template<typename... T> struct T1 {}; template<typename... T> struct T2 {}; template<typename... T> struct T3 {};
template<typename A, typename B> struct Pair {};
template<typename... T> using twice = types<Pair<T...>, Pair<T...>>;          // F for transform_product (2 lists)
template<typename... T> using one = types<T1<T...>>;
template<typename... T> using twice_ml = boost::mp11::mp_list<Pair<T...>, Pair<T...>>;   // F returning another list kind
template<typename... T> using twice_tu = std::tuple<Pair<T...>, Pair<T...>>;
struct A { virtual ~A() {} }; struct B : A {}; struct C : A {};
struct key1; struct key2;
using M = method<key1, int(virtual_<A&>, virtual_<A&>)>;
// leaf counting through aggregate / large_aggregate / tuple: aggregate<T...> has a unique std::tuple base,
// either tuple<T...> or (through large_aggregate) tuple<aggregate<first half>, aggregate<second half>>
template<int N> struct L {};
template<class X> struct leaves { static constexpr std::size_t value = 1; };
template<class... U> std::tuple<U...> tuple_base(std::tuple<U...>*);
template<class... Ts> struct leaves<std::tuple<Ts...>> { static constexpr std::size_t value = (std::size_t(0) + ... + leaves<Ts>::value); };
template<class... Ts> struct leaves<aggregate<Ts...>> { static constexpr std::size_t value = leaves<decltype(tuple_base((aggregate<Ts...>*)nullptr))>::value; };
template<class Seq> struct mk;
template<std::size_t... I> struct mk<std::index_sequence<I...>> { using type = aggregate<L<(int)I>...>; };
template<std::size_t N> using agg_type = typename mk<std::make_index_sequence<N>>::type;
template<std::size_t N> constexpr std::size_t agg_n = leaves<agg_type<N>>::value;
}  // namespace c20
using namespace c20;
'''


def lst(l, n):
    return "types<%s>" % ", ".join("e<%d, %d>" % (l, i) for i in range(n))


def combo_list(lens):
    return list(itertools.product(*[range(n) for n in lens]))


def product_unit(tier):
    u = e3.Unit("c20_product", PRELUDE)
    maxlen = 3 if tier == "quick" else 5
    maxlists = 3 if tier == "quick" else 4
    for k in range(1, maxlists + 1):
        for lens in itertools.product(range(0, maxlen + 1), repeat=k):
            if tier == "quick" and sum(lens) > 7:
                continue
            if len(combo_list(lens)) > 130:
                continue
            lists = ", ".join(lst(i, n) for i, n in enumerate(lens))
            exp = "types<%s>" % ", ".join("types<%s>" % ", ".join("e<%d, %d>" % (i, c[i]) for i in range(k)) for c in combo_list(lens))
            u.add("product|%s" % "x".join(map(str, lens)), "product of lists of lengths %s is the row-major Cartesian product" % (lens,),
                  "static_assert(std::is_same_v<product<%s>, %s>);" % (lists, exp))
    # the lists are sequences: an element named twice (lists assembled with mp_append) is two positions of the product
    for name, seqs in (("rep-first", [[0, 1, 0], [0, 1]]), ("rep-second", [[0, 1], [1, 1]]), ("rep-both", [[0, 0], [2, 0, 2]]), ("rep-single", [[0, 0, 1, 0]]), ("same-in-two", None)):
        if seqs is None:
            u.add("product|same-in-two", "a type that occurs in two different lists is paired with itself",
                  "static_assert(std::is_same_v<product<types<e<0, 0>, e<0, 1>>, types<e<0, 0>, e<0, 1>>>, types<types<e<0, 0>, e<0, 0>>, types<e<0, 0>, e<0, 1>>, types<e<0, 1>, e<0, 0>>, types<e<0, 1>, e<0, 1>>>>);")
            continue
        lists = ", ".join("types<%s>" % ", ".join("e<%d, %d>" % (i, x) for x in sq) for i, sq in enumerate(seqs))
        exp = "types<%s>" % ", ".join("types<%s>" % ", ".join("e<%d, %d>" % (i, x) for i, x in enumerate(c)) for c in itertools.product(*seqs))
        u.add("product|%s" % name, "a list that names an element twice contributes both positions (%s)" % (seqs,),
              "static_assert(std::is_same_v<product<%s>, %s>);" % (lists, exp))
    # apply_product: templates first, then combos
    for lens in ([1], [2], [2, 2], [3, 2], [0, 2], [2, 3, 2]):
        lists = ", ".join(lst(i, n) for i, n in enumerate(lens))
        exp = "types<%s>" % ", ".join("%s<%s>" % (t, ", ".join("e<%d, %d>" % (i, c[i]) for i in range(len(lens))))
                                       for t in ("T1", "T2", "T3") for c in combo_list(lens))
        u.add("apply_product|%s" % "x".join(map(str, lens)), "apply_product over templates T1,T2,T3 and lists %s" % (lens,),
              "static_assert(std::is_same_v<apply_product<templates<T1, T2, T3>, %s>, %s>);" % (lists, exp))
    for lens in ([1, 1], [2, 3], [3, 2], [0, 2], [2, 0]):
        lists = ", ".join(lst(i, n) for i, n in enumerate(lens))
        items = []
        for c in combo_list(lens):
            p = "Pair<e<0, %d>, e<1, %d>>" % c
            items += [p, p]
        if items:
            code = "static_assert(std::is_same_v<transform_product<twice, %s>, types<%s>>);" % (lists, ", ".join(items))
        else:
            # an empty product: any empty list will do (mp_append of nothing is mp_list<>); the property does not fix the list template
            code = "static_assert(boost::mp11::mp_empty<transform_product<twice, %s>>::value);" % lists
        u.add("transform_product|%s" % "x".join(map(str, lens)), "transform_product concatenates F<combo> over the product of lists %s" % (lens,), code)
        if items:
            for fn, lkind in (("twice_ml", "boost::mp11::mp_list"), ("twice_tu", "std::tuple")):
                u.add("transform_product|%s|%s" % ("x".join(map(str, lens)), fn), "transform_product concatenates the elements of whatever list kind F returns (%s), lists %s" % (lkind, lens),
                      "static_assert(std::is_same_v<transform_product<%s, %s>, %s<%s>>);" % (fn, lists, lkind, ", ".join(items)))
    return u


def defs_unit(tier, seed):
    u = e3.Unit("c20_defs", PRELUDE)
    rnd = random.Random(seed)
    cases = []
    # every subset of a 2x3 product
    combos = combo_list([2, 3])
    for mask in range(1 << len(combos)):
        cases.append(([2, 3], [c for i, c in enumerate(combos) if mask >> i & 1]))
    extra = 10 if tier == "quick" else 60
    for _ in range(extra):
        lens = [rnd.randint(1, 3) for _ in range(rnd.randint(2, 3))]   # >= 2 lists: clang 14 rejects a unary definition template in use_definition's partial specialisation (g++ accepts); front-end difference, see DESIGN section 10
        cs = combo_list(lens)
        cases.append((lens, [c for c in cs if rnd.random() < 0.4]))
    for n, (lens, undefined) in enumerate(cases):
        k = len(lens)
        tn = "D%d" % n
        tparams = ", ".join("typename P%d" % i for i in range(k))
        # flavour 1: definition template names its method through a `method` typedef
        u.raw("template<%s> struct %s { using method = M; static int fn(A&, A&); };" % (tparams, tn))
        for c in undefined:
            u.raw("template<> struct %s<%s> : not_defined {};" % (tn, ", ".join("e<%d, %d>" % (i, c[i]) for i in range(k))))
        lists = ", ".join(lst(i, m) for i, m in enumerate(lens))
        keep = [c for c in combo_list(lens) if c not in undefined]
        exp = "aggregate<%s>" % ", ".join("M::add_definition<%s<%s>>" % (tn, ", ".join("e<%d, %d>" % (i, c[i]) for i in range(k))) for c in keep)
        u.add("use_definitions|%s|undefined=%d" % ("x".join(map(str, lens)), len(undefined)),
              "use_definitions over lists %s with %d combinations marked not_defined registers exactly the %d others, in order" % (lens, len(undefined), len(keep)),
              "static_assert(std::is_same_v<use_definitions<%s, product<%s>>, %s>);" % (tn, lists, exp))
    # flavour 2: the method is the first template argument
    u.raw("template<typename Meth, typename X> struct E { static int fn(A&, A&); };")
    u.raw("template<typename Meth> struct E<Meth, e<1, 1>> : not_defined {};")
    u.add("use_definitions|method-first", "definition template whose first argument is the method: add_definition of that method, undefined combination skipped",
          "static_assert(std::is_same_v<use_definitions<E, product<types<M>, %s>>, aggregate<M::add_definition<E<M, e<1, 0>>>, M::add_definition<E<M, e<1, 2>>>>>);" % lst(1, 3))
    # "derives from not_defined" however the derivation is spelled: private base (`class` default), through two mixins (the base
    # appears twice: not convertible, still derived), indirectly
    u.raw("template<typename Meth, typename X> struct F { static int fn(A&, A&); };")
    u.raw("template<typename Meth> class F<Meth, e<1, 0>> : not_defined { public: static int fn(A&, A&); };")
    u.raw("struct mix1 : not_defined {}; struct mix2 : not_defined {};")
    u.raw("template<typename Meth> struct F<Meth, e<1, 1>> : mix1, mix2 { static int fn(A&, A&); };")
    u.raw("struct indirect_nd : mix1 {};")
    u.raw("template<typename Meth> struct F<Meth, e<1, 2>> : indirect_nd { static int fn(A&, A&); };")
    u.add("use_definitions|not_defined-forms", "a container that derives from not_defined privately, twice through mix-ins, or indirectly is discarded like one that derives publicly",
          "static_assert(std::is_same_v<use_definitions<F, product<types<M>, %s>>, aggregate<M::add_definition<F<M, e<1, 3>>>>>);" % lst(1, 4))
    # add_definition wires next iff the container has one
    u.raw("struct WithNext { static M::next_type next; static int fn(A&, A&); }; struct NoNext { static int fn(A&, A&); }; struct WrongNext { static int next; static int fn(A&, A&); };")
    u.add("add_definition|has_next", "container with a `next` of the method's next_type gets the variant that passes &Container::next",
          "static_assert(std::is_base_of_v<M::add_definition_<WithNext, true>, M::add_definition<WithNext>> && !std::is_base_of_v<M::add_definition_<WithNext, false>, M::add_definition<WithNext>>);")
    u.add("add_definition|no_next", "container without `next` gets the variant that passes nullptr",
          "static_assert(std::is_base_of_v<M::add_definition_<NoNext, false>, M::add_definition<NoNext>> && std::is_base_of_v<M::add_definition_<WrongNext, false>, M::add_definition<WrongNext>>);")
    u.add("add_definition|member", "the add_definition variants hold exactly one add_function<Container::fn> member",
          "static_assert(std::is_same_v<decltype(M::add_definition_<WithNext, true>::add), M::add_function<WithNext::fn>> && std::is_same_v<decltype(M::add_definition_<NoNext, false>::override_), M::add_function<NoNext::fn>> && sizeof(M::add_definition<WithNext>) == sizeof(M::add_function<WithNext::fn>));")
    return u


def aggregate_unit(tier):
    u = e3.Unit("c20_aggregate", PRELUDE)
    sizes = [0, 1, 2, 511, 512, 513] if tier == "quick" else [0, 1, 2, 255, 511, 512, 513, 600, 1024, 1025, 1300]
    for n in sizes:
        u.add("aggregate|%d" % n, "aggregate of %d elements has one leaf per element (through large_aggregate halves above 512)" % n,
              "static_assert(agg_n<%d> == %d);" % (n, n))
    u.add("aggregate|types", "aggregate<types<T...>> is aggregate<T...>", "static_assert(std::is_base_of_v<aggregate<L<1>, L<2>>, aggregate<types<L<1>, L<2>>>>);")
    u.add("aggregate|tuple", "small aggregate derives from std::tuple of its elements (each element constructed once)",
          "static_assert(std::is_base_of_v<std::tuple<L<1>, L<2>, L<3>>, aggregate<L<1>, L<2>, L<3>>>);")
    u.raw("template<class...> struct Wrap1 {};")
    u.add("aggregate|single-template-element", "an aggregate of ONE element that is itself a template instance (one registration object add_definition<C>) holds that element, it does not unwrap it",
          "static_assert(std::is_base_of_v<std::tuple<Wrap1<int, char>>, aggregate<Wrap1<int, char>>> && std::is_base_of_v<std::tuple<std::tuple<int>>, aggregate<std::tuple<int>>>);")
    u.add("aggregate|split", "a 513-element aggregate is split into halves of 256 and 257 elements in order",
          "static_assert(std::is_base_of_v<std::tuple<agg_type<256>, boost::mp11::mp_apply<aggregate, boost::mp11::mp_drop_c<boost::mp11::mp_rename<agg_type<513>, types>, 256>>>, agg_type<513>>);")
    return u


def check(run):
    r1, r2, r3 = "C20-product", "C20-defs", "C20-aggregate"
    run.rule(r1, "product / apply_product / transform_product enumerate the Cartesian product in row-major order", floor=40)
    run.rule(r2, "use_definitions<D, product<...>> is aggregate<add_definition<D<combo>>...> over exactly the combinations not marked not_defined", floor=70)
    run.rule(r3, "aggregate<...> has exactly one leaf per element on both sides of the 512-element split", floor=8)
    units = [(r1, product_unit(run.tier)), (r2, defs_unit(run.tier, run.seed)), (r3, aggregate_unit(run.tier))]

    def one(x):
        rule, u = x
        return rule, e3.run_unit(run, rule, u)
    for rule, res in common.parallel(one, units):
        for ob, ok, msg in res:
            if not ok:
                run.violation(rule, ob["key"], "%s: %s" % (ob["desc"], msg), "include/yorel/yomm2/templates.hpp")
    # what one add_definition<Container> object does when it is constructed: one registration per (method, function)
    from .. import crules
    r4 = "C20-record"
    run.rule(r4, "add_function registers through a record of its own (method, function) pair and pushes it exactly when it is not registered yet", floor=6)
    ast, _ = crules.unit(run, ndebug=True)
    crules.record_rules(run, r4, ast)
    crules.idem_rules(run, r4, ast)
    run.assumptions += ["clang 14's type checker (template instantiation, std::is_same) is trusted",
                        "that constructing aggregate<...> (a std::tuple of registration objects) runs one registration per element is a language guarantee; "
                        "which definitions are found in the method's catalog at run time is not observed"]
    return run.finish(level="other", explanation="Generated static_assert witnesses over the type functions of templates.hpp, decided by the type "
                      "checker: exact result types (order included) of product/apply_product/transform_product for all list-length vectors in range; "
                      "use_definitions for every subset of a 2x3 product marked not_defined plus seeded larger cases; leaf counts of aggregate<> around "
                      "the 512 split; add_definition's next wiring.")
