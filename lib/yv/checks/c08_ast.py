"""C08-self / C08-merge / C08-reserve (AST, CFG): the run-time half's structural obligations."""
from .. import crules


def check(run):
    r1, r2 = "C08-merge", "C08-reserve"
    run.rule(r1, "augment_classes records every listed base of every registration record (only the class itself is dropped); an unknown base is reported", floor=3)
    run.rule(r2, "lattice slot allocation reserves every slot taken in all bases and covariant classes unconditionally (no two parameters share a cell)", floor=14)
    ast, _ = crules.unit(run, ndebug=True)
    crules.merge_rules(run, r1, None, ast)
    crules.reserve_rules(run, r2, ast)
    crules.alloc_rules(run, r2, ast)
    crules.model_rules(run, r2, ast, parts=("params",))
    r3 = "C08-closure"
    run.rule(r3, "'D is acceptable where B is expected' is always answered from covariant_classes (the closure computed from the merged direct-base relation), "
             "never from the lists that only hold what registration records name: specificity order, next's base filter, applicability", floor=9)
    crules.order_rules(run, r3, r3, ast)
    crules.applicable_rules(run, r3, ast)
    r4 = "C08-deferred"
    run.rule(r4, "deferred ids: a base-id list shared by several registration records of a class is resolved once (its own flag is tested), however many records name it", floor=3)
    crules.deferred_rules(run, r4, r4, r4, ast)
    crules.mark_rules(run, r2, ast)
    # pre-generated tables: the encoder writes one v-table per merged class, the decoder walks the registration records - a class
    # registered in several statements must consume one table only (rule shared with C13-cells)
    from . import c13
    from .. import astq, common, witness
    r5 = "C08-decode"
    run.rule(r5, "decode_dispatch_data: a registration record whose class already has its v-table is skipped before anything is read (classes registered several times)", floor=1)
    pols = ["release", "debug"]
    src13, _ = witness.call_matrix(pols, ["rr"], witness.update_block(pols))
    ast13 = astq.Ast(common.ast_json(run, src13, "c13_ast_nd", ndebug=True, funcs=c13.FUNCS))
    decs = [f for f in ast13.funcs if f.get("body") and "decode_dispatch_data<" in f["name"]]
    if not decs:
        run.broken.append("C08-decode: decode_dispatch_data is not instantiated in the unit")
    for f in decs:
        c13.record_once_rule(run, r5, f)
