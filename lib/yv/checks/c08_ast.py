"""C08-self (AST): filled in with the E1 rules."""


def check(run):
    return
