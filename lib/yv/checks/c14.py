"""C14 - policies are isolated from one another.

C14-keyed  : every mutable variable with static storage defined by the library is keyed by a policy
             (some enclosing template specialisation has a policy type among its arguments).
C14-cross  : a function keyed by policy A references no static / function keyed by an unrelated policy B.
C14-disjoint: globals referenced by A's call path are disjoint from the globals update<B> writes (IR).
C14-rebind : rebind / replace / remove produce facets re-keyed to the new policy and nothing of the old one."""
import re
from .. import common, witness, astq, e3, callpath
from . import c16

EXEMPT_UNKEYED = {
    "yorel::yomm2::detail::cerr": "output sink of the trace / error streams only; never read to decide dispatch",
    "yorel::yomm2::generator::keywords": "declared constant table of the forward-declaration writer; no policy-dependent content",
}
# cross references that are intended: (function regex, target regex, reason)
EXEMPT_CROSS = [
    (r"^yorel::yomm2::policy::release_shared::dynamic_vptr", r"debug_shared",
     "release_shared is derived from debug_shared and deliberately reads its tables through the unchecked hash"),
]

CANARY = r'''
#include <yorel/yomm2/core.hpp>
namespace yorel { namespace yomm2 { namespace canary14 {
inline int shared_counter;                                     // mutable, not keyed by any policy
template<class P> struct facet { static int per_policy; static int bump() { return ++per_policy + shared_counter; } };
template<class P> int facet<P>::per_policy;
struct pa : policy::release::rebind<pa> {}; struct pb : policy::release::rebind<pb> {};
template<class P> int peek() { return facet<pb>::per_policy; }   // keyed by P, reads pb's static
inline int use() { return facet<pa>::bump() + peek<pa>() + peek<pb>(); }
}}}
'''

REBIND_PRELUDE = r'''
#include <yorel/yomm2/core.hpp>
#include <yorel/yomm2/symbols.hpp>
#include <yorel/yomm2/macros.hpp>
using namespace yorel::yomm2;
namespace c14 {
struct A { virtual ~A() {} };
// independent re-statement of "replace the policy argument of a CRTP facet"
template<class Q, class S, class F> struct rb { using type = F; };
template<class Q, class S, template<class...> class G, class... X> struct rb<Q, S, G<S, X...>> { using type = G<Q, X...>; };
template<class Q, class S, class Facets> struct rebound;
template<class Q, class S, class... F> struct rebound<Q, S, detail::types<F...>> { using type = policy::basic_policy<Q, typename rb<Q, S, F>::type...>; };
// does type T mention S anywhere in its template arguments?
template<class S, class T> struct mentions : std::is_same<S, T> {};
template<class S, template<class...> class G, class... X> struct mentions<S, G<X...>> : std::bool_constant<(std::is_same_v<S, G<X...>> || ... || mentions<S, X>::value)> {};
template<class S, class Facets> struct any_mentions;
template<class S, class... F> struct any_mentions<S, detail::types<F...>> : std::bool_constant<(false || ... || mentions<S, F>::value)> {};
// replace / remove, restated
template<class Base, class New, class F> using repl1 = std::conditional_t<std::is_base_of_v<Base, F>, New, F>;
template<class P, class Base, class New, class Facets> struct replaced;
template<class P, class Base, class New, class... F> struct replaced<P, Base, New, detail::types<F...>> { using type = policy::basic_policy<P, repl1<Base, New, F>...>; };
template<class Base, class Out, class... F> struct rem;
template<class Base, class... O> struct rem<Base, detail::types<O...>> { using type = detail::types<O...>; };
template<class Base, class... O, class F, class... R> struct rem<Base, detail::types<O...>, F, R...> : std::conditional_t<std::is_base_of_v<Base, F>, rem<Base, detail::types<O...>, R...>, rem<Base, detail::types<O..., F>, R...>> {};
template<class P, class Base, class Facets> struct removed;
template<class P, class Base, class... F> struct removed<P, Base, detail::types<F...>> { using L = typename rem<Base, detail::types<>, F...>::type; };
template<class P, class L> struct as_policy; template<class P, class... F> struct as_policy<P, detail::types<F...>> { using type = policy::basic_policy<P, F...>; };
struct newfacet : virtual policy::error_handler { static void error(const error_type&) {} };
}
using namespace c14;
'''

STOCK = ["policy::release", "policy::debug", "policy::debug_shared"]
OLD_KEYED = ["policy::basic_domain<{S}>", "policy::vptr_vector<{S}>", "policy::fast_perfect_hash<{S}>", "policy::checked_perfect_hash<{S}>",
             "policy::backward_compatible_error_handler<{S}>", "policy::vectored_error<{S}, policy::backward_compatible_error_handler<{S}>>",
             "policy::basic_error_output<{S}>", "policy::basic_trace_output<{S}>", "detail::method_tables<{S}>"]


def rebind_unit():
    u = e3.Unit("c14_rebind", REBIND_PRELUDE)
    for n, S in enumerate(STOCK):
        Q = "Q%d" % n
        u.raw("struct %s : %s::rebind<%s> {};" % (Q, S, Q))
        sn = S.split("::")[-1]
        u.add("rebind|type|%s" % sn, "%s::rebind<Q> is basic_policy<Q, facets with every F<%s,...> re-keyed to F<Q,...>>" % (S, sn),
              "static_assert(std::is_same_v<%s::rebind<%s>, rebound<%s, %s, %s::facets>::type>);" % (S, Q, Q, S, S))
        u.add("rebind|nomention|%s" % sn, "no facet of %s::rebind<Q> mentions %s in its template arguments" % (S, sn),
              "static_assert(!any_mentions<%s, %s::rebind<%s>::facets>::value && any_mentions<%s, %s::rebind<%s>::facets>::value);" % (S, S, Q, Q, S, Q))
        for t in OLD_KEYED:
            ts = t.format(S=S)
            u.add("rebind|notbase|%s|%s" % (sn, t.split("<")[0].split("::")[-1]), "Q derived from %s::rebind<Q> does not inherit %s" % (sn, ts),
                  "static_assert(!std::is_base_of_v<%s, %s>);" % (ts, Q))
        u.add("rebind|domain|%s" % sn, "Q has its own domain", "static_assert(std::is_base_of_v<policy::basic_domain<%s>, %s> && std::is_base_of_v<detail::method_tables<%s>, %s>);" % (Q, Q, Q, Q))
        for member in ("classes", "methods", "dispatch_data", "vptrs", "hash_mult", "hash_shift", "hash_length", "hash_min", "hash_max", "error", "call_error", "template static_vptr<A>"):
            u.add("rebind|distinct|%s|%s" % (sn, member.split("<")[0].split()[-1]), "Q::%s and %s::%s are different objects" % (member, sn, member),
                  "static_assert(&%s::%s != &%s::%s);" % (Q, member, S, member))
        if "debug" in S:
            for member in ("control", "error_stream", "trace_stream"):
                u.add("rebind|distinct|%s|%s" % (sn, member), "Q::%s and %s::%s are different objects" % (member, sn, member),
                      "static_assert((const void*)&%s::%s != (const void*)&%s::%s);" % (Q, member, S, member))
        # replace / remove
        u.add("replace|%s" % sn, "%s::replace<error_handler, F> changes exactly the facet derived from error_handler" % sn,
              "static_assert(std::is_same_v<%s::replace<policy::error_handler, newfacet>, replaced<%s, policy::error_handler, newfacet, %s::facets>::type>);" % (S, S, S))
        u.add("remove|%s" % sn, "%s::remove<type_hash> removes exactly the facets derived from type_hash" % sn,
              "static_assert(std::is_same_v<%s::remove<policy::type_hash>, as_policy<%s, removed<%s, policy::type_hash, %s::facets>::L>::type>);" % (S, S, S, S))
        u.raw("struct R%d : %s::rebind<R%d>::remove<policy::type_hash> {};" % (n, S, n))
        u.add("remove|has_facet|%s" % sn, "a policy built with rebind<R>::remove<type_hash> has no type_hash facet but keeps the others",
              "static_assert(%s::has_facet<policy::type_hash> && !R%d::has_facet<policy::type_hash> && R%d::has_facet<policy::external_vptr> && R%d::has_facet<policy::error_handler>);" % (S, n, n, n))
    # the declaration macros register the method in the policy they are given (and in the default policy when given none)
    u.raw("template<class M> struct pol_of; template<class K, class S, class P> struct pol_of<method<K, S, P>> { using type = P; };")
    u.raw("struct MQ : policy::release::rebind<MQ> {}; struct c14_A { virtual ~c14_A() {} };")
    u.raw("namespace mac { YOMM2_DECLARE(int, d3, (virtual_<c14_A&>)); YOMM2_DECLARE(int, d4, (virtual_<c14_A&>), MQ); "
          "struct S { YOMM2_STATIC_DECLARE(int, s3, (virtual_<c14_A&>)); YOMM2_STATIC_DECLARE(int, s4, (virtual_<c14_A&>), MQ); }; }")
    for name, expr, pol in (("declare", "mac::yOMM2_SELECTOR(d3)(std::declval<c14_A&>())", "default_policy"), ("declare+policy", "mac::yOMM2_SELECTOR(d4)(std::declval<c14_A&>())", "MQ"),
                            ("static_declare", "mac::S::yOMM2_SELECTOR(s3)(std::declval<c14_A&>())", "default_policy"), ("static_declare+policy", "mac::S::yOMM2_SELECTOR(s4)(std::declval<c14_A&>())", "MQ")):
        u.add("macro|policy|%s" % name, "a method declared with the %s macro form belongs to policy %s" % (name, pol),
              "static_assert(std::is_same_v<pol_of<decltype(%s)>::type, %s>);" % (expr, pol))
    return u


def default_unit():
    """a program that configures its own default policy: everything that is given no policy - class registrations through the
    template API, methods, virtual_ptr and its deduction guide, virtual_shared_ptr, update - lands in the configured policy, the
    same one for all of them (otherwise classes are registered in one policy and looked up in another)"""
    u = e3.Unit("c14_default", """
#include <yorel/yomm2/policy.hpp>
namespace c14d { struct mine : yorel::yomm2::policy::release::rebind<mine> {}; }
#define YOMM2_DEFAULT_POLICY ::c14d::mine
#include <yorel/yomm2/core.hpp>
#include <yorel/yomm2/macros.hpp>
using namespace yorel::yomm2;
namespace c14d { struct A { virtual ~A() {} }; struct B : A {}; struct key;
template<class T> struct pol_vp; template<class C, class P> struct pol_vp<virtual_ptr<C, P>> { using type = P; };
template<class M> struct pol_m; template<class K, class S, class P> struct pol_m<method<K, S, P>> { using type = P; };
template<class C> struct pol_c; template<class P> struct pol_c<detail::compiler<P>> { using type = P; };
YOMM2_DECLARE(int, dm, (virtual_<A&>));
}
using namespace c14d;
""")
    u.add("default|get_policy", "a class list without a policy belongs to the configured default policy", "static_assert(std::is_same_v<detail::get_policy<A, B>, mine>);")
    u.add("default|use_classes", "use_classes<A, B> is use_classes<A, B, configured default>", "static_assert(std::is_same_v<use_classes<A, B>, use_classes<A, B, mine>>);")
    u.add("default|class_declaration", "class_declaration<A, B> registers in the configured default policy", "static_assert(std::is_base_of_v<detail::class_declaration_aux<mine, detail::types<A, B>>, class_declaration<A, B>> && std::is_base_of_v<detail::class_declaration_aux<mine, detail::types<A, B>>, class_declaration<detail::types<A, B>>>);")
    u.add("default|named", "a class list that names a policy belongs to that policy", "static_assert(std::is_same_v<detail::get_policy<A, B, policy::release>, policy::release>);")
    u.add("default|method", "a method given no policy belongs to the configured default policy", "static_assert(std::is_same_v<pol_m<method<key, int(virtual_<A&>)>>::type, mine>);")
    u.add("default|macro", "a method declared with the macro belongs to the configured default policy", "static_assert(std::is_same_v<pol_m<decltype(yOMM2_SELECTOR(dm)(std::declval<A&>()))>::type, mine>);")
    u.add("default|virtual_ptr", "virtual_ptr<A> / virtual_shared_ptr<A> / the deduction guide use the configured default policy", "static_assert(std::is_same_v<pol_vp<virtual_ptr<A>>::type, mine> && std::is_same_v<pol_vp<virtual_shared_ptr<A>>::type, mine> && std::is_same_v<decltype(virtual_ptr(std::declval<A&>())), virtual_ptr<A, mine>>);")
    u.add("default|final", "final_virtual_ptr / make_virtual_shared use the configured default policy", "static_assert(std::is_same_v<decltype(final_virtual_ptr(std::declval<A&>())), virtual_ptr<A, mine>> && std::is_same_v<decltype(make_virtual_shared<B>()), virtual_ptr<std::shared_ptr<B>, mine>>);")
    u.add("default|update", "update() compiles the configured default policy", "static_assert(std::is_same_v<pol_c<decltype(update())>::type, mine>);")
    return u


def cross_ok(ast, fkeys, vkeys):
    fk, vk = set(fkeys), set(vkeys)
    if not fk or not vk:
        return True
    allowed = set(fk)
    for k in fk:
        allowed |= ast.policies.get(k, set())
    return vk <= allowed


def keyed_rules(run, r_keyed, r_cross, ast, label):
    for v in ast.vars:
        if v["const"] or v["constexpr"]:
            continue
        nm = v["name"]
        ok = bool(v["keys"]) or nm in EXEMPT_UNKEYED
        run.instance(r_keyed, "%s static %s" % (label, nm), (v["file"], v["line"]), ok=ok, detail={"keys": v["keys"]})
        if not ok:
            run.violation(r_keyed, "unkeyed|%s" % nm[:200], "mutable variable with static storage %s (%s) is not keyed by any policy: every policy shares it" % (nm, v["type"][:80]), (v["file"], v["line"]))
    for f in ast.funcs:
        fk = f.get("keys") or []
        if not fk:
            continue
        bad = []
        for kind, lst in (("static", f.get("srefs", [])), ("function", f.get("crefs", []))):
            for r in lst:
                if kind == "static" and r.get("const"):
                    continue
                if not cross_ok(ast, fk, r["keys"]):
                    if any(re.search(a, f["name"]) and re.search(b, r["name"]) for a, b, _ in EXEMPT_CROSS):
                        continue
                    bad.append((kind, r))
        run.instance(r_cross, "%s %s" % (label, f["name"]), (f["file"], f["line"]), ok=not bad, detail={"keys": fk})
        for kind, r in bad:
            fq = re.sub(r"<.*", "", f["name"])
            run.violation(r_cross, "%s|%s" % (fq[:120], re.sub(r"<.*", "", r["name"])[:120]),
                          "function %s (keyed by %s) references %s %s keyed by %s" % (f["name"][:200], ",".join(fk), kind, r["name"][:200], ",".join(r["keys"])),
                          (f["file"], r.get("line") or f["line"]))


def canary(run):
    path = common.ast_json(run, CANARY, "canary_c14", funcs="@none@", refs=True, self_root=True)
    ast = astq.Ast(path)
    unkeyed = [v["name"] for v in ast.vars if not v["const"] and not v["constexpr"] and not v["keys"] and "canary14" in v["name"]]
    cross = []
    for f in ast.funcs:
        if "canary14::peek<" in f["name"]:
            for r in f.get("srefs", []):
                if not cross_ok(ast, f["keys"], r["keys"]):
                    cross.append(f["name"])
    ok = unkeyed == ["yorel::yomm2::canary14::shared_counter"] and len(cross) == 1 and "pa" in cross[0]
    run.canaries.append({"canary": "c14 keys", "unkeyed": unkeyed, "cross": cross, "ok": ok})
    if not ok:
        raise common.AnalysisBroken("C14 canary: key extraction did not behave as expected: %s %s" % (unkeyed, cross))


# state that only exists when the program uses it: the `next` pointer holder of method::next<Container> (the same container tag used
# with methods of two policies) and the handler of policies configured with the same external handler provider
EXTRA_STATE = """
namespace yw_x { struct tag; struct key;
struct prov { static void default_error_handler(const error_type&); };
struct PA : policy::basic_policy<PA, policy::std_rtti, policy::fast_perfect_hash<PA>, policy::vptr_vector<PA>, policy::vectored_error<PA, prov>> {};
struct PB : PA::rebind<PB> {};
using MA = method<key, int(virtual_<yw::A&>), PA>; using MB = method<key, int(virtual_<yw::A&>), PB>;
void* n1() { return &MA::next<tag>::next; } void* n2() { return &MB::next<tag>::next; }
void h() { PA::error(error_type()); PB::error(error_type()); auto a = &PA::error; auto b = &PB::error; (void)a; (void)b; } }
"""


def check(run):
    canary(run)
    r1, r2, r3, r4 = "C14-keyed", "C14-cross", "C14-disjoint", "C14-rebind"
    run.rule(r1, "every mutable static of the library is keyed by a policy (named exemptions aside)", floor=100)
    run.rule(r2, "a function keyed by policy A references no static/function keyed by an unrelated policy", floor=300)
    pols = callpath.ALL_POLICIES
    run.rule(r3, "globals referenced on A's call path are not written by update<B> (IR effect sets)", floor=len(pols) * (len(pols) - 1))
    run.rule(r4, "rebind/replace/remove re-key facets to the new policy; nothing of the old policy is inherited; statics are distinct objects", floor=60)
    # AST: all policies in one unit over the same classes
    shapes = ["r", "rir", "V", "sS", "Xt", "rrr"] if run.tier == "quick" else callpath.shapes_for("quick")
    src, _ = witness.call_matrix(pols, shapes, witness.routes_block(pols) + "\n" + witness.update_block(pols) + "\n#include <yorel/yomm2/keywords.hpp>\n"
                                 "namespace yw_sh { struct ms : policy::debug_shared {}; void u1() { update<policy::debug_shared>(); } "
                                 "const std::uintptr_t* v(yw::A& a) { return policy::release_shared::dynamic_vptr(a); } }\n" + EXTRA_STATE)
    variants = [True] if run.tier == "quick" else [True, False]
    for nd in variants:
        ast = astq.Ast(common.ast_json(run, src, "c14_all_%s" % ("nd" if nd else "dbg"), ndebug=nd, funcs="@none@", refs=True))
        run.units.append({"unit": "c14_all", "ndebug": nd, "functions": len(ast.funcs), "statics": len(ast.vars), "policies": len(ast.policies)})
        keyed_rules(run, r1, r2, ast, "ndebug" if nd else "debug")
    # IR: disjointness (shared with C16)
    per_policy, upd = {}, {}
    units = callpath.build_units(run, pols, callpath.shapes_for("quick"), ndebug=True)
    for u in units:
        run.rule("C16-readonly", "(shared with C16; decided there)", floor=0)
        mod, an = c16.analyse_unit(run, u, "C16-readonly", per_policy)
        upd[u["policy"]], _ = c16.update_writes(mod, an, u["policy"])
    # C16's own verdict is not C14's: drop what analyse_unit recorded
    run.violations = [v for v in run.violations if v["rule"] != "C16-readonly"]
    del run.rules["C16-readonly"]
    for a in pols:
        for b in pols:
            if a == b:
                continue
            inter = sorted(set(per_policy[a]["reads"]) & {g for g in upd[b] if not g.startswith("*via ")})
            run.instance(r3, "reads(%s) vs writes(update<%s>)" % (a, b), ok=not inter)
            for g in inter:
                run.violation(r3, "%s|%s|%s" % (a, b, g[:200]), "global %s is read on the call path of policy %s and written by update<%s>()" % (g, a, b), upd[b][g])
    for ob, ok, msg in e3.run_unit(run, r4, rebind_unit()):
        if not ok:
            run.violation(r4, ob["key"], "%s: %s" % (ob["desc"], msg), "include/yorel/yomm2/policies/core.hpp")
    cu = e3.Unit("c14_convert", witness.PRELUDE + """
namespace c14c { using namespace yw; struct PA : policy::release::rebind<PA> {}; struct PB : policy::release::rebind<PB> {}; struct U { virtual ~U() {} }; }
using namespace c14c;
""")
    cu.add("convert|other-policy", "a virtual_ptr of one policy is not convertible to a virtual_ptr of another policy (same-named methods of two policies stay distinct overloads)",
           "static_assert(!std::is_convertible_v<virtual_ptr<B, PA>, virtual_ptr<A, PB>> && !std::is_convertible_v<virtual_ptr<A, PA>, virtual_ptr<A, PB>> && !std::is_convertible_v<virtual_ptr<std::shared_ptr<B>, PA>, virtual_ptr<std::shared_ptr<A>, PB>>);")
    cu.add("convert|other-policy|value-categories", "... whatever the value category and constness of the source", "static_assert(!std::is_convertible_v<const virtual_ptr<B, PA>&, virtual_ptr<A, PB>> && !std::is_convertible_v<virtual_ptr<B, PA>&, virtual_ptr<A, PB>> && !std::is_convertible_v<const virtual_ptr<B, PA>, virtual_ptr<A, PB>> && !std::is_convertible_v<const virtual_ptr<std::shared_ptr<B>, PA>&, virtual_ptr<std::shared_ptr<A>, PB>>);")
    cu.add("convert|same-policy", "within a policy a virtual_ptr to a derived class still converts to a virtual_ptr to its base",
           "static_assert(std::is_convertible_v<virtual_ptr<B, PA>, virtual_ptr<A, PA>> && std::is_convertible_v<virtual_ptr<std::shared_ptr<B>, PA>, virtual_ptr<std::shared_ptr<A>, PA>>);")
    cu.add("convert|object", "a virtual_ptr is still constructible from an object of its class or of a derived class",
           "static_assert(std::is_constructible_v<virtual_ptr<A, PA>, B&> && std::is_constructible_v<virtual_ptr<A, PA>, A&> && std::is_constructible_v<virtual_ptr<std::shared_ptr<A>, PA>, std::shared_ptr<B>>);")
    run.rule("C14-convert", "virtual_ptrs convert within their policy only: declaring a method in one policy cannot make calls or definitions of another policy ambiguous", floor=3)
    for ob, ok, msg in e3.run_unit(run, "C14-convert", cu):
        if not ok:
            run.violation("C14-convert", ob["key"], "%s: %s" % (ob["desc"], msg), "include/yorel/yomm2/core.hpp")
    run.rule("C14-default", "with a configured YOMM2_DEFAULT_POLICY, every API given no policy (class lists, methods, macros, virtual_ptr, final, update) uses that one policy", floor=8)
    for ob, ok, msg in e3.run_unit(run, "C14-default", default_unit()):
        if not ok:
            run.violation("C14-default", ob["key"], "%s: %s" % (ob["desc"], msg), "include/yorel/yomm2/core.hpp")
    run.assumptions += ["'keyed' = a policy type (derived from policy::abstract_policy) occurs among the template arguments of an enclosing specialisation",
                        "writes through pointers registered in a policy's own catalogs (static_vptr, slots_strides_ptr) are attributed to that policy by construction of the registration objects (C18-pair checks the constructors)",
                        "error-handler identity: Q::error / Q::call_error are distinct objects from S::error (C14-rebind); what a user handler does is outside"]
    from .. import crules as _cr
    _cr.facet_rules(run, "C14-facets")
    return run.finish(level="other", explanation="AST rule over all static-storage variables and all instantiated functions of a unit that holds nine policies over "
                      "the same classes (keys = policy types in enclosing template arguments), IR effect-set disjointness between one policy's call path and "
                      "another policy's update, and type-checker witnesses for rebind/replace/remove.",
                      extra_cov={"exempt_unkeyed": EXEMPT_UNKEYED, "exempt_cross": [{"function": a, "target": b, "reason": c} for a, b, c in EXEMPT_CROSS]})
