"""C18 - registration catalogs hold exactly the live registrations, in order (claimed in part)."""
from .. import common, crules


def check(run):
    r = ["C18-link", "C18-reset", "C18-pair", "C18-idem"]
    run.rule(r[0], "push_back / remove, interpreted over every list-shape case (empty / one / several; only, first, second, middle, second-to-last, last element), leave the list linked as the invariant requires", floor=30)
    run.rule(r[1], "remove / clear reset the removed node's links, so it can be registered again", floor=24)
    run.rule(r[2], "every catalog registration made in a constructor has an unconditional removal from the same catalog in the destructor", floor=6)
    run.rule(r[3], "add_function registers a definition once: already registered -> no push; otherwise method set, then pushed", floor=3)
    run.rule("C18-enum", "enumeration: begin() starts at first, end() is the null iterator, ++ follows next_ptr, */-> give the node, ==/!= compare nodes, empty() <=> no first node, size() = steps from begin() to end() (or a maintained count)", floor=8)
    for nd in ([True] if run.tier == "quick" else [True, False]):
        ast, _ = crules.unit(run, ndebug=nd)
        crules.list_rules(run, r[0], r[1], r[2], r[3], ast)
        crules.enum_rules(run, "C18-enum", ast)
        crules.record_rules(run, r[3], ast)
    crules.postfix_rules(run, "C18-enum")
    run.assumptions += ["the case analysis is over the shape of the list at the call (empty / only / first / last / interior element), with the documented invariant "
                        "'first->prev points at the last node, last->next is null'; that these local updates compose to a correct list for every history is the "
                        "induction this rule is the step of - the induction itself (all histories) is not mechanised here",
                        "that walking next links from `first` visits every live item exactly once follows from the link invariant (C18-link) and the iterator rules (C18-enum)"]
    return run.finish(level="other", explanation="AST decision tables: each static_list operation is evaluated by path enumeration under each list-shape case and the set of "
                      "link assignments (canonicalised by role: node, PREV, NEXT, LAST, first) is compared with the one the invariant requires; constructor / "
                      "destructor pairing of catalog calls by resolved list and node; CFG control dependence of the removals; idempotence of add_function.")
