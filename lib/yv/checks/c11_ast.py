"""C11-casts (AST): on the argument-conversion path every conversion between class pointers /
references is a derived<->base or dynamic cast; a bit cast (reinterpret_cast, C cast between
unrelated classes) would be wrong at a non-zero base offset."""
import re
from .. import common, astq

FUNCS = "optimal_cast|::cast<|thunk<|dynamic_cast_ref|::rarg|::unbox|::box<"
BAD = {"BitCast", "LValueBitCast", "IntegralToPointer", "PointerToIntegral", "ReinterpretMemberPointer", "LValueToRValueBitCast"}
GOOD_DOWN = {"BaseToDerived", "Dynamic"}


def check(run):
    from . import c11
    rule = "C11-casts"
    run.rule(rule, "conversions between class pointers/references on the argument path are DerivedToBase/BaseToDerived/Dynamic, never bit casts", floor=20)
    u = c11.types_unit(run.tier)
    # the must-compile programs (all parameter kinds x inheritance shapes) instantiate the conversion helpers
    src = "\n".join(l for k, l in enumerate(u.lines, 1) if (k not in u.obls) or u.obls[k]["key"].startswith("must-compile"))
    ast = astq.Ast(common.ast_json(run, src, "c11_casts", funcs=FUNCS))
    run.units.append({"unit": "c11_casts", "functions": len(ast.funcs)})
    down = 0
    for f in ast.funcs:
        if f.get("body") is None:
            continue
        if not re.search(r"optimal_cast|::cast<|thunk<|dynamic_cast_ref", f["name"]):
            continue
        bad = []
        n_down = 0
        for n in astq.walk(f["body"]):
            ck = n.get("ck")
            if not ck:
                continue
            if ck in GOOD_DOWN:
                n_down += 1
            if ck in BAD and ("c11::" in (n.get("t") or "") or "c11::" in (n.get("from") or "")):
                bad.append(n)
        down += n_down
        run.instance(rule, f["name"][:200], (f["file"], f["line"]), ok=not bad, detail={"down_casts": n_down})
        for n in bad:
            fq = re.sub(r"<.*", "", f["name"])
            run.violation(rule, "%s|%s" % (fq, n["ck"]), "%s converts %s to %s with a %s (bit cast) instead of a derived/base or dynamic cast" % (f["name"][:160], n.get("from"), n.get("t"), n["ck"]),
                          (f["file"], n["l"]))
    if down < 2:
        run.broken.append("C11-casts saw only %d BaseToDerived/Dynamic casts in the conversion helpers" % down)
