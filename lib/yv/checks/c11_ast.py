"""C11-casts (AST): on the argument-conversion path every conversion between class pointers /
references is a derived<->base or dynamic cast; a bit cast (reinterpret_cast, C cast between
unrelated classes) would be wrong at a non-zero base offset."""
import re
from .. import common, astq

FUNCS = "optimal_cast|::cast<|thunk<|dynamic_cast_ref|::rarg|::unbox|::box<|add_function<"
BAD = {"BitCast", "LValueBitCast", "IntegralToPointer", "PointerToIntegral", "ReinterpretMemberPointer", "LValueToRValueBitCast"}
GOOD_DOWN = {"BaseToDerived", "Dynamic"}


def check(run, rule="C11-casts", only_casts=False):
    from . import c11
    run.rule(rule, "conversions between class pointers/references on the argument path are DerivedToBase/BaseToDerived/Dynamic, never bit casts", floor=20)
    u = c11.types_unit(run.tier)
    # the must-compile programs (all parameter kinds x inheritance shapes) instantiate the conversion helpers
    src = "\n".join(l for k, l in enumerate(u.lines, 1) if (k not in u.obls) or u.obls[k]["key"].startswith("must-compile"))
    ast = astq.Ast(common.ast_json(run, src, "c11_casts", funcs=FUNCS))
    run.units.append({"unit": "c11_casts", "functions": len(ast.funcs)})
    down = 0
    for f in ast.funcs:
        if f.get("body") is None:
            continue
        if not re.search(r"optimal_cast|::cast<|thunk<|dynamic_cast_ref", f["name"]):
            continue
        bad = []
        n_down = 0
        for n in astq.walk(f["body"]):
            ck = n.get("ck")
            if not ck:
                continue
            if ck in GOOD_DOWN:
                n_down += 1
            if ck in BAD and ("c11::" in (n.get("t") or "") or "c11::" in (n.get("from") or "")):
                bad.append(n)
        down += n_down
        run.instance(rule, f["name"], (f["file"], f["line"]), ok=not bad, detail={"down_casts": n_down})
        for n in bad:
            fq = re.sub(r"<.*", "", f["name"])
            run.violation(rule, "%s|%s" % (fq, n["ck"]), "%s converts %s to %s with a %s (bit cast) instead of a derived/base or dynamic cast" % (f["name"][:160], n.get("from"), n.get("t"), n["ck"]),
                          (f["file"], n["l"]))
    if down < 2:
        run.broken.append("C11-casts saw only %d BaseToDerived/Dynamic casts in the conversion helpers" % down)

    if only_casts:
        return
    ownership_rule(run, ast)
    thunk_rule(run, ast)
    conv_source_rule(run)


SHARING = r"^std::(static|dynamic|const|reinterpret)_pointer_cast<"


def _refers_to_param(n, did):
    n = astq.strip(n)
    return n is not None and n.get("k") == "DeclRefExpr" and n["ref"].get("did") == did


def _owner_of(n, did, locals_):
    """'param' when the shared_ptr value `n` shares ownership with parameter `did`; a description of what
    it is built from otherwise; None when the shape is not recognised."""
    n = astq.strip(n)
    if n is None:
        return None
    k = n.get("k")
    if _refers_to_param(n, did):
        return "param"
    if k == "DeclRefExpr" and n["ref"].get("did") in locals_:
        return _owner_of(locals_[n["ref"]["did"]], did, {})
    if k == "CallExpr" and re.search(SHARING, astq.callee_name(n)):
        args = (n.get("c") or [])[1:]
        return _owner_of(args[0], did, locals_) if args else None
    if k == "CXXConstructExpr" and re.match(r"^std::(shared_ptr|__shared_ptr)<", astq.callee_name(n)):
        args = n.get("c") or []
        if not args:
            return "a default-constructed (empty) shared_ptr"
        o = _owner_of(args[0], did, locals_)
        if o is None:
            return "shared_ptr constructed from `%s`" % astq.text(args[0])[:80]
        return o
    if k in ("CXXTemporaryObjectExpr",):
        return "a default-constructed (empty) shared_ptr"
    if k == "ConditionalOperator":
        a, b = _owner_of(n["c"][1], did, locals_), _owner_of(n["c"][2], did, locals_)
        return a if a == b else (a if a != "param" else b)
    return None


def ownership_rule(run, ast):
    """a shared_ptr argument converted for a definition shares ownership with the caller's pointer: the
    conversion helpers return std::{static,dynamic}_pointer_cast of (or a shared_ptr whose owner is) their parameter"""
    rule = "C11-ownership"
    run.rule(rule, "shared_ptr conversions on the argument path return a pointer that shares ownership with the argument", floor=4)
    for f in ast.funcs:
        if f.get("body") is None or not re.search(r"virtual_(ptr_)?traits<.*::cast<", f["name"]):
            continue
        ps = f.get("params") or []
        if len(ps) != 1 or not re.match(r"^const std::shared_ptr<.*> &$", ps[0]["type"]):
            continue
        did = ps[0]["did"]
        locals_ = {}
        for n in astq.walk(f["body"]):
            if n.get("k") == "DeclStmt":
                for d in n["decls"]:
                    if d.get("init") is not None:
                        locals_[d["did"]] = d["init"]
        rets = [n for n in astq.walk(f["body"]) if n.get("k") == "ReturnStmt" and n.get("c")]
        if not rets:
            run.broken.append("C11-ownership: no return statement in %s" % f["name"][:120])
            continue
        owners = [(_owner_of(r["c"][0], did, locals_), r) for r in rets]
        ok = all(o == "param" for o, _ in owners)
        run.instance(rule, f["name"], (f["file"], f["line"]), ok=ok)
        for o, r in owners:
            if o == "param":
                continue
            if o is None:
                run.broken.append("C11-ownership: unrecognised return shape in %s: %s" % (f["name"][:100], astq.text(r["c"][0])[:100]))
            else:
                fq = re.sub(r"<.*", "", f["name"].replace("yorel::yomm2::", ""))
                kind = "const-ref" if "const std::shared_ptr" in f["name"].split("::cast<")[0] else "value"
                run.violation(rule, "%s|%s|owner" % (fq, kind), "%s returns %s: the converted pointer does not share ownership with the caller's shared_ptr" % (f["name"][:160], o), (f["file"], r["l"]))


def conv_source_rule(run):
    """the caller's own virtual_ptr survives the conversion to the definition's (or the method's) parameter type: a converting
    constructor that takes its source by LVALUE reference (const or not) copies it - the source is never cast to an rvalue
    (std::move / std::forward / static_cast<T&&>) on its way into the new pointer. Only the rvalue overload may move."""
    from .. import witness
    rule = "C11-ownership"
    pols = ["release"] if run.tier == "quick" else ["release", "debug", "p_ind", "p_map"]
    body = ""
    for k, p in enumerate(pols):
        P = witness.POLICIES[p]
        body += """
namespace yc%d { using namespace yw;
void conv(virtual_ptr<std::shared_ptr<B>, %s>& l, const virtual_ptr<std::shared_ptr<B>, %s>& c, virtual_ptr<B, %s>& pl, const virtual_ptr<B, %s>& pc) {
  virtual_ptr<std::shared_ptr<A>, %s> a(l); virtual_ptr<std::shared_ptr<A>, %s> b(c); virtual_ptr<std::shared_ptr<A>, %s> m(std::move(l));
  virtual_ptr<A, %s> d(pl); virtual_ptr<A, %s> e(pc);
}}
""" % ((k,) + (P,) * 9)
    ast = astq.Ast(common.ast_json(run, witness.PRELUDE + body, "c11_conv", funcs="virtual_ptr<"))
    seen = {"lvalue": 0, "rvalue-moves": 0}
    for f in ast.funcs:
        ps = f.get("params") or []
        if not re.search(r"virtual_ptr<.*>::virtual_ptr<", f["name"]) or len(ps) != 1 or "virtual_ptr<" not in (ps[0].get("type") or ""):
            continue
        pt = ps[0]["type"].rstrip()
        did = ps[0]["did"]
        roots = [i.get("init") for i in f.get("inits") or [] if i.get("init") is not None] + ([f["body"]] if f.get("body") else [])
        moved = []
        for r in roots:
            for n in astq.walk(r):
                xv = (n.get("k") == "CallExpr" and re.match(r"^std::(move|forward)<", n.get("callee") or "")) or \
                     (n.get("k") in ("CXXStaticCastExpr", "CStyleCastExpr", "CXXFunctionalCastExpr") and (n.get("t") or "").rstrip().endswith("&&"))
                if xv and any(_refers_to_param(x, did) for x in astq.walk(n)):
                    moved.append(n)
        if pt.endswith("&&"):
            seen["rvalue-moves"] += 1 if moved else 0
            continue
        seen["lvalue"] += 1
        short = f["name"].replace("yorel::yomm2::", "")[:120] + "(" + pt.replace("yorel::yomm2::", "")[-40:] + ")"
        run.instance(rule, "%s: the source, taken by lvalue reference, is copied and left intact" % short, (f["file"], f["line"]), ok=not moved)
        for n in moved:
            run.violation(rule, "virtual_ptr::virtual_ptr(virtual_ptr<Other>&)|moves-lvalue", "%s casts its lvalue source to an rvalue (`%s`): the caller's virtual_shared_ptr is emptied when it is converted to the parameter type, the definition no longer shares ownership with the caller" % (
                short, astq.text(n)[:60]), (f["file"], n.get("l", f["line"])))
    if seen["lvalue"] < 4 * len(pols) or seen["rvalue-moves"] < 1:
        run.broken.append("C11-ownership: converting constructors not all found (%s)" % seen)


def thunk_rule(run, ast):
    """every definition is reached through its thunk: add_function stores thunk<Policy, signature, F, ...>::fn of the same F in
    the definition record, whatever the definition's parameter classes (the thunk is what converts and forwards the arguments)"""
    rule = "C11-thunk"
    run.rule(rule, "add_function registers the definition's thunk (never the function itself) as the dispatch target", floor=6)
    for f in ast.funcs:
        if f.get("body") is None or not re.search(r"add_function<.*>::add_function$", f["name"]):
            continue
        asg = [n for n in astq.walk(f["body"]) if n.get("k") == "BinaryOperator" and n.get("op") == "=" and astq.strip(n["c"][0]).get("k") == "MemberExpr" and astq.strip(n["c"][0]).get("member") == "pf"]
        if not asg:
            run.broken.append("C11-thunk: no assignment of the definition record's function in %s" % f["name"][:120])
            continue
        fm = re.search(r"add_function<(.*)>::add_function$", f["name"])
        target = fm.group(1).lstrip("&") if fm else "?"
        bad = []
        for n in asg:
            refs = [x["ref"]["name"] for x in astq.walk(n["c"][1]) if x.get("k") == "DeclRefExpr" and x["ref"].get("dk") in ("Function", "CXXMethod")]
            okn = len(refs) == 1 and re.search(r"detail::thunk<.*>::fn$", refs[0]) and target.split("::")[-1] in refs[0]
            if not okn:
                bad.append((n, refs))
        run.instance(rule, f["name"], (f["file"], f["line"]), ok=not bad)
        for n, refs in bad:
            run.violation(rule, "method::add_function|target", "%s registers `%s` as the function to call: the arguments then reach the definition without the thunk's conversions (address adjustment, smart-pointer cast, forwarding)" % (
                f["name"][:140], (refs[0] if refs else astq.text(n["c"][1]))[:100]), (f["file"], n["l"]))
