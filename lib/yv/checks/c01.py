"""C01 - a call runs the most specific applicable definition (claimed in part)."""
from .. import common, callpath, walk


def check(run):
    pols = callpath.ALL_POLICIES
    shapes = callpath.shapes_for(run.tier)
    r = "C01-walk"
    run.rule(r, "the pointer operator() calls / resolve returns is the documented slots-then-strides walk over exactly the virtual arguments",
             floor=len(pols) * len(shapes))
    from . import c09
    r6 = "C01-vptr"
    run.rule(r6, "object -> v-table pointer: dynamic_vptr reads the policy's table at the (hashed) dynamic type id; publish_vptrs writes each class's pointer at the (hashed) id of each of its ids", floor=12)
    variants = [True] if run.tier == "quick" else [True, False]
    for nd in variants:
        units = callpath.build_units(run, pols, shapes, ndebug=nd)
        for u in units:
            walk.check_unit(run, u, r)
            c09.table_reader_rule(run, u, r6)
    if run.tier == "thorough":
        from .. import irq
        n = 0
        rus = callpath.repo_units(run)
        for u in rus:
            n += walk.check_module_generic(run, irq.Module(u["path"]), r, u["file"])
        run.units.append({"unit": "repository units (compile database)", "count": len(rus), "method_instantiations": n})
    from .. import crules
    r2, r3 = "C01-order", "C01-cells"
    run.rule(r2, "is_more_specific is the documented per-position decision table over {equal, derived, base, unrelated}", floor=3)
    run.rule(r3, "dispatch cell = sole best definition / not_implemented when none / ambiguous when several", floor=12)
    r5 = "C01-table"
    run.rule(r5, "geometry of the dispatch table: strides are running products of group counts, cells are pushed row-major with dimension 0 fastest, v-table entries carry the "
             "group number in iteration order, install_gv stores definition pointer / table base + group / group number", floor=12)
    r4 = "C01-applicable"
    run.rule(r4, "a definition applies to a class iff the class is in the covariant set (class + all derived) of the definition's parameter class at that position", floor=6)
    for nd in variants:
        ast, _ = crules.unit(run, ndebug=nd)
        crules.order_rules(run, r2, None, ast)
        crules.cells_rules(run, r3, None, None, ast)
        crules.applicable_rules(run, r4, ast)
        crules.table_rules(run, r5, ast)
        run.rule("C01-best", "best(): candidate beats member -> only that member is erased; member beats candidate -> candidate dropped, scan stops; otherwise next member; survivor appended", floor=3)
        crules.best_rules(run, "C01-best", ast)
        c09.table_writer_rule(run, ast, r6)
        run.rule("C01-slots", "a v-table cell belongs to one method parameter: a slot taken in a class is reserved in all its transitive bases and marked used in all covariant classes", floor=4)
        crules.reserve_rules(run, "C01-slots", ast)
        crules.alloc_rules(run, "C01-slots", ast)
        crules.mark_rules(run, "C01-slots", ast)
        run.rule("C01-model", "augment_methods: run-time methods/definitions mirror the registrations one to one (function pointers, parameter classes from the own id lists in order, error cells, (method, parameter) pairs)", floor=8)
        crules.model_rules(run, "C01-model", ast)
        crules.idem_rules(run, "C01-model", ast)
        # indirect policies: the table of addresses must point at the classes' own static v-table pointers (valid across updates)
        c09.ast_rules(run, r6, ast, table=False)
        # what the tables are built FROM and installed INTO: a change there changes which definition runs just as well
        if "C01-classes" not in run.rules:
            run.rule("C01-classes", "the class lattice update works on: every listed base of every record is merged, classes are told apart by their class_map entry (after type_index)", floor=6)
            run.rule("C01-layout", "v-table cell written at slot - first_slot, pointer installed with the same bias, dispatch data sized for every cell", floor=8)
            run.rule("C01-hash", "type-id hash: accepted only after a collision-free scan, probed with the expression hash_type_id computes, published by every update; deferred ids resolved once", floor=20)
            for x in ("C01-h2", "C01-h3", "C01-h4", "C01-h5"):
                run.rule(x, "(sub-rules of C01-hash)", floor=0)
        crules.merge_rules(run, "C01-classes", None, ast)
        crules.lookup_rules(run, "C01-classes", None, ast)
        crules.bias_rules(run, "C01-layout", ast)
        crules.size_rules(run, "C01-layout", ast)
        crules.hash_rules(run, "C01-hash", "C01-hash", "C01-hash", "C01-hash", "C01-hash", ast)
        crules.deferred_rules(run, "C01-hash", "C01-hash", "C01-hash", ast)
        crules.phase_rules(run, "C01-classes", ast)
    for x in ("C01-h2", "C01-h3", "C01-h4", "C01-h5"):
        run.rules.pop(x, None)
    run.assumptions += ["v-table pointer acquisition (Policy::dynamic_vptr, virtual_ptr::_vptr) is an opaque leaf here; its content is decided by C09 / C15",
                        "the tables themselves (which definition sits in which cell) are values computed by update: not decided"]
    # the most specific definition can only run if it was registered: registration helpers construct one registration object per
    # definition, also above the 512-element split of aggregate<> (E3 unit shared with C20-aggregate)
    from . import c20
    from .. import e3
    run.rule("C01-registered", "aggregate<...> (what use_definitions builds) holds exactly one registration object per definition on both sides of the 512-element split", floor=8)
    for ob, ok, msg in e3.run_unit(run, "C01-registered", c20.aggregate_unit(run.tier)):
        if not ok:
            run.violation("C01-registered", ob["key"], "%s: %s" % (ob["desc"], msg), "include/yorel/yomm2/templates.hpp")
    # a definition may call on with the virtual_ptr it received: that pointer must still carry the v-table pointer of the OBJECT's class
    # (cast<> and the converting constructors copy it), or the nested call dispatches as if the object were of the definition's class
    from . import c09
    run.rule("C01-carry", "virtual_ptr arguments reach the definition with the caller's v-table pointer (cast<> / converting constructors copy it)", floor=4)
    for x in ("C01-y0", "C01-y1", "C01-y3"):
        run.rule(x, "(decided by C09)", floor=0)
    for u in callpath.build_units(run, ["release"] if run.tier == "quick" else ["release", "debug", "p_ind"], ["V", "W", "X", "Y"], ndebug=True, tag="c11v"):
        c09.ir_rules(run, u, "C01-y0", "C01-y1", "C01-carry", "C01-y3")
    run.violations = [v for v in run.violations if not v["rule"].startswith("C01-y")]
    for x in ("C01-y0", "C01-y1", "C01-y3"):
        del run.rules[x]
    from .. import crules as _cr
    _cr.basemap_rules(run, "C01-bases")
    _cr.facet_rules(run, "C01-facets")
    return run.finish(level="other", explanation="Symbolic summary (LLVM IR after mem2reg, library calls substituted) of the function pointer that "
                      "method::operator() calls and that resolve() returns, for every method of the witness matrix, compared structurally "
                      "(modulo commutativity) with the documented walk. Decides the call-time half of dispatch; not the table contents.",
                      extra_cov={"policies": pols, "shapes": shapes})
