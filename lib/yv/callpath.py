"""Per-policy witness units for the call path and for update, shared by the
C16 / C14 / C02 / C01 / C09 / C15 rules."""
import re
from . import common, witness, irq, eff

ALL_POLICIES = [p for p in witness.POLICIES if p != "p_noerr"]     # p_noerr only takes part in the compiler / hash AST rules


def shapes_for(tier):
    return witness.shapes_quick() if tier == "quick" else witness.shapes_thorough()


STATIC_SHAPES = ["r", "ir", "rr", "rir", "rrr", "irnrp".replace("n", "i"), "rrrr", "VW", "sSd"]


def unit_source(policy, shapes, with_update=True, with_routes=True, static_shapes=()):
    extra = []
    if with_routes:
        extra.append(witness.routes_block([policy]))
    if with_update:
        extra.append(witness.update_block([policy]))
    src, index = witness.call_matrix([policy], shapes, "\n".join(extra), static_shapes=static_shapes)
    return src, index


def build_units(run, policies, shapes, ndebug=True, with_update=True, static_shapes=(), tag="cp"):
    """-> list of dict(policy, module, index, name)"""
    def one(p):
        src, index = unit_source(p, shapes, with_update=with_update, static_shapes=static_shapes)
        name = "%s_%s_%s" % (tag, p, "nd" if ndebug else "dbg")
        path = common.ir_json(run, src, name, ndebug=ndebug)
        return {"policy": p, "path": path, "index": index, "name": name, "ndebug": ndebug}
    units = common.parallel(one, policies)
    for u in units:
        u["module"] = irq.Module(u["path"])
        run.units.append({"unit": u["name"], "policy": u["policy"], "shapes": len(shapes),
                          "functions_with_body": sum(1 for f in u["module"].funcs.values() if f.body)})
    return units


def arg_groups(fn):
    """group IR arguments by source parameter (clang names coerced pieces `x.coerce0`, `x.coerce1`).
    -> list of (stem, [ir indexes]) in order; sret / this get stems '<sret>' / 'this'."""
    groups = []
    for k, a in enumerate(fn.args):
        nm = a.get("name", "")
        if a.get("sret"):
            stem = "<sret>"
        else:
            stem = re.sub(r"\.coerce\d*$", "", nm)
        # SysV x86-64 passes a small aggregate in at most two registers: a third piece with the same stem
        # belongs to the next parameter (consecutive pack elements share the stem `args`)
        if groups and groups[-1][0] == stem and stem not in ("", "<sret>") and ".coerce" in nm and len(groups[-1][1]) < 2 \
                and ".coerce" in fn.args[groups[-1][1][0]].get("name", ""):
            groups[-1][1].append(k)
        else:
            groups.append((stem, [k]))
    return groups


def own_args(fn, params):
    """IR arg indexes owned by the caller's thread: sret slot, by-value and rvalue-reference
    parameters. params: source parameter type strings (None = unknown -> only sret/byval)."""
    own = set()
    groups = arg_groups(fn)
    src = [g for g in groups if g[0] not in ("<sret>",)]
    for stem, idxs in groups:
        if stem == "<sret>":
            own.update(idxs)
    for k, a in enumerate(fn.args):
        if a.get("byval"):
            own.add(k)
    if params is not None:
        # member functions: first source group is `this`
        if len(src) == len(params) + 1 and src and src[0][0] == "this":
            src = src[1:]
        if len(src) == len(params):
            for (stem, idxs), ty in zip(src, params):
                t = ty.strip()
                if t.endswith("&&") or not (t.endswith("&") or t.endswith("*")):
                    own.update(idxs)
    return own


def entries(mod):
    """call-path entry functions of a unit: the witness wrappers (thin functions written by the
    generator) and every thunk<...>::fn (what a definition pointer points to)."""
    out = []
    for f in mod.funcs.values():
        if not f.body:
            continue
        d = f.dname
        if re.match(r"^(w|so)_\w+::(call|res)\(", d) or d.startswith("yw_routes::routes<"):
            out.append(("wrapper", f))
        elif re.search(r"yorel::yomm2::detail::thunk<.*>::fn\(", d):
            out.append(("thunk", f))
        elif re.search(r"yorel::yomm2::method<.*>::(not_implemented|ambiguous)_handler\(", d):
            out.append(("handler", f))     # what the error cells of a dispatch table point to
    return out


def repo_units(run):
    """the repository's own translation units (tests, documentation examples, compiler-explorer samples) compiled to IR
    with the flags of the compile database (include paths and defines; -std=gnu++17 forced). Units clang cannot compile
    are skipped and listed. Only available when <root> is a full checkout (scratch copies of include/ have none)."""
    import glob
    import json as _json
    import os
    import shlex
    root = run.root
    entries = []
    bn = os.path.join(root, "_build", "build.ninja")
    if os.path.exists(bn):
        r = common.sh(["ninja", "-C", os.path.join(root, "_build"), "-t", "compdb"])
        if r.returncode == 0:
            try:
                seen = set()
                for e in _json.loads(r.stdout):
                    f = e["file"]
                    if not f.endswith(".cpp") or f in seen or not f.startswith(root + "/"):
                        continue
                    seen.add(f)
                    fl = [t for t in shlex.split(e["command"]) if t.startswith(("-I", "-D", "-fno-rtti"))]
                    entries.append((f, fl))
            except ValueError:
                pass
    if not entries and os.path.isdir(os.path.join(root, "tests")):
        for f in sorted(glob.glob(os.path.join(root, "tests", "*.cpp")) + glob.glob(os.path.join(root, "docs.in", "**", "*.cpp"), recursive=True) + glob.glob(os.path.join(root, "ce", "*.cpp"))):
            entries.append((f, ["-I" + run.inc, "-DNDEBUG"]))
    units = []
    skipped = []

    def one(e):
        f, fl = e
        name = "repo_" + os.path.relpath(f, root).replace("/", "_").replace(".cpp", "")
        return f, common.ir_json_file(run, f, [common.STD] + fl, name)
    for f, pth in common.parallel(one, entries):
        if pth is None:
            skipped.append(os.path.relpath(f, root))
        else:
            units.append({"file": os.path.relpath(f, root), "path": pth})
    run.notes.append("repository units: %d compiled, %d skipped (clang could not compile them: %s)" % (len(units), len(skipped), skipped[:6]))
    return units


def generic_entries(mod):
    """call-path entries of an arbitrary unit: every method::operator() / resolve, thunk, resolution handler and
    virtual_ptr member instantiated in it."""
    out = []
    for f in mod.funcs.values():
        if not f.body:
            continue
        d = irq.strip_ret(f.dname)
        if re.search(r"^yorel::yomm2::method<.*>::operator\(\)\(", d) and "::add_function<" not in d:
            out.append(("method::operator()", f))
        elif re.search(r"yorel::yomm2::detail::thunk<.*>::fn\(", d):
            out.append(("thunk", f))
        elif re.search(r"^yorel::yomm2::method<.*>::(not_implemented|ambiguous)_handler\(", d):
            out.append(("handler", f))
        elif d.startswith("yorel::yomm2::virtual_ptr<") or d.startswith("yorel::yomm2::final_virtual_ptr<") or d.startswith("yorel::yomm2::make_virtual_shared<"):
            out.append(("virtual_ptr", f))
    return out
