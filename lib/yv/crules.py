"""AST / CFG rules over compiler<Policy> (detail/compiler.hpp), shared by C01, C03, C04, C07, C08,
C10, C15, C17. Each rule works on the instantiated bodies dumped by yast for the policies of the unit."""
import re
from . import astq, dtab, common

COMPILER_FUNCS = ("compiler<|generic_compiler::accumulate|fast_perfect_hash<|checked_perfect_hash<|vptr_vector<|vptr_map<|"
                  "static_list<|class_declaration_aux<|definition_info::~|method<")
CFG_FUNCS = "build_dispatch_tables|augment_classes|augment_methods|resolve_static_type_ids|hash_initialize|publish_vptrs|hash_type_id|install_gv|static_list<|add_function"


def pol_of(f):
    m = re.search(r"compiler<(.*)>::\w+$", f["name"])
    return m.group(1) if m else "?"


def by_name(ast, suffix):
    return [f for f in ast.funcs if f.get("body") and re.search(r"compiler<.*>::%s$" % suffix, f["name"])]


def short(f):
    return re.sub(r"yorel::yomm2::(detail::)?", "", f["name"])[:110]


# ---------------------------------------------------------------------------
# (1) specificity order and base filter

def order_rules(run, r_ms, r_base, ast):
    ms = {f["name"]: f for f in by_name(ast, "is_more_specific")}
    bs = {f["name"]: f for f in by_name(ast, "is_base")}
    allf = dict(ms)
    allf.update(bs)
    for rule, fs, oracle, what in ((r_ms, ms, dtab.MORE_SPECIFIC, "is_more_specific"), (r_base, bs, dtab.IS_BASE, "is_base")):
        if rule is None:
            continue
        if not fs:
            raise common.AnalysisBroken("compiler<P>::%s not instantiated" % what)
        for f in fs.values():
            try:
                t = dtab.order_table(f, allf)
            except dtab.Unclassifiable as e:
                run.broken.append("%s: decision table not extractable (%s)" % (short(f), e))
                continue
            ok = t == oracle
            run.instance(rule, "%s per-position table %s" % (short(f), t["per"]), (f["file"], f["line"]), ok=ok)
            if not ok:
                diffs = ["%s: %s (documented: %s)" % (k, t["per"].get(k), oracle["per"][k]) for k in dtab.RELS if t["per"].get(k) != oracle["per"][k]]
                if t["init"] != oracle["init"]:
                    diffs.append("initial value %s" % t["init"])
                if t["final"] != oracle["final"]:
                    diffs.append("final result %s" % t["final"])
                run.violation(rule, "compiler::%s|%s" % (what, ",".join(sorted(k for k in dtab.RELS if t["per"].get(k) != oracle["per"][k])) or "init/final"),
                              "%s deviates from the documented ordering at a position where the classes are: %s" % (what, "; ".join(diffs)), (f["file"], f["line"]))


# ---------------------------------------------------------------------------
# (2) cells and counters in build_dispatch_table

def _is_addr_of_member(n, member):
    n = astq.strip(n)
    if n is not None and n.get("k") == "UnaryOperator" and n.get("op") == "&":
        t = astq.strip(n["c"][0])
        return t is not None and t.get("k") == "MemberExpr" and t.get("member") == member
    return False


def _first_of(n, did):
    """expression is <var>[0] / <var>.front() / *<var>.begin()"""
    n = astq.strip(n)
    if n is None:
        return False
    uses = any(x.get("k") == "DeclRefExpr" and x["ref"]["did"] == did for x in astq.walk(n))
    if not uses:
        return False
    if n.get("k") == "CXXOperatorCallExpr" and n.get("oop") == "[]":
        return astq.affine(n["c"][2]) == {}
    if n.get("k") == "CXXMemberCallExpr" and (n.get("callee") or "").endswith("::front"):
        return True
    if n.get("k") == "CXXOperatorCallExpr" and n.get("oop") == "*":
        return any(x.get("k") == "CXXMemberCallExpr" and (x.get("callee") or "").endswith("::begin") for x in astq.walk(n))
    if n.get("k") == "DeclRefExpr":
        return False
    return False


def _find_best_var(body, names=("best",)):
    """DeclStmt declaring a variable initialised with a call of compiler::best -> (decl, parent compound, index)"""
    out = []

    def rec(n):
        if n.get("k") == "CompoundStmt":
            cs = n.get("c") or []
            for i, s in enumerate(cs):
                if s.get("k") == "DeclStmt":
                    for d in s["decls"]:
                        init = d.get("init")
                        if init is not None and any(x.get("k") == "CallExpr" and re.search(r"::best$", x.get("callee") or "") for x in astq.walk(init)):
                            out.append((d, n, i))
        for c in astq.kids_nodup(n):
            rec(c)
    rec(body)
    return out


def cells_rules(run, r_cells, r_pair, r_guard, ast):
    fs = by_name(ast, "build_dispatch_table")
    if not fs:
        raise common.AnalysisBroken("compiler<P>::build_dispatch_table not instantiated")
    for f in fs:
        bv = _find_best_var(f["body"])
        if len(bv) != 1:
            run.broken.append("%s: expected one best(...) result variable, found %d" % (short(f), len(bv)))
            continue
        d, comp, idx = bv[0]
        rest = {"k": "CompoundStmt", "id": -1, "l": d.get("l", 0), "c": (comp.get("c") or [])[idx + 1:]}
        counters = ("ambiguous", "not_implemented", "concrete_ambiguous", "concrete_not_implemented")

        def want(n):
            if n.get("k") == "CXXMemberCallExpr" and (n.get("callee") or "").endswith("::push_back") and any(x.get("member") == "dispatch_table" for x in astq.walk(n["c"][0])):
                return True
            if n.get("k") == "UnaryOperator" and n.get("op") == "++":
                t = astq.strip(n["c"][0])
                return t.get("k") == "MemberExpr" and t.get("member") in counters
            return False
        table = {}
        for nval in (0, 1, 2, 3):
            paths = astq.enum_paths(rest, dtab.size_decide(d["did"], nval), want)
            pushes = set()
            incs = {}
            for p in paths:
                atoms = dtab.guard_atoms(p["guards"])
                for kind, n in p["events"]:
                    if n.get("k") == "CXXMemberCallExpr":
                        a = n["c"][1]
                        if _is_addr_of_member(a, "ambiguous"):
                            pushes.add("ambiguous")
                        elif _is_addr_of_member(a, "not_implemented"):
                            pushes.add("not_implemented")
                        elif _first_of(a, d["did"]) or (astq.strip(a).get("k") == "DeclRefExpr" and _var_is_first(rest, astq.strip(a)["ref"]["did"], d["did"])):
                            pushes.add("the sole element")
                        else:
                            pushes.add("other:" + astq.text(a))
                    else:
                        c = astq.strip(n["c"][0])["member"]
                        incs.setdefault(c, []).append(atoms)
            cond = {}
            for c, lst in incs.items():
                g = frozenset.intersection(*lst) if lst else frozenset()
                # exact: incremented on every path whose guards include g
                total = [dtab.guard_atoms(p["guards"]) for p in paths]
                exact = sorted(map(sorted, [a for a in total if g <= a])) == sorted(map(sorted, lst))
                cond[c] = (g, exact)
            table[nval] = (pushes, cond)
        G = frozenset({("concrete", True), ("group.has_concrete_classes", True)})
        exp_push = {0: {"not_implemented"}, 1: {"the sole element"}, 2: {"ambiguous"}, 3: {"ambiguous"}}
        for nval in (0, 1, 2, 3):
            pushes, cond = table[nval]
            ok = pushes == exp_push[nval]
            run.instance(r_cells, "%s: best set of size %d -> cell %s" % (short(f), nval, sorted(pushes)), (f["file"], f["line"]), ok=ok)
            if not ok:
                run.violation(r_cells, "compiler::build_dispatch_table|cell|n=%s" % ("2+" if nval >= 2 else nval),
                              "for a best set of %d definition(s) the dispatch cell receives %s, expected %s" % (nval, sorted(pushes), sorted(exp_push[nval])), (f["file"], f["line"]))
            if r_pair is None:
                continue
            exp_inc = {0: {"not_implemented": frozenset(), "concrete_not_implemented": None}, 1: {}, 2: {"ambiguous": frozenset(), "concrete_ambiguous": None}, 3: {"ambiguous": frozenset(), "concrete_ambiguous": None}}[nval]
            okp = set(cond) == set(exp_inc) and all(cond[c][1] for c in cond) and all(cond[c][0] == g for c, g in exp_inc.items() if g is not None)
            run.instance(r_pair, "%s: size %d increments %s" % (short(f), nval, {c: sorted(x[0]) for c, x in cond.items()}), (f["file"], f["line"]), ok=okp)
            if not okp:
                run.violation(r_pair, "compiler::build_dispatch_table|counters|n=%s" % ("2+" if nval >= 2 else nval),
                              "for a best set of size %d the report counters incremented are %s, expected %s" % (nval, {c: sorted(x[0]) for c, x in cond.items()}, sorted(exp_inc)), (f["file"], f["line"]))
        if r_guard is not None:
            ga = table[2][1].get("concrete_ambiguous", (None, False))[0]
            gn = table[0][1].get("concrete_not_implemented", (None, False))[0]
            ok = ga is not None and ga == gn and ga == G
            run.instance(r_guard, "%s: concrete_ambiguous guard %s, concrete_not_implemented guard %s" % (short(f), sorted(ga or []), sorted(gn or [])), (f["file"], f["line"]), ok=ok)
            if not ok:
                run.violation(r_guard, "compiler::build_dispatch_table|concrete-guards",
                              "concrete_ambiguous is counted under %s and concrete_not_implemented under %s; both must require the outer dimensions' and this group's concreteness %s" % (
                                  sorted(ga or []), sorted(gn or []), sorted(G)), (f["file"], f["line"]))


def _var_is_first(scope, var_did, set_did):
    for n in astq.walk(scope):
        if n.get("k") == "DeclStmt":
            for d in n["decls"]:
                if d["did"] == var_did and d.get("init") is not None:
                    return _first_of(d["init"], set_did)
    return False


# ---------------------------------------------------------------------------
# (3) next

def next_rules(run, r_sel, r_always, ast):
    fs = by_name(ast, "build_dispatch_tables")
    if not fs:
        raise common.AnalysisBroken("compiler<P>::build_dispatch_tables not instantiated")
    for f in fs:
        bv = _find_best_var(f["body"])
        if len(bv) != 1:
            run.broken.append("%s: expected one best(...) result variable (nexts), found %d" % (short(f), len(bv)))
            continue
        d, comp, idx = bv[0]
        # the enclosing loop over the method's definitions: comp is its body
        loops = [n for n in astq.walk(f["body"]) if n.get("k") == "CXXForRangeStmt" and n.get("body") is comp]
        if len(loops) != 1:
            run.broken.append("%s: the statement computing nexts is not directly in a range-for body" % short(f))
            continue
        loop = loops[0]
        spec_did = loop["var"]["did"]
        # store through info->next
        stores = [n for n in astq.walk(comp) if n.get("k") == "BinaryOperator" and n.get("op") == "=" and astq.strip(n["c"][0]).get("k") == "UnaryOperator"
                  and astq.strip(n["c"][0]).get("op") == "*" and any(x.get("k") == "MemberExpr" and x.get("member") == "next" for x in astq.walk(n["c"][0]))]
        if len(stores) != 1:
            run.broken.append("%s: expected one store through info->next, found %d" % (short(f), len(stores)))
            continue
        st = stores[0]
        val = astq.strip(st["c"][1])
        if val.get("k") != "DeclRefExpr":
            run.broken.append("%s: value stored through info->next is not a local variable" % short(f))
            continue
        next_did = val["ref"]["did"]

        def want(n):
            if n is st:
                return True
            if n.get("k") == "BinaryOperator" and n.get("op") == "=":
                l = astq.strip(n["c"][0])
                return l.get("k") == "DeclRefExpr" and l["ref"]["did"] == next_did
            if n.get("k") == "DeclStmt":
                return any(x["did"] == next_did and x.get("init") is not None for x in n["decls"])
            return False
        for nval in (0, 1, 2, 3):
            paths = astq.enum_paths(comp, dtab.size_decide(d["did"], nval), want)
            kinds = set()
            for p in paths:
                last = None
                stored = False
                for kind, n in p["events"]:
                    if n is st:
                        stored = True
                        break
                    if n.get("k") == "DeclStmt":
                        last = [x for x in n["decls"] if x["did"] == next_did][0]["init"]
                    else:
                        last = n["c"][1]
                if not stored:
                    continue
                if last is None:
                    kinds.add("<not assigned in this iteration>")
                    continue
                mem = [x["member"] for x in astq.walk(last) if x.get("k") == "MemberExpr"]
                if "not_implemented" in mem:
                    kinds.add("not_implemented")
                elif "ambiguous" in mem:
                    kinds.add("ambiguous")
                elif "pf" in mem and _mentions_first(comp, last, d["did"]):
                    kinds.add("the sole candidate's function")
                else:
                    kinds.add("other:" + astq.text(last))
            exp = {0: {"not_implemented"}, 1: {"the sole candidate's function"}, 2: {"ambiguous"}, 3: {"ambiguous"}}[nval]
            ok = kinds == exp
            run.instance(r_sel, "%s: %d best candidate(s) -> next = %s" % (short(f), nval, sorted(kinds)), (f["file"], st["l"]), ok=ok)
            if not ok:
                run.violation(r_sel, "compiler::build_dispatch_tables|next|n=%s" % ("2+" if nval >= 2 else nval),
                              "with %d most specific strictly-more-general candidate(s) next is set to %s, expected %s" % (nval, sorted(kinds), sorted(exp)), (f["file"], st["l"]))
        # candidate filter: is_base(other, &spec)
        calls = [n for n in astq.walk(comp) if n.get("k") == "CallExpr" and re.search(r"::is_base$", n.get("callee") or "")]
        okf = False
        if len(calls) == 1:
            a0, a1 = astq.strip(calls[0]["c"][1]), astq.strip(calls[0]["c"][2])
            okf = a0.get("k") == "DeclRefExpr" and a0["ref"].get("storage") == "param" and a1.get("k") == "UnaryOperator" and a1.get("op") == "&" and \
                astq.strip(a1["c"][0]).get("k") == "DeclRefExpr" and astq.strip(a1["c"][0])["ref"]["did"] == spec_did
        run.instance(r_sel, "%s: candidates are the definitions d with is_base(d, &this definition)" % short(f), (f["file"], calls[0]["l"] if calls else f["line"]), ok=okf)
        if not okf:
            run.violation(r_sel, "compiler::build_dispatch_tables|candidate-filter", "the candidates for next are not selected with is_base(other, &spec)", (f["file"], calls[0]["l"] if calls else f["line"]))
        # C03-always: what the store is control dependent on
        if r_always is not None:
            cfg = astq.Cfg(f)
            byid, _ = astq.index_nodes(f)
            b = cfg.block_of.get(st["id"])
            if b is None:
                run.broken.append("%s: store through info->next not found in the CFG" % short(f))
                continue
            bad = []
            for x in _transitive_cdeps(cfg, b):
                cid = cfg.blocks[x].get("cond")
                cn = byid.get(cid)
                cls = _classify_cond(cn, cfg.blocks[x])
                if cls in ("loop", "trace"):
                    continue
                if cn is not None and any(y.get("k") == "MemberExpr" and y.get("member") == "next" for y in astq.walk(cn)) and not any(y.get("k") == "UnaryOperator" and y.get("op") == "*" for y in astq.walk(cn)):
                    continue        # the null test of the pointer itself
                bad.append(cn)
            run.instance(r_always, "%s: store through info->next depends only on the two loops and its own null test" % short(f), (f["file"], st["l"]), ok=not bad)
            for cn in bad:
                run.violation(r_always, "compiler::build_dispatch_tables|next-store-guard",
                              "the store through info->next is skipped depending on `%s`: next is not recomputed by every update for every definition" % (astq.text(cn) if cn else "?"), (f["file"], st["l"]))


def _mentions_first(scope, expr, set_did):
    for x in astq.walk(expr):
        if _first_of(x, set_did):
            return True
        if x.get("k") == "DeclRefExpr":
            # a local initialised from the first element (e.g. next_info = nexts.front()->info)
            for n in astq.walk(scope):
                if n.get("k") == "DeclStmt":
                    for d in n["decls"]:
                        if d["did"] == x["ref"]["did"] and d.get("init") is not None and any(_first_of(y, set_did) for y in astq.walk(d["init"])):
                            return True
    return False


def _transitive_cdeps(cfg, b):
    seen = set()
    work = [b]
    while work:
        x = work.pop()
        for d in cfg.control_deps(x):
            if d not in seen:
                seen.add(d)
                work.append(d)
    return seen


def _classify_cond(cn, block):
    if block.get("termk") == "CXXForRangeStmt":
        return "loop"
    if cn is None:
        return "?"
    if block.get("termk") in ("ForStmt", "WhileStmt", "DoStmt"):
        return "loop"
    if any(x.get("k") == "DeclRefExpr" and x["ref"]["name"].endswith("trace_enabled") for x in astq.walk(cn)):
        return "trace"
    if any(x.get("k") == "MemberExpr" and x.get("member") in ("on", "trace_enabled") for x in astq.walk(cn)):
        return "trace"
    return "cond"


# ---------------------------------------------------------------------------
# the AST unit all compiler rules share

def unit(run, tier=None, ndebug=True):
    from . import witness
    tier = tier or run.tier
    pols = ["release", "debug", "p_def"] if tier == "quick" else ["release", "debug", "p_def", "p_map", "p_ind", "p_proj", "p_nohash", "p_throw"]
    src, _ = witness.call_matrix(pols, ["rr", "r"], witness.update_block(pols))
    ast = astq.Ast(common.ast_json(run, src, "compiler_%s_%s" % (tier, "nd" if ndebug else "dbg"), ndebug=ndebug, funcs=COMPILER_FUNCS, cfg=CFG_FUNCS))
    run.units.append({"unit": "compiler AST", "policies": pols, "ndebug": ndebug, "functions_with_body": sum(1 for f in ast.funcs if f.get("body"))})
    return ast, pols


def accumulate_rule(run, rule, ast):
    fs = [f for f in ast.funcs if f.get("body") and f["name"].endswith("generic_compiler::accumulate")]
    if not fs:
        raise common.AnalysisBroken("generic_compiler::accumulate not found")
    f = fs[0]
    seen = {}
    for n in astq.walk(f["body"]):
        if n.get("k") == "CompoundAssignOperator" and n.get("op") == "+=":
            l = astq.strip(n["c"][0])
            r = astq.strip(n["c"][1])
            lm = l.get("member") if l.get("k") == "MemberExpr" else None
            flag = False
            rm = None
            if r.get("k") == "BinaryOperator" and r.get("op") == "!=" and astq.affine(r["c"][1]) == {}:
                flag = True
                r = astq.strip(r["c"][0])
            if r.get("k") == "MemberExpr":
                rm = r.get("member")
            seen[lm] = (rm, flag, n)
    exp = {"cells": False, "concrete_cells": False, "not_implemented": True, "concrete_not_implemented": True, "ambiguous": True, "concrete_ambiguous": True}
    for fld, isflag in exp.items():
        got = seen.get(fld)
        ok = got is not None and got[0] == fld and got[1] == isflag
        run.instance(rule, "accumulate: total.%s += partial.%s%s" % (fld, got[0] if got else "?", " != 0" if got and got[1] else ""), (f["file"], got[2]["l"] if got else f["line"]), ok=ok)
        if not ok:
            run.violation(rule, "generic_compiler::accumulate|%s" % fld, "the aggregated report field %s is fed from %s (%s)" % (fld, got[0] if got else "nothing", "as a flag" if got and got[1] else "as a count"),
                          (f["file"], got[2]["l"] if got else f["line"]))
