"""AST / CFG rules over compiler<Policy> (detail/compiler.hpp), shared by C01, C03, C04, C07, C08,
C10, C15, C17. Each rule works on the instantiated bodies dumped by yast for the policies of the unit."""
import re
from . import astq, dtab, common

COMPILER_FUNCS = ("compiler<|generic_compiler::accumulate|fast_perfect_hash<|checked_perfect_hash<|vptr_vector<|vptr_map<|"
                  "static_list<|class_declaration_aux<|definition_info::~|>::method|>::~method|add_function<|decode_dispatch_data<|yomm2::detail::operator[=!]=")
CFG_FUNCS = "calculate_covariant_classes|assign_lattice_slots|build_dispatch_tables|augment_classes|augment_methods|resolve_static_type_ids|hash_initialize|publish_vptrs|hash_type_id|install_gv|static_list<|add_function|class_declaration_aux|definition_info::~|>::~method"


def pol_of(f):
    m = re.search(r"compiler<(.*)>::\w+$", f["name"])
    return m.group(1) if m else "?"


def by_name(ast, suffix):
    return [f for f in ast.funcs if f.get("body") and re.search(r"compiler<.*>::%s$" % suffix, f["name"])]


def short(f):
    """readable function name for labels; a long name loses its own (trailing) template argument list rather than being cut inside
    it (labels are normalised into obligation kinds: an unbalanced cut would drop the rest of the label from the kind)"""
    s = re.sub(r"yorel::yomm2::(detail::)?", "", f["name"])
    if len(s) <= 110:
        return s
    if s.endswith(">"):
        depth = 0
        for i in range(len(s) - 1, -1, -1):
            if s[i] == ">":
                depth += 1
            elif s[i] == "<":
                depth -= 1
                if depth == 0:
                    s = s[:i] + "<...>"
                    break
    if len(s) > 110:
        cut = s[:110]
        if cut.count("<") != cut.count(">"):
            cut = cut[:cut.index("<")] + "<...>"
        s = cut
    return s


# ---------------------------------------------------------------------------
# (1) specificity order and base filter

def order_rules(run, r_ms, r_base, ast):
    ms = {f["name"]: f for f in by_name(ast, "is_more_specific")}
    bs = {f["name"]: f for f in by_name(ast, "is_base")}
    allf = {f["name"]: f for f in ast.funcs if f.get("body") and re.search(r"compiler<.*>::\w+$", f["name"])}
    for rule, fs, oracle, what in ((r_ms, ms, dtab.MORE_SPECIFIC, "is_more_specific"), (r_base, bs, dtab.IS_BASE, "is_base")):
        if rule is None:
            continue
        if not fs:
            raise common.AnalysisBroken("compiler<P>::%s not instantiated" % what)
        for f in fs.values():
            try:
                t = dtab.order_table(f, allf)
            except dtab.RegistrationDependent as e:
                run.instance(rule, "%s: class relations are read from the closure (covariant_classes)" % short(f), (f["file"], f["line"]), ok=False)
                run.violation(rule, "compiler::%s|closure" % what, "%s decides 'is a base of' by searching `%s`, which only holds the bases named in registration records (incremental registration lists direct bases only); the closure is covariant_classes" % (what, e), (f["file"], f["line"]))
                continue
            except dtab.Unclassifiable as e:
                run.broken.append("%s: decision table not extractable (%s)" % (short(f), e))
                continue
            ok = t == oracle
            run.instance(rule, "%s per-position table %s" % (short(f), t["per"]), (f["file"], f["line"]), ok=ok)
            if not ok:
                diffs = ["%s: %s (documented: %s)" % (k, t["per"].get(k), oracle["per"][k]) for k in dtab.RELS if t["per"].get(k) != oracle["per"][k]]
                if t["init"] != oracle["init"]:
                    diffs.append("initial value %s" % t["init"])
                if t["final"] != oracle["final"]:
                    diffs.append("final result %s" % t["final"])
                run.violation(rule, "compiler::%s|%s" % (what, ",".join(sorted(k for k in dtab.RELS if t["per"].get(k) != oracle["per"][k])) or "init/final"),
                              "%s deviates from the documented ordering at a position where the classes are: %s" % (what, "; ".join(diffs)), (f["file"], f["line"]))


# ---------------------------------------------------------------------------
# (2) cells and counters in build_dispatch_table

def _is_addr_of_member(n, member):
    n = astq.strip(n)
    if n is not None and n.get("k") == "UnaryOperator" and n.get("op") == "&":
        t = astq.strip(n["c"][0])
        return t is not None and t.get("k") == "MemberExpr" and t.get("member") == member
    return False


def _first_of(n, did):
    """expression is <var>[0] / <var>.front() / *<var>.begin()"""
    n = astq.strip(n)
    if n is None:
        return False
    uses = any(x.get("k") == "DeclRefExpr" and x["ref"]["did"] == did for x in astq.walk(n))
    if not uses:
        return False
    if n.get("k") == "CXXOperatorCallExpr" and n.get("oop") == "[]":
        return astq.affine(n["c"][2]) == {}
    if n.get("k") == "CXXMemberCallExpr" and (n.get("callee") or "").endswith("::front"):
        return True
    if n.get("k") == "CXXOperatorCallExpr" and n.get("oop") == "*":
        return any(x.get("k") == "CXXMemberCallExpr" and (x.get("callee") or "").endswith("::begin") for x in astq.walk(n))
    if n.get("k") == "DeclRefExpr":
        return False
    return False


def _find_best_var(body, names=("best",)):
    """DeclStmt declaring a variable initialised with a call of compiler::best -> (decl, parent compound, index)"""
    out = []

    def rec(n):
        if n.get("k") == "CompoundStmt":
            cs = n.get("c") or []
            for i, s in enumerate(cs):
                if s.get("k") == "DeclStmt":
                    for d in s["decls"]:
                        init = d.get("init")
                        if init is not None and any(x.get("k") == "CallExpr" and re.search(r"::best$", x.get("callee") or "") for x in astq.walk(init)):
                            out.append((d, n, i))
        for c in astq.kids_nodup(n):
            rec(c)
    rec(body)
    return out


def cells_rules(run, r_cells, r_pair, r_guard, ast):
    fs = by_name(ast, "build_dispatch_table")
    if not fs:
        raise common.AnalysisBroken("compiler<P>::build_dispatch_table not instantiated")
    for f in fs:
        bv = _find_best_var(f["body"])
        if len(bv) != 1:
            run.broken.append("%s: expected one best(...) result variable, found %d" % (short(f), len(bv)))
            continue
        d, comp, idx = bv[0]
        rest = {"k": "CompoundStmt", "id": -1, "l": d.get("l", 0), "c": (comp.get("c") or [])[idx + 1:]}
        counters = ("ambiguous", "not_implemented", "concrete_ambiguous", "concrete_not_implemented")

        def want(n):
            if n.get("k") == "CXXMemberCallExpr" and (n.get("callee") or "").endswith("::push_back") and any(x.get("member") == "dispatch_table" for x in astq.walk(n["c"][0])):
                return True
            if n.get("k") == "UnaryOperator" and n.get("op") == "++":
                t = astq.strip(n["c"][0])
                return t.get("k") == "MemberExpr" and t.get("member") in counters
            return False
        table = {}
        for nval in (0, 1, 2, 3):
            paths = astq.enum_paths(rest, dtab.size_decide(d["did"], nval), want)
            pushes = set()
            incs = {}
            for p in paths:
                atoms = dtab.guard_atoms(p["guards"])
                for kind, n in p["events"]:
                    if n.get("k") == "CXXMemberCallExpr":
                        a = n["c"][1]
                        if _is_addr_of_member(a, "ambiguous"):
                            pushes.add("ambiguous")
                        elif _is_addr_of_member(a, "not_implemented"):
                            pushes.add("not_implemented")
                        elif _first_of(a, d["did"]) or (astq.strip(a).get("k") == "DeclRefExpr" and _var_is_first(rest, astq.strip(a)["ref"]["did"], d["did"])):
                            pushes.add("the sole element")
                        else:
                            pushes.add("other:" + astq.text(a))
                    else:
                        c = astq.strip(n["c"][0])["member"]
                        incs.setdefault(c, []).append(atoms)
            cond = {}
            for c, lst in incs.items():
                g = frozenset.intersection(*lst) if lst else frozenset()
                # exact: incremented on every path whose guards include g
                total = [dtab.guard_atoms(p["guards"]) for p in paths]
                exact = sorted(map(sorted, [a for a in total if g <= a])) == sorted(map(sorted, lst))
                cond[c] = (g, exact)
            table[nval] = (pushes, cond)
        G = frozenset({("param:bool", True), ("*.has_concrete_classes", True)})     # the function's bool parameter (outer dimensions) and this group's flag
        exp_push = {0: {"not_implemented"}, 1: {"the sole element"}, 2: {"ambiguous"}, 3: {"ambiguous"}}
        for nval in (0, 1, 2, 3):
            pushes, cond = table[nval]
            ok = pushes == exp_push[nval]
            run.instance(r_cells, "%s: best set of size %d -> cell %s" % (short(f), nval, sorted(pushes)), (f["file"], f["line"]), ok=ok)
            if not ok:
                run.violation(r_cells, "compiler::build_dispatch_table|cell|n=%s" % ("2+" if nval >= 2 else nval),
                              "for a best set of %d definition(s) the dispatch cell receives %s, expected %s" % (nval, sorted(pushes), sorted(exp_push[nval])), (f["file"], f["line"]))
            if r_pair is None:
                continue
            exp_inc = {0: {"not_implemented": frozenset(), "concrete_not_implemented": None}, 1: {}, 2: {"ambiguous": frozenset(), "concrete_ambiguous": None}, 3: {"ambiguous": frozenset(), "concrete_ambiguous": None}}[nval]
            okp = set(cond) == set(exp_inc) and all(cond[c][1] for c in cond) and all(cond[c][0] == g for c, g in exp_inc.items() if g is not None)
            run.instance(r_pair, "%s: size %d increments %s" % (short(f), nval, {c: sorted(x[0]) for c, x in cond.items()}), (f["file"], f["line"]), ok=okp)
            if not okp:
                run.violation(r_pair, "compiler::build_dispatch_table|counters|n=%s" % ("2+" if nval >= 2 else nval),
                              "for a best set of size %d the report counters incremented are %s, expected %s" % (nval, {c: sorted(x[0]) for c, x in cond.items()}, sorted(exp_inc)), (f["file"], f["line"]))
        if r_pair is not None:
            # counters and cells may only be touched inside the best-set decision classified above
            inside = {x["id"] for x in astq.walk(rest)}
            def touches(n):
                if n.get("k") == "CXXMemberCallExpr" and not n.get("cconst") and any(x.get("k") == "MemberExpr" and x.get("member") == "dispatch_table" for x in astq.walk(n["c"][0])):
                    return True
                if n.get("k") in ("UnaryOperator", "CompoundAssignOperator", "BinaryOperator") and n.get("op") in ("++", "--", "+=", "-=", "=", "*="):
                    t = astq.strip(n["c"][0])
                    return t is not None and t.get("k") == "MemberExpr" and t.get("member") in counters + ("cells", "concrete_cells")
                return False
            outside = [n for n in astq.walk(f["body"]) if touches(n) and n["id"] not in inside]
            conc = [n for n in outside if astq.strip(n["c"][0]).get("k") == "MemberExpr" and astq.strip(n["c"][0]).get("member", "").startswith("concrete_")]
            run.instance(r_pair, "%s: concrete_* counters are only touched at the leaf (dim == 0), where every dimension's concreteness is known" % short(f), (f["file"], f["line"]), ok=not conc)
            for n in conc:
                run.violation(r_pair, "compiler::build_dispatch_table|concrete-counter-above-leaf", "`%s` at line %s counts concrete tuples outside the dim == 0 leaf: the concreteness of the inner dimensions is not known there" % (astq.text(n), n["l"]), (f["file"], n["l"]))
            byid_o, parent_o = astq.index_nodes(f)
            for n in list(outside):
                if n in conc or n.get("k") != "CXXMemberCallExpr":
                    continue
                # a cell appended outside the classified decision: it may be an error cell; is the report updated with it?
                comp_o = _enclosing(parent_o, n, ("CompoundStmt",))
                scope = comp_o[0] if comp_o else f["body"]
                counted = any(touches(x) and x.get("k") != "CXXMemberCallExpr" for x in astq.walk(scope))
                val = astq.strip(n["c"][1]) if len(n.get("c") or []) > 1 else None
                plain_def = False
                if not counted and not plain_def:
                    outside.remove(n)
                    run.instance(r_pair, "%s: every cell appended is counted where its kind is decided" % short(f), (f["file"], n["l"]), ok=False)
                    run.violation(r_pair, "compiler::build_dispatch_table|uncounted-cell", "`%s` (line %s) appends a cell whose kind is not decided there (it may be the not-implemented or the ambiguity cell) without updating the report: the gap / ambiguity of that tuple is not counted" % (
                        astq.text(n)[:80], n["l"]), (f["file"], n["l"]))
            for n in outside:
                if n not in conc:
                    run.broken.append("%s: `%s` (line %s) writes cells / counters outside the best-set decision the counting rules classify" % (short(f), astq.text(n)[:80], n["l"]))
        if r_guard is not None:
            # the concreteness flag threaded through the recursion: concrete && group.has_concrete_classes
            rec = [n for n in astq.walk(f["body"]) if n.get("k") == "CXXMemberCallExpr" and (n.get("callee") or "").endswith("::build_dispatch_table")]
            okt = False
            got = None
            if len(rec) == 1:
                last = rec[0]["c"][-1]
                got = dtab.guard_atoms([(last, True)])
                okt = got == frozenset({("param:bool", True), ("*.has_concrete_classes", True)})
            run.instance(r_guard, "%s: the recursion passes concrete && group.has_concrete_classes" % short(f), (f["file"], rec[0]["l"] if rec else f["line"]), ok=okt)
            if not okt:
                run.violation(r_guard, "compiler::build_dispatch_table|concrete-thread", "the concreteness flag handed to the next dimension is %s; it must combine the outer dimensions' flag with this group's (concrete && group.has_concrete_classes)" % (
                    sorted(got) if got is not None else "?"), (f["file"], rec[0]["l"] if rec else f["line"]))
            ga = table[2][1].get("concrete_ambiguous", (None, False))[0]
            gn = table[0][1].get("concrete_not_implemented", (None, False))[0]
            ok = ga is not None and ga == gn and ga == G
            run.instance(r_guard, "%s: concrete_ambiguous guard %s, concrete_not_implemented guard %s" % (short(f), sorted(ga or []), sorted(gn or [])), (f["file"], f["line"]), ok=ok)
            if not ok:
                run.violation(r_guard, "compiler::build_dispatch_table|concrete-guards",
                              "concrete_ambiguous is counted under %s and concrete_not_implemented under %s; both must require the outer dimensions' and this group's concreteness %s" % (
                                  sorted(ga or []), sorted(gn or []), sorted(G)), (f["file"], f["line"]))


def _var_is_first(scope, var_did, set_did):
    for n in astq.walk(scope):
        if n.get("k") == "DeclStmt":
            for d in n["decls"]:
                if d["did"] == var_did and d.get("init") is not None:
                    return _first_of(d["init"], set_did)
    return False


# ---------------------------------------------------------------------------
# (3) next

def _did_in(n, did):
    return any(x.get("k") == "DeclRefExpr" and x["ref"].get("did") == did for x in astq.walk(n))


def _inline_selection(run, rule, f):
    """build_dispatch_tables selects next without calling best(): the set that decides next is built in place. A member may only
    leave the set because it was compared with the candidate and lost; an operation that empties or overwrites the set on the
    strength of a comparison with ONE member (assign / clear / resize / pop_back) removes members that were never compared.
    Returns True when a verdict (violation) was reached, False when the shape is not understood."""
    byid, parent = astq.index_nodes(f)
    stores = [n for n in astq.walk(f["body"]) if n.get("k") == "BinaryOperator" and n.get("op") == "=" and astq.strip(n["c"][0]).get("k") == "UnaryOperator"
              and astq.strip(n["c"][0]).get("op") == "*" and any(x.get("k") == "MemberExpr" and x.get("member") == "next" for x in astq.walk(n["c"][0]))]
    if len(stores) != 1:
        return False
    # the set: a local vector whose size()/empty() is tested between its declaration and the store
    sizes = [n for n in astq.walk(f["body"]) if n.get("k") == "CXXMemberCallExpr" and re.search(r"::(size|empty)$", n.get("callee") or "") and astq.strip(n["c"][0]["c"][0] if n["c"][0].get("c") else n["c"][0]).get("k") == "DeclRefExpr"]
    cands = {}
    for n in sizes:
        r = astq.strip(n["c"][0]["c"][0]) if n["c"][0].get("c") else None
        if r is not None and r.get("k") == "DeclRefExpr" and r["ref"].get("storage") == "local" and "definition" in (r.get("t") or ""):
            ifs = _enclosing(parent, n, ("IfStmt",))
            if ifs and any(_in_subtree(i, n) and not _enclosing(parent, i, ("ForStmt", "WhileStmt")) for i in ifs):
                cands[r["ref"]["did"]] = r["ref"]["name"]
    verdict = False
    for did, name in cands.items():
        for n in astq.walk(f["body"]):
            if n.get("k") == "CXXMemberCallExpr" and re.search(r"::(assign|clear|resize|pop_back)$", n.get("callee") or "") and _did_in(n["c"][0], did):
                loops = _enclosing(parent, n, ("CXXForRangeStmt", "ForStmt", "WhileStmt"))
                guards = [i for i in _enclosing(parent, n, ("IfStmt",)) if any(x.get("k") == "CallExpr" and (x.get("callee") or "").endswith("::is_more_specific") for x in astq.walk(i["cond"]))]
                if loops and guards:
                    run.instance(rule, "%s: members leave the set of most specific candidates only when compared and beaten" % short(f), (f["file"], n["l"]), ok=False)
                    run.violation(rule, "compiler::build_dispatch_tables|next-selection-shrinks", "next is selected in place: `%s` discards every member of `%s` on the strength of one comparison (`%s`); members that are not less specific than the candidate are lost and an ambiguous next resolves to one definition" % (
                        astq.text(n)[:60], name, astq.text(guards[0]["cond"])[:80]), (f["file"], n["l"]))
                    verdict = True
    return verdict


def next_rules(run, r_sel, r_always, ast):
    fs = by_name(ast, "build_dispatch_tables")
    if not fs:
        raise common.AnalysisBroken("compiler<P>::build_dispatch_tables not instantiated")
    for f in fs:
        bv = _find_best_var(f["body"])
        if len(bv) != 1:
            if not bv and _inline_selection(run, r_sel, f):
                continue
            run.broken.append("%s: expected one best(...) result variable (nexts), found %d" % (short(f), len(bv)))
            continue
        d, comp, idx = bv[0]
        # the enclosing loop over the method's definitions: comp is its body
        loops = [n for n in astq.walk(f["body"]) if n.get("k") == "CXXForRangeStmt" and n.get("body") is comp]
        if len(loops) != 1:
            run.broken.append("%s: the statement computing nexts is not directly in a range-for body" % short(f))
            continue
        loop = loops[0]
        spec_did = loop["var"]["did"]
        # store through info->next
        stores = [n for n in astq.walk(comp) if n.get("k") == "BinaryOperator" and n.get("op") == "=" and astq.strip(n["c"][0]).get("k") == "UnaryOperator"
                  and astq.strip(n["c"][0]).get("op") == "*" and any(x.get("k") == "MemberExpr" and x.get("member") == "next" for x in astq.walk(n["c"][0]))]
        if len(stores) != 1:
            run.broken.append("%s: expected one store through info->next, found %d" % (short(f), len(stores)))
            continue
        st = stores[0]
        val = astq.strip(st["c"][1])
        if val.get("k") != "DeclRefExpr":
            run.broken.append("%s: value stored through info->next is not a local variable" % short(f))
            continue
        next_did = val["ref"]["did"]

        def want(n):
            if n is st:
                return True
            if n.get("k") == "BinaryOperator" and n.get("op") == "=":
                l = astq.strip(n["c"][0])
                return l.get("k") == "DeclRefExpr" and l["ref"]["did"] == next_did
            if n.get("k") == "DeclStmt":
                return any(x["did"] == next_did and x.get("init") is not None for x in n["decls"])
            return False
        for nval in (0, 1, 2, 3):
            paths = astq.enum_paths(comp, dtab.size_decide(d["did"], nval), want)
            kinds = set()
            for p in paths:
                last = None
                stored = False
                for kind, n in p["events"]:
                    if n is st:
                        stored = True
                        break
                    if n.get("k") == "DeclStmt":
                        last = [x for x in n["decls"] if x["did"] == next_did][0]["init"]
                    else:
                        last = n["c"][1]
                if not stored:
                    continue
                if last is None:
                    kinds.add("<not assigned in this iteration>")
                    continue
                mem = [x["member"] for x in astq.walk(last) if x.get("k") == "MemberExpr"]
                if "not_implemented" in mem:
                    kinds.add("not_implemented")
                elif "ambiguous" in mem:
                    kinds.add("ambiguous")
                elif "pf" in mem and _mentions_first(comp, last, d["did"]):
                    kinds.add("the sole candidate's function")
                else:
                    kinds.add("other:" + astq.text(last))
            exp = {0: {"not_implemented"}, 1: {"the sole candidate's function"}, 2: {"ambiguous"}, 3: {"ambiguous"}}[nval]
            ok = kinds == exp
            run.instance(r_sel, "%s: %d best candidate(s) -> next = %s" % (short(f), nval, sorted(kinds)), (f["file"], st["l"]), ok=ok)
            if not ok:
                run.violation(r_sel, "compiler::build_dispatch_tables|next|n=%s" % ("2+" if nval >= 2 else nval),
                              "with %d most specific strictly-more-general candidate(s) next is set to %s, expected %s" % (nval, sorted(kinds), sorted(exp)), (f["file"], st["l"]))
        # candidate filter: is_base(other, &spec)
        calls = [n for n in astq.walk(comp) if n.get("k") == "CallExpr" and re.search(r"::is_base$", n.get("callee") or "")]
        okf = False
        # ... and nothing else fills (or empties) the candidate list: every definition of the method is filtered, always
        bestcall = [x for x in astq.walk(d["init"]) if x.get("k") == "CallExpr" and re.search(r"::best$", x.get("callee") or "")][0]
        carg = astq.strip(bestcall["c"][1]) if len(bestcall.get("c") or []) > 1 else None
        if carg is not None and carg.get("k") == "DeclRefExpr" and carg["ref"].get("storage") == "local":
            cdid = carg["ref"]["did"]
            _, cparent = astq.index_nodes(f)
            writers = []
            for n in astq.walk(comp):
                if n.get("k") == "CallExpr" and any(x.get("k") == "CallExpr" and re.match(r"^std::(back_inserter|inserter|front_inserter)<", x.get("callee") or "") and _did_in(x, cdid) for x in astq.walk(n)) \
                        and re.match(r"^std::\w+<", n.get("callee") or "") and not re.match(r"^std::(back_inserter|inserter|front_inserter)<", n.get("callee") or ""):
                    writers.append(n)
                elif n.get("k") == "CXXMemberCallExpr" and not n.get("cconst") and _did_in(n["c"][0], cdid) and not re.search(r"::(begin|end|size|empty|cbegin|cend)$", n.get("callee") or ""):
                    writers.append(n)
                elif n.get("k") in ("BinaryOperator", "CXXOperatorCallExpr") and (n.get("op") == "=" or n.get("oop") == "=") and _did_in((n["c"][0] if n.get("k") == "BinaryOperator" else n["c"][1]), cdid):
                    writers.append(n)
            good = [w for w in writers if w.get("k") == "CallExpr" and re.match(r"^std::copy_if<", w.get("callee") or "") and any(c0 is x for c0 in calls for x in astq.walk(w))]
            # the pool the filter runs over holds ALL the method's definitions when the first candidate list is built: it is
            # filled once, from the method's whole definition list, outside (before) the loop over the definitions
            if good:
                srcs = [x["ref"]["did"] for x in astq.walk(good[0]["c"][1]) if x.get("k") == "DeclRefExpr" and x["ref"].get("storage") == "local"]
                if srcs:
                    sdid = srcs[0]
                    fills = []
                    for n in astq.walk(f["body"]):
                        if n.get("k") == "CallExpr" and re.match(r"^std::\w+<", n.get("callee") or "") and any(x.get("k") == "CallExpr" and re.match(r"^std::(back_inserter|inserter)<", x.get("callee") or "") and _did_in(x, sdid) for x in astq.walk(n)):
                            fills.append(n)
                        elif n.get("k") == "CXXMemberCallExpr" and re.search(r"::(push_back|emplace_back|insert|assign)$", n.get("callee") or "") and _did_in(n["c"][0], sdid):
                            fills.append(n)
                    inside = [w for w in fills if _in_subtree(loop["body"], w)]
                    whole = [w for w in fills if w.get("k") == "CallExpr" and any(x.get("k") == "MemberExpr" and x.get("member") == "specs" for x in astq.walk(w["c"][1])) and w["l"] < loop["l"]]
                    okp = bool(whole) and not inside
                    run.instance(r_sel, "%s: the pool of definitions the candidates are drawn from is complete before the first definition is processed" % short(f), (f["file"], (fills or [good[0]])[0]["l"]), ok=okp)
                    if not okp:
                        run.violation(r_sel, "compiler::build_dispatch_tables|candidate-pool", "the pool the candidate filter runs over is %s: a strictly more general definition registered later than the one being processed is not a candidate for its next" % (
                            "extended inside the loop over the definitions (`%s`)" % astq.text(inside[0])[:60] if inside else "not filled from the method's whole definition list before the loop"), (f["file"], (inside or fills or [good[0]])[0]["l"]))
            extra = [w for w in writers if w not in good]
            cond = [w for w in good if [i for i in _enclosing(cparent, w, ("IfStmt", "SwitchStmt", "ConditionalOperator")) if _in_subtree(comp, i)]]
            okw = len(good) == 1 and not extra and not cond
            run.instance(r_sel, "%s: the candidate list is filled by that filter over all the method's definitions, and by nothing else" % short(f), (f["file"], (good or writers or [bestcall])[0]["l"]), ok=okw)
            if not okw:
                run.violation(r_sel, "compiler::build_dispatch_tables|candidate-gathering", "the candidates for next are %s: next must be chosen among ALL definitions that are strictly more general in every position" % (
                    "also gathered by `%s`" % astq.text(extra[0])[:70] if extra else "only gathered under a condition" if cond else "not gathered by a copy_if over is_base"), (f["file"], (extra or cond or [bestcall])[0]["l"]))
        if len(calls) == 1:
            # the filter is that call and nothing else: a pre-filter in front of it drops candidates the property counts
            lam = [x for x in astq.walk(comp) if x.get("k") == "LambdaExpr" and any(y is calls[0] for y in astq.walk(x))]
            if lam:
                bodies = [(sp if sp.get("k") else sp.get("body")) for sp in (lam[0]["lambda"].get("specializations") or [])] or [lam[0]["lambda"].get("body")]
                for bd in bodies:
                    sts = [x for x in (bd.get("c") or []) if x.get("k") != "NullStmt"]
                    only = len(sts) == 1 and sts[0].get("k") == "ReturnStmt" and sts[0].get("c") and astq.strip(sts[0]["c"][0]) is calls[0]
                    rets = [x for x in astq.walk(bd) if x.get("k") == "ReturnStmt"]
                    run.instance(r_sel, "%s: the candidate filter is exactly is_base(d, &this definition)" % short(f), (f["file"], calls[0]["l"]), ok=bool(only))
                    if not only:
                        extra = [x for x in rets if not (x.get("c") and astq.strip(x["c"][0]) is calls[0])]
                        run.violation(r_sel, "compiler::build_dispatch_tables|candidate-prefilter", "the candidate filter returns before / besides is_base (`%s`): strictly more general definitions can be rejected" % (
                            astq.text(extra[0]["c"][0])[:60] if extra and extra[0].get("c") else "other statements"), (f["file"], (extra or [calls[0]])[0]["l"]))
            a0, a1 = astq.strip(calls[0]["c"][1]), astq.strip(calls[0]["c"][2])
            okf = a0.get("k") == "DeclRefExpr" and a0["ref"].get("storage") == "param" and a1.get("k") == "UnaryOperator" and a1.get("op") == "&" and \
                astq.strip(a1["c"][0]).get("k") == "DeclRefExpr" and astq.strip(a1["c"][0])["ref"]["did"] == spec_did
        run.instance(r_sel, "%s: candidates are the definitions d with is_base(d, &this definition)" % short(f), (f["file"], calls[0]["l"] if calls else f["line"]), ok=okf)
        if not okf:
            run.violation(r_sel, "compiler::build_dispatch_tables|candidate-filter", "the candidates for next are not selected with is_base(other, &spec)", (f["file"], calls[0]["l"] if calls else f["line"]))
        # C03-always: what the store is control dependent on
        if r_always is not None:
            cfg = astq.Cfg(f)
            byid, _ = astq.index_nodes(f)
            b = cfg.block_of.get(st["id"])
            if b is None:
                run.broken.append("%s: store through info->next not found in the CFG" % short(f))
                continue
            bad = []
            for x in _transitive_cdeps(cfg, b):
                cid = cfg.blocks[x].get("cond")
                cn = byid.get(cid)
                cls = _classify_cond(cn, cfg.blocks[x])
                if cls in ("loop", "trace") or _is_assert(cfg, x):
                    continue
                if cn is not None and any(y.get("k") == "MemberExpr" and y.get("member") == "next" for y in astq.walk(cn)) and not any(y.get("k") == "UnaryOperator" and y.get("op") == "*" for y in astq.walk(cn)):
                    continue        # the null test of the pointer itself
                bad.append(cn)
            run.instance(r_always, "%s: store through info->next depends only on the two loops and its own null test" % short(f), (f["file"], st["l"]), ok=not bad)
            for cn in bad:
                run.violation(r_always, "compiler::build_dispatch_tables|next-store-guard",
                              "the store through info->next is skipped depending on `%s`: next is not recomputed by every update for every definition" % (astq.text(cn) if cn else "?"), (f["file"], st["l"]))


def _mentions_first(scope, expr, set_did):
    for x in astq.walk(expr):
        if _first_of(x, set_did):
            return True
        if x.get("k") == "DeclRefExpr":
            # a local initialised from the first element (e.g. next_info = nexts.front()->info)
            for n in astq.walk(scope):
                if n.get("k") == "DeclStmt":
                    for d in n["decls"]:
                        if d["did"] == x["ref"]["did"] and d.get("init") is not None and any(_first_of(y, set_did) for y in astq.walk(d["init"])):
                            return True
    return False


def _transitive_cdeps(cfg, b):
    """control dependences of block b, transitively - but not through assertion branches (what an
    assertion's own evaluation depends on is not a guard of the code after it)."""
    seen = set()
    work = [b]
    while work:
        x = work.pop()
        for d in cfg.control_deps(x):
            if d not in seen:
                seen.add(d)
                if not _is_assert(cfg, d):
                    work.append(d)
    return seen


def _classify_cond(cn, block):
    if block.get("termk") == "CXXForRangeStmt":
        return "loop"
    if cn is None:
        return "?"
    if block.get("termk") in ("ForStmt", "WhileStmt", "DoStmt"):
        return "loop"
    if any(x.get("k") == "DeclRefExpr" and x["ref"]["name"].endswith("trace_enabled") for x in astq.walk(cn)):
        return "trace"
    if any(x.get("k") == "MemberExpr" and x.get("member") in ("on", "trace_enabled") for x in astq.walk(cn)):
        return "trace"
    return "cond"


# ---------------------------------------------------------------------------
# the AST unit all compiler rules share

def unit(run, tier=None, ndebug=True):
    from . import witness
    tier = tier or run.tier
    pols = ["release", "debug", "p_def", "p_map", "p_noerr", "p_ind"] if tier == "quick" else ["release", "debug", "p_def", "p_map", "p_ind", "p_proj", "p_nohash", "p_throw", "p_noerr"]
    src, _ = witness.call_matrix(pols, ["rr", "r"], witness.update_block(pols))
    ast = astq.Ast(common.ast_json(run, src, "compiler_%s_%s" % (tier, "nd" if ndebug else "dbg"), ndebug=ndebug, funcs=COMPILER_FUNCS, cfg=CFG_FUNCS))
    run.units.append({"unit": "compiler AST", "policies": pols, "ndebug": ndebug, "functions_with_body": sum(1 for f in ast.funcs if f.get("body"))})
    return ast, pols


def accumulate_rule(run, rule, ast):
    fs = [f for f in ast.funcs if f.get("body") and f["name"].endswith("generic_compiler::accumulate")]
    if not fs:
        raise common.AnalysisBroken("generic_compiler::accumulate not found")
    f = fs[0]
    seen = {}
    for n in astq.walk(f["body"]):
        if n.get("k") == "CompoundAssignOperator" and n.get("op") == "+=":
            l = astq.strip(n["c"][0])
            r = astq.strip(n["c"][1])
            lm = l.get("member") if l.get("k") == "MemberExpr" else None
            flag = False
            rm = None
            if r.get("k") == "BinaryOperator" and r.get("op") == "!=" and astq.affine(r["c"][1]) == {}:
                flag = True
                r = astq.strip(r["c"][0])
            if r.get("k") == "MemberExpr":
                rm = r.get("member")
            seen[lm] = (rm, flag, n)
    exp = {"cells": False, "concrete_cells": False, "not_implemented": True, "concrete_not_implemented": True, "ambiguous": True, "concrete_ambiguous": True}
    for fld, isflag in exp.items():
        got = seen.get(fld)
        ok = got is not None and got[0] == fld and got[1] == isflag
        run.instance(rule, "accumulate: total.%s += partial.%s%s" % (fld, got[0] if got else "?", " != 0" if got and got[1] else ""), (f["file"], got[2]["l"] if got else f["line"]), ok=ok)
        if not ok:
            run.violation(rule, "generic_compiler::accumulate|%s" % fld, "the aggregated report field %s is fed from %s (%s)" % (fld, got[0] if got else "nothing", "as a flag" if got and got[1] else "as a count"),
                          (f["file"], got[2]["l"] if got else f["line"]))


# ---------------------------------------------------------------------------
# (4) class_map look-ups: projection key, null test, unknown-class report

def _class_map_subscripts(f):
    out = []
    for n in astq.walk(f["body"]):
        if n.get("k") == "CXXOperatorCallExpr" and n.get("oop") == "[]" and any(x.get("k") == "MemberExpr" and x.get("member") == "class_map" for x in astq.walk(n["c"][1])):
            out.append(n)
        if n.get("k") == "CXXMemberCallExpr" and re.search(r"::(find|at|count)$", n.get("callee") or "") and any(x.get("k") == "MemberExpr" and x.get("member") == "class_map" for x in astq.walk(n["c"][0])):
            out.append(n)
    return out


def lookup_rules(run, r_proj, r_null, ast):
    fs = by_name(ast, "augment_classes") + by_name(ast, "augment_methods")
    if not fs:
        raise common.AnalysisBroken("augment_classes / augment_methods not instantiated")
    for f in fs:
        subs = _class_map_subscripts(f)
        for s in subs:
            key = astq.strip(s["c"][2] if s.get("k") == "CXXOperatorCallExpr" else s["c"][1])
            ok = key is not None and key.get("k") == "CallExpr" and (key.get("callee") or "").endswith("::type_index")
            if r_proj:
                run.instance(r_proj, "%s: class_map keyed by %s" % (short(f), astq.text(key)), (f["file"], s["l"]), ok=ok)
                if not ok:
                    run.violation(r_proj, "compiler::%s|class_map-key" % f["name"].split("::")[-1], "class_map is accessed with key %s, not with Policy::type_index(id)" % astq.text(key), (f["file"], s["l"]))
        if r_proj:
            # class identity is decided on classes (entries of class_map, i.e. after projection), never by comparing raw ids:
            # two different ids may be the same class
            raw = []
            for n in astq.walk(f["body"]):
                if n.get("k") == "BinaryOperator" and n.get("op") in ("==", "!="):
                    sides = [astq.strip(x) for x in n["c"]]
                    def is_id(x):
                        if x.get("k") == "MemberExpr" and x.get("member") == "type" and "class_info" in ((astq.strip(x["c"][0]).get("t") or "") if x.get("c") else ""):
                            return True
                        if x.get("k") == "UnaryOperator" and x.get("op") == "*" and re.search(r"(unsigned long|type_id)\s*$", (x.get("t") or "unsigned long")) and any(
                                y.get("k") == "MemberExpr" and y.get("member") in ("first_base", "last_base", "vp_begin", "vp_end") for y in astq.walk(x)):
                            return True
                        if x.get("k") == "DeclRefExpr" and x["ref"].get("storage") == "local":
                            return False
                        return False
                    if any(is_id(x) for x in sides):
                        raw.append(n)
            # iterators initialised from first_base / vp_begin and dereferenced
            its = {d["did"] for n in astq.walk(f["body"]) if n.get("k") == "DeclStmt" for d in n["decls"] if d.get("init") is not None and any(
                y.get("k") == "MemberExpr" and y.get("member") in ("first_base", "vp_begin") for y in astq.walk(d["init"]))}
            for n in astq.walk(f["body"]):
                if n.get("k") == "BinaryOperator" and n.get("op") in ("==", "!=") and n not in raw:
                    for x in (astq.strip(y) for y in n["c"]):
                        if x.get("k") == "UnaryOperator" and x.get("op") == "*" and astq.strip(x["c"][0]).get("k") == "DeclRefExpr" and astq.strip(x["c"][0])["ref"].get("did") in its:
                            raw.append(n)
                            break
            # not a class-identity decision: membership of an id in the class's own id list (ids ARE compared raw there)
            byid_, parent_ = astq.index_nodes(f)

            def in_id_list_test(n):
                x = parent_.get(n["id"])
                while x is not None:
                    if x.get("k") == "CallExpr" and re.match(r"^std::(none_of|any_of|find_if|count_if|all_of)<", x.get("callee") or "") and any(
                            y.get("k") == "MemberExpr" and y.get("member") == "type_ids" for a in x["c"][1:3] for y in astq.walk(a)):
                        return True
                    x = parent_.get(x["id"])
                return False
            raw = [n for n in raw if not in_id_list_test(n)]
            run.instance(r_proj, "%s: classes are told apart by their class_map entry, never by comparing raw type ids" % short(f), (f["file"], f["line"]), ok=not raw)
            for n in raw:
                run.violation(r_proj, "compiler::%s|raw-id-comparison" % f["name"].split("::")[-1], "`%s` compares raw type ids: with a many-to-one type_index two different ids can be the same class" % astq.text(n)[:80], (f["file"], n["l"]))
        if not r_null:
            continue
        # by-value look-ups: `auto x = class_map[...]` with x a pointer
        def rec(n):
            if n.get("k") == "CompoundStmt":
                cs = n.get("c") or []
                for i, s in enumerate(cs):
                    if s.get("k") == "DeclStmt":
                        for d in s["decls"]:
                            init = d.get("init")
                            if init is None or d["type"].endswith("&"):
                                continue
                            sub = [x for x in astq.walk(init) if x in subs]
                            if sub:
                                check_null(f, d, sub[0], cs[i + 1:])
            for c in astq.kids_nodup(n):
                rec(c)

        def check_null(f, d, sub, following):
            key = astq.strip(sub["c"][2])
            looked = astq.text(key["c"][1]) if key.get("k") == "CallExpr" and len(key.get("c") or []) > 1 else astq.text(key)
            what = "%s: look-up of %s is null-tested before use, the null outcome reports that id and aborts" % (short(f), looked)
            nxt = following[0] if following else None
            problems = []
            if nxt is None or nxt.get("k") != "IfStmt":
                problems.append("the looked-up pointer `%s` is not tested right after the look-up" % d["name"])
            else:
                c = astq.strip(nxt["cond"])
                isnull = astq.canon(nxt["cond"]) == ("null", "v#%s" % d["did"])
                if not isnull:
                    problems.append("the statement after the look-up does not test `!%s`" % d["name"])
                else:
                    th = nxt["then"]
                    # the report may be delegated to a helper that does not return: judge the helper's body instead, with the
                    # looked-up id bound to its parameter
                    last0 = astq.strip((th.get("c") or [None])[-1]) if th.get("c") else None
                    if last0 is not None and last0.get("k") in ("CallExpr", "CXXMemberCallExpr") and last0.get("callee") != "abort":
                        g = [x for x in ast.funcs if x.get("body") and x["name"] == last0.get("callee")]
                        args = last0["c"][1:] if last0.get("k") == "CallExpr" else last0["c"][1:]
                        if g and len(g[0].get("params") or []) == len(args):
                            hit = [i for i, a in enumerate(args) if astq.text(a) == looked]
                            if hit:
                                th = g[0]["body"]
                                looked = g[0]["params"][hit[0]]["name"]
                    assigns = [n for n in astq.walk(th) if n.get("k") == "BinaryOperator" and n.get("op") == "=" and astq.strip(n["c"][0]).get("k") == "MemberExpr" and astq.strip(n["c"][0]).get("member") == "type"]
                    if not assigns or astq.text(assigns[0]["c"][1]) != looked:
                        problems.append("the unknown_class_error does not carry the looked-up id %s (carries %s)" % (looked, astq.text(assigns[0]["c"][1]) if assigns else "nothing"))
                    if not any(x.get("k") == "DeclStmt" and any("unknown_class_error" in dd["type"] for dd in x["decls"]) for x in astq.walk(th)):
                        problems.append("no unknown_class_error is built")
                    last = (th.get("c") or [None])[-1]
                    if last is None or astq.strip(last).get("k") != "CallExpr" or astq.strip(last).get("callee") != "abort":
                        problems.append("the null branch does not end in abort()")
                    # a policy without the error_handler facet has nobody to report to (abort only)
                    pm = re.search(r"compiler<(.*)>::\w+$", f["name"])
                    pname = pm.group(1) if pm else ""
                    bases = ast.policies.get(pname) or ast.policies.get(pname.replace("yorel::yomm2::", "")) or set()
                    pol_has_handler = not bases or any("error_handler" in b or "vectored_error" in b or "throw_error" in b for b in bases)
                    calls_err = not pol_has_handler or any(x.get("k") in ("CallExpr", "CXXOperatorCallExpr") and re.search(r"::error$|operator\(\)$", x.get("callee") or "") and any(
                        y.get("k") in ("DeclRefExpr", "MemberExpr") and (astq.refname(y) or "").endswith("::error") for y in astq.walk(x)) for x in astq.walk(th))
                    if not calls_err:
                        problems.append("the policy's error handler is not called in the null branch")
            run.instance(r_null, what, (f["file"], sub["l"]), ok=not problems)
            for p in problems:
                run.violation(r_null, "compiler::%s|%s" % (f["name"].split("::")[-1], d["name"]), p, (f["file"], sub["l"]))
        rec(f["body"])


# ---------------------------------------------------------------------------
# (5) control-dependence whitelists in augment_classes

def _cond_toward(cfg, x, b, cn):
    """canonical form of the condition of branch block x that holds when control goes on towards block b
    (None when both or neither outcome lead there)"""
    if cn is None:
        return None
    taken = cfg.branch_taken(x, b)
    # b may depend on x through intermediate branch blocks (a loop header between them): follow the chain
    frontier, seen = [b], {b}
    for _ in range(5):
        if taken:
            break
        nxt = []
        for t in frontier:
            for y in cfg.control_deps(t):
                if y != x and y not in seen:
                    seen.add(y)
                    nxt.append(y)
        for y in nxt:
            taken = cfg.branch_taken(x, y)
            if taken:
                break
        frontier = nxt
    cf = astq.canon(cn)
    if taken == [0]:
        return cf
    if taken == [1]:
        return cf[1] if cf[0] == "not" else ("not", cf)
    return None


def _cdep_conds(f, node):
    cfg = astq.Cfg(f)
    byid, _ = astq.index_nodes(f)
    b = cfg.block_of.get(node["id"])
    if b is None:
        return None
    out = []
    for x in _transitive_cdeps(cfg, b):
        cn = byid.get(cfg.blocks[x].get("cond"))
        cls = _classify_cond(cn, cfg.blocks[x])
        if _is_assert(cfg, x):
            cls = "trace"       # BOOST_ASSERT / assert: the failing outcome does not return
        out.append((cls, cn, cfg.blocks[x]))
    return out


def _is_assert(cfg, x):
    """a two-way branch one of whose outcomes immediately reaches a noreturn call (assertion failure)"""
    blk = cfg.blocks[x]
    if blk.get("termk") not in ("ConditionalOperator", "BinaryOperator", "IfStmt"):
        return False
    if blk.get("termk") == "IfStmt":
        return False
    for s in cfg.succ[x]:
        sb = cfg.blocks[s]
        if sb.get("noreturn"):
            return True
        # the noreturn call may sit one empty block further
        ss = cfg.succ[s]
        if len(ss) == 1 and cfg.blocks[ss[0]].get("noreturn") and not sb.get("stmts"):
            return True
    return False


def merge_rules(run, r_bases, r_ids, ast):
    for f in by_name(ast, "augment_classes"):
        pushes = [n for n in astq.walk(f["body"]) if n.get("k") == "CXXMemberCallExpr" and (n.get("callee") or "").endswith("::push_back")]
        tb = [n for n in pushes if any(x.get("k") == "MemberExpr" and x.get("member") == "transitive_bases" for x in astq.walk(n["c"][0]))
              and astq.strip(n["c"][1]).get("k") == "DeclRefExpr"]
        ti = [n for n in pushes if any(x.get("k") == "MemberExpr" and x.get("member") == "type_ids" for x in astq.walk(n["c"][0]))]
        # pushes whose argument is the variable of a loop over some class's transitive_bases: the closure step, not the collection
        def _closure_push(n):
            a = astq.strip(n["c"][1])
            if a.get("k") != "DeclRefExpr":
                return False
            for lp in astq.walk(f["body"]):
                if lp.get("k") == "CXXForRangeStmt" and lp["var"]["did"] == a["ref"]["did"] and any(x.get("k") == "MemberExpr" and x.get("member") == "transitive_bases" for x in astq.walk(lp["range"])):
                    return True
            return False
        closure = [n for n in tb if _closure_push(n)]
        tb = [n for n in tb if n not in closure]
        if r_bases:
            # classes may be registered incrementally (each class with its direct base only, in separate statements): the lists the
            # direct-base extraction and the slot reservation walk are only complete if they are closed transitively after collection
            byid_c, parent_c = astq.index_nodes(f)
            okc = False
            for n in closure:
                loops = _enclosing(parent_c, n, ("ForStmt", "WhileStmt", "DoStmt"))
                flags = set()
                for st in _enclosing(parent_c, n, ("CompoundStmt",)):
                    for x in st.get("c") or []:
                        e = astq.strip(x) if x.get("k") != "DeclStmt" else None
                        if e is not None and e.get("k") == "BinaryOperator" and e.get("op") == "=" and (astq.strip(e["c"][0]) or {}).get("k") == "DeclRefExpr" and (astq.strip(e["c"][1]) or {}).get("k") == "CXXBoolLiteralExpr" and astq.strip(e["c"][1]).get("v"):
                            flags.add(astq.strip(e["c"][0])["ref"]["did"])
                fl_loops = [lp for lp in loops if lp.get("cond") is not None and any(y.get("k") == "DeclRefExpr" and y["ref"]["did"] in flags for y in astq.walk(lp["cond"]))]
                if fl_loops:
                    okc = True
                    # the first pass is unconditional: the flag starts out true (or the loop tests it after the body)
                    for lp in fl_loops:
                        if lp.get("k") == "DoStmt":
                            continue
                        fdids = {y["ref"]["did"] for y in astq.walk(lp["cond"]) if y.get("k") == "DeclRefExpr" and y["ref"]["did"] in flags}
                        inits = [d.get("init") for st in astq.walk(f["body"]) if st.get("k") == "DeclStmt" for d in st["decls"] if d.get("did") in fdids]
                        # the values the flag can hold when the loop is reached: its initialiser, or (declared without one)
                        # what is assigned to it outside the loop
                        inloop = {id(y) for y in astq.walk(lp)}
                        starts = [ini for ini in inits if ini is not None]
                        if not starts:
                            for y in astq.walk(f["body"]):
                                if id(y) in inloop or y.get("k") != "BinaryOperator" or y.get("op") != "=":
                                    continue
                                lhs = astq.strip(y["c"][0]) or {}
                                if lhs.get("k") == "DeclRefExpr" and lhs["ref"]["did"] in fdids:
                                    starts.append(y["c"][1])
                        for ini in starts:
                            e = astq.strip(ini)
                            if e is not None and e.get("k") == "CXXBoolLiteralExpr" and e.get("v"):
                                continue
                            # "there is at least one class" is as good as true: an empty registry has nothing to close
                            t = re.sub(r"\bthis->", "", astq.text(ini))
                            t = re.sub(r"\s+", "", t)
                            if re.fullmatch(r"\(?!empty\((Policy::)?classes\.empty\)\)?|\(?size\((Policy::)?classes\.size\)!=0\)?|\(?0(<|!=)size\((Policy::)?classes\.size\)\)?", t):
                                continue
                            run.instance(r_bases, "%s: the closure of the base lists runs for every registry (its first pass is unconditional)" % short(f), (f["file"], lp["l"]), ok=False)
                            run.violation(r_bases, "compiler::augment_classes|closure-conditional", "the closure loop only starts if `%s`: registries for which that is false (every class registered once, with its direct bases only) keep incomplete base lists" % astq.text(ini)[:70], (f["file"], lp["l"]))
            overwritten = None
            if closure and not okc:
                # the flag of the fixpoint loop is ASSIGNED a per-class verdict (not set on every insertion, not accumulated): whether
                # another pass runs is then decided by the last class visited alone
                for n in closure:
                    loops = _enclosing(parent_c, n, ("ForStmt", "WhileStmt", "DoStmt"))
                    fl = {y["ref"]["did"] for lp in loops if lp.get("cond") is not None for y in astq.walk(lp["cond"]) if y.get("k") == "DeclRefExpr" and y["ref"].get("storage") == "local"}
                    cls_loops = _enclosing(parent_c, n, ("CXXForRangeStmt",))
                    for cl in cls_loops:
                        for x in astq.walk(cl["body"]):
                            if x.get("k") == "BinaryOperator" and x.get("op") == "=" and (astq.strip(x["c"][0]) or {}).get("k") == "DeclRefExpr" and astq.strip(x["c"][0])["ref"]["did"] in fl:
                                rhs = astq.strip(x["c"][1])
                                if not (rhs.get("k") == "CXXBoolLiteralExpr" and rhs.get("v")) and not _refs(rhs, astq.strip(x["c"][0])["ref"]["did"]):
                                    overwritten = x
            if overwritten is not None:
                run.instance(r_bases, "%s: the collected base lists are closed transitively (a class registered with its direct base only still knows all its bases)" % short(f), (f["file"], overwritten["l"]), ok=False)
                run.violation(r_bases, "compiler::augment_classes|closure-flag-overwritten", "the 'something changed' flag of the closure loop is assigned `%s` for each class, not set on every insertion nor accumulated: whether another pass runs is decided by the LAST class visited alone, so the closure is incomplete for some orders of registration" % astq.text(overwritten["c"][1])[:70], (f["file"], overwritten["l"]))
            elif closure and not okc:
                run.broken.append("%s: a step extends transitive_bases from the bases' own lists, but not in the 'repeat until nothing changes' form this rule recognises" % short(f))
            else:
                run.instance(r_bases, "%s: the collected base lists are closed transitively (a class registered with its direct base only still knows all its bases)" % short(f), (f["file"], f["line"]), ok=okc)
                if not okc:
                    run.violation(r_bases, "compiler::augment_classes|bases-not-closed", "a class's transitive_bases only holds the bases its own registration records name: with incremental registration (each class listed with its direct base, in separate statements) "
                                  "an indirect base is missing, direct-base extraction keeps a spurious direct base and the lattice slot reservation skips it - two method parameters can share a v-table cell", (f["file"], f["line"]))
            if len(tb) != 1:
                run.broken.append("%s: expected one push of a looked-up base into transitive_bases, found %d" % (short(f), len(tb)))
            else:
                cds = _cdep_conds(f, tb[0])
                bad = []
                for cls, cn, blk in cds or []:
                    if cls in ("loop", "trace"):
                        continue
                    t = astq.text(cn) if cn else "?"
                    dids = {x["ref"]["did"] for x in astq.walk(cn) if x.get("k") == "DeclRefExpr"} if cn else set()
                    c0 = astq.strip(cn) if cn else {}
                    pushed = astq.strip(tb[0]["c"][1])["ref"]["did"]
                    owner = {x["ref"]["did"] for x in astq.walk(tb[0]["c"][0]) if x.get("k") == "DeclRefExpr"}
                    if astq.canon(cn)[0] in ("not", "eq") and (astq.canon(cn) if astq.canon(cn)[0] == "eq" else astq.canon(cn)[1])[0] == "eq" and pushed in dids and (owner & dids):
                        continue        # the improper base (the class itself)
                    if blk.get("termk") == "IfStmt" and astq.canon(cn) in (("null", "v#%s" % astq.strip(tb[0]["c"][1])["ref"]["did"]), ("not", ("null", "v#%s" % astq.strip(tb[0]["c"][1])["ref"]["did"]))):
                        # null test of the looked-up base itself: its other outcome aborts (C15-update)
                        continue
                    bad.append(t)
                run.instance(r_bases, "%s: every listed base of every registration record is recorded (only the class itself is dropped)" % short(f), (f["file"], tb[0]["l"]), ok=not bad)
                for t in bad:
                    run.violation(r_bases, "compiler::augment_classes|base-push-guard", "recording a listed base is skipped depending on `%s`: records of the same class are no longer merged completely" % t, (f["file"], tb[0]["l"]))
        if r_ids:
            if len(ti) != 1:
                run.broken.append("%s: expected one push into type_ids, found %d" % (short(f), len(ti)))
            else:
                cds = _cdep_conds(f, ti[0])
                bad = []
                for cls, cn, blk in cds or []:
                    if cls in ("loop", "trace"):
                        continue
                    if cn is not None and any(x.get("k") == "CallExpr" and (x.get("callee") or "").startswith("std::find<") for x in astq.walk(cn)):
                        continue        # not yet in the list
                    if cn is not None and any(x.get("k") == "CallExpr" and re.match(r"^std::(none_of|any_of|find_if|count_if)<", x.get("callee") or "") for x in astq.walk(cn)):
                        # membership through a predicate: it must compare the RAW ids (ids of one class all share their projection)
                        lam = [x for x in astq.walk(cn) if x.get("k") == "LambdaExpr"]
                        rets = [r for l in lam for b in ([l["lambda"].get("body")] + list(l["lambda"].get("specializations") or [])) if b for r in astq.walk(b) if r.get("k") == "ReturnStmt" and r.get("c")]
                        proj = any(x.get("k") in ("CallExpr", "CXXMemberCallExpr") and (x.get("callee") or "").endswith("::type_index") for r in rets for x in astq.walk(r))
                        if rets and not proj:
                            continue
                        if proj:
                            bad.append("a predicate that compares Policy::type_index of the ids (equal for all ids of one class)")
                            continue
                    bad.append(astq.text(cn) if cn else "?")
                run.instance(r_ids, "%s: every new id of a class is appended to its id list" % short(f), (f["file"], ti[0]["l"]), ok=not bad)
                for t in bad:
                    run.violation(r_ids, "compiler::augment_classes|id-push-guard", "appending an id to a class's id list depends on `%s`: a second id of an already known class is dropped" % t, (f["file"], ti[0]["l"]))
    if r_bases:
        dedup_rules(run, r_bases, ast)


# ---------------------------------------------------------------------------
# (6) deferred type ids: one-shot resolution guarded by a flag

def _enclosing(parent, n, kinds):
    out = []
    x = parent.get(n["id"])
    while x is not None:
        if x.get("k") in kinds:
            out.append(x)
        x = parent.get(x["id"])
    return out


def _in_subtree(root, n):
    return any(x is n for x in astq.walk(root))


def deferred_rules(run, r_oneshot, r_all, r_nonempty, ast):
    fs = [f for f in by_name(ast, "resolve_static_type_ids") if any(x.get("k") == "CXXForRangeStmt" for x in astq.walk(f["body"]))]
    if not fs:
        raise common.AnalysisBroken("resolve_static_type_ids is not instantiated for a deferred-RTTI policy")
    for f in fs:
        byid, parent = astq.index_nodes(f)
        # the resolving lambda
        res = None
        for n in astq.walk(f["body"]):
            if n.get("k") == "DeclStmt":
                for d in n["decls"]:
                    if d.get("init") is not None and any(x.get("k") == "LambdaExpr" for x in astq.walk(d["init"])):
                        res = d
        if res is None:
            run.broken.append("%s: resolving lambda not found" % short(f))
            continue
        calls = [n for n in astq.walk(f["body"]) if n.get("k") == "CXXOperatorCallExpr" and n.get("oop") == "()" and any(
            x.get("k") == "DeclRefExpr" and x["ref"]["did"] == res["did"] for x in astq.walk(n["c"][1]))]
        if len(calls) < 4:
            run.broken.append("%s: only %d resolver calls found" % (short(f), len(calls)))

        def flag_test(cond):
            """(flag text, kind) if cond tests that a list / record is still unresolved"""
            out = []

            def rec(c):
                c = astq.strip(c)
                if c.get("k") == "BinaryOperator" and c.get("op") == "&&":
                    rec(c["c"][0])
                    rec(c["c"][1])
                elif c.get("k") == "BinaryOperator" and c.get("op") == "==" and astq.affine(c["c"][1]) == {}:
                    l = astq.strip(c["c"][0])
                    if l.get("k") == "UnaryOperator" and l.get("op") == "*":
                        out.append((astq.text(l), "word"))
                elif c.get("k") == "UnaryOperator" and c.get("op") == "!":
                    l = astq.strip(c["c"][0])
                    if l.get("k") == "MemberExpr":
                        out.append((astq.text(l), "bool"))
                    elif l.get("k") == "UnaryOperator" and l.get("op") == "*":
                        out.append((astq.text(l), "word"))
            rec(cond)
            return out
        for call in calls:
            arg = astq.strip(call["c"][2])
            argt = astq.text(arg)
            ifs = _enclosing(parent, call, ("IfStmt",))
            loops = _enclosing(parent, call, ("CXXForRangeStmt",))
            guard = None
            for i in ifs:
                if _in_subtree(i["then"], call):
                    ft = flag_test(i["cond"])
                    if ft:
                        guard = (i, ft[0])
                        break
            what = "%s: resolve(%s)" % (short(f), argt)
            if guard is None:
                run.instance(r_oneshot, what + " is guarded by an 'unresolved' flag", (f["file"], call["l"]), ok=False)
                run.violation(r_oneshot, "compiler::resolve_static_type_ids|unguarded|%s" % argt,
                              "the deferred id %s is resolved on every update: on the second update the cell holds the id, which is then called as a function" % argt, (f["file"], call["l"]))
                continue
            gi, (flag, kind) = guard
            # the flag must be set inside the guarded branch
            sets = [n for n in astq.walk(gi["then"]) if n.get("k") == "BinaryOperator" and n.get("op") == "=" and astq.text(n["c"][0]) == flag]
            ok1 = len(sets) >= 1
            run.instance(r_oneshot, what + " is guarded by `%s` which is set once resolved" % flag, (f["file"], call["l"]), ok=ok1)
            if not ok1:
                run.violation(r_oneshot, "compiler::resolve_static_type_ids|flag-not-set|%s" % argt, "the flag `%s` guarding resolve(%s) is never set in the guarded branch" % (flag, argt), (f["file"], call["l"]))
                continue
            # the cell loop: the innermost range-for whose variable the argument refers to
            cell_loop = None
            for lp in loops:
                if any(x.get("k") == "DeclRefExpr" and x["ref"]["did"] == lp["var"]["did"] for x in astq.walk(arg)):
                    cell_loop = lp
                    break
            per_cell_flag = cell_loop is not None and any(
                x.get("k") == "DeclRefExpr" and x["ref"]["did"] == cell_loop["var"]["did"] for s0 in sets for x in astq.walk(s0["c"][0]))
            if cell_loop is not None and r_all and not per_cell_flag:
                inside = any(_in_subtree(cell_loop["body"], s) for s in sets)
                test_inside = _in_subtree(cell_loop["body"], gi)
                ok2 = not inside
                run.instance(r_all, what + ": the flag is set after the loop over all cells of the list, not inside it", (f["file"], call["l"]), ok=ok2)
                if not ok2:
                    run.violation(r_all, "compiler::resolve_static_type_ids|flag-set-in-loop|%s" % flag,
                                  "`%s` is set inside the loop over the list's cells%s: only the first id of the list is resolved" % (flag, " (and tested there)" if test_inside else ""), (f["file"], sets[0]["l"]))
            # lists that can be empty (class base lists) have no storage for the flag
            if kind == "word" and r_nonempty and "last_base" in flag:
                c = gi["cond"]
                ok3 = any(x.get("k") == "BinaryOperator" and x.get("op") == "!=" and {"first_base", "last_base"} <= {y.get("member") for y in astq.walk(x) if y.get("k") == "MemberExpr"}
                          for x in astq.walk(c)) or any(x.get("k") == "MemberExpr" and x.get("member") == "last_base" and astq.strip(c).get("op") == "&&" for x in astq.walk(astq.strip(c)["c"][0]) if astq.strip(c).get("k") == "BinaryOperator")
                run.instance(r_nonempty, what + ": the flag word of a possibly empty base list is read only when the list is non-empty", (f["file"], gi["l"]), ok=ok3)
                if not ok3:
                    run.violation(r_nonempty, "compiler::resolve_static_type_ids|empty-list-flag", "`%s` is read without testing that the base list is non-empty: a class registered without bases has a null list end" % flag, (f["file"], gi["l"]))


# ---------------------------------------------------------------------------
# (7) type-id hash and publishers

def _fn(ast, pattern):
    rx = re.compile(pattern)
    return [f for f in ast.funcs if f.get("body") and rx.search(f["name"])]


def _idloops(f):
    """(outer loop over [first,last), inner loop over type ids) pairs"""
    out = []
    for o in astq.walk(f["body"]):
        if o.get("k") != "ForStmt":
            continue
        for i in astq.walk(o.get("body")):
            if i.get("k") == "ForStmt" and i.get("init") is not None and any(x.get("k") == "CXXMemberCallExpr" and (x.get("callee") or "").endswith("::type_id_begin") for x in astq.walk(i["init"])) \
                    and i.get("cond") is not None and any(x.get("k") == "CXXMemberCallExpr" and (x.get("callee") or "").endswith("::type_id_end") for x in astq.walk(i["cond"])):
                oi, oc = o.get("init"), o.get("cond")
                first_last = oi is not None and any(x.get("k") == "DeclRefExpr" and x["ref"].get("storage") == "param" for x in astq.walk(oi)) and \
                    oc is not None and any(x.get("k") == "DeclRefExpr" and x["ref"].get("storage") == "param" for x in astq.walk(oc))
                if first_last:
                    out.append((o, i))
    return out


def _hash_expr(n):
    """normal form of (id * hash_mult) >> hash_shift"""
    n = astq.strip(n)
    if n is None or n.get("k") != "BinaryOperator" or n.get("op") != ">>":
        return None
    l, r = astq.strip(n["c"][0]), astq.strip(n["c"][1])
    if l.get("k") != "BinaryOperator" or l.get("op") != "*":
        return None
    ops = []
    for o in l["c"]:
        o = astq.strip(o)
        nm = astq.refname(o)
        if nm is None:
            return None
        ops.append("ID" if not nm.endswith("hash_mult") else "hash_mult")
    rn = astq.refname(r)
    return (tuple(sorted(ops)), (rn or "?").split("::")[-1])


def hash_rules(run, r_accept, r_same, r_publish, r_checked, r_allids, ast):
    # ---- hash_initialize(first, last, buckets)
    his = [f for f in _fn(ast, r"fast_perfect_hash<.*>::hash_initialize<") if len(f["params"]) == 3]
    if not his:
        raise common.AnalysisBroken("fast_perfect_hash::hash_initialize(first, last, buckets) not instantiated")
    hts = {re.sub(r"::hash_type_id$", "", f["name"]): f for f in _fn(ast, r"fast_perfect_hash<[^()]*>::hash_type_id$")}
    for f in his:
        loops = _idloops(f)
        # one way out with parameters installed: a second return (a shortcut that keeps or reuses parameters without a complete
        # scan of the current ids) is a violation whatever else the function looks like
        rets_ = [n for n in astq.walk(f["body"]) if n.get("k") == "ReturnStmt"]
        if r_accept and len(rets_) > 1:
            run.instance(r_accept, "%s: parameters are accepted at one place only, after a complete scan" % short(f), (f["file"], rets_[0]["l"]), ok=False)
            run.violation(r_accept, "fast_perfect_hash::hash_initialize|several-exits", "hash_initialize returns from %d places (lines %s): parameters can be kept or accepted without the complete collision-free scan that sets hash_length" % (
                len(rets_), ", ".join(str(r_["l"]) for r_ in rets_)), (f["file"], rets_[0]["l"]))
            continue
        # the verdict of a scan is monotone: once an id collides the scan has failed, a later id cannot make it succeed again
        flags_ = [d["did"] for n in astq.walk(f["body"]) if n.get("k") == "DeclStmt" for d in n["decls"] if d["type"] == "bool" and not d.get("const")]
        if r_accept and flags_ and len(loops) == 1:
            inner_ = loops[0][1]
            reasg = [n for n in astq.walk(inner_["body"]) if n.get("k") == "BinaryOperator" and n.get("op") == "=" and astq.strip(n["c"][0]).get("k") == "DeclRefExpr" and astq.strip(n["c"][0])["ref"].get("did") in flags_
                     and not (astq.strip(n["c"][1]).get("k") == "CXXBoolLiteralExpr" and not astq.strip(n["c"][1]).get("v"))]
            guarded = inner_.get("cond") is not None and any(x.get("k") == "DeclRefExpr" and x["ref"].get("did") in flags_ for x in astq.walk(inner_["cond"]))
            if reasg and not guarded:
                run.instance(r_accept, "%s: a collision is final for the scan" % short(f), (f["file"], reasg[0]["l"]), ok=False)
                run.violation(r_accept, "fast_perfect_hash::hash_initialize|verdict-overwritten", "`%s` re-computes the scan's verdict for every id while the loop over a class's ids goes on: a collision on one id is overwritten by the verdict of the next, and a colliding multiplier is accepted" % astq.text(reasg[0])[:90], (f["file"], reasg[0]["l"]))
                continue
        if r_allids:
            run.instance(r_allids, "%s scans every id of every class of [first, last)" % short(f), (f["file"], f["line"]), ok=len(loops) == 1)
            if len(loops) != 1:
                run.violation(r_allids, "fast_perfect_hash::hash_initialize|id-loops", "the hash search does not iterate type_id_begin()..type_id_end() of every element of [first, last)", (f["file"], f["line"]))
        if len(loops) != 1:
            run.broken.append("%s: scan loops not recognised" % short(f))
            continue
        outer, inner = loops[0]
        found = [d for n in astq.walk(f["body"]) if n.get("k") == "DeclStmt" for d in n["decls"] if d["type"] == "bool" and d["name"] == "found"]
        if not found:
            found = [d for n in astq.walk(f["body"]) if n.get("k") == "DeclStmt" for d in n["decls"] if d["type"] == "bool" and not d.get("const")]
        if not found:
            run.broken.append("%s: no `found` flag" % short(f))
            continue
        fd = found[0]["did"]
        bparam = f["params"][2]["did"]

        def is_bucket(n):
            n = astq.strip(n)
            return n is not None and n.get("k") == "CXXOperatorCallExpr" and n.get("oop") == "[]" and astq.strip(n["c"][1]).get("k") == "DeclRefExpr" and astq.strip(n["c"][1])["ref"]["did"] == bparam

        def occupied_test(c):
            c0 = astq.strip(c)
            if c0.get("k") == "BinaryOperator" and c0.get("op") in ("!=", "=="):
                for a, b in ((c0["c"][0], c0["c"][1]), (c0["c"][1], c0["c"][0])):
                    if is_bucket(a):
                        return (c0["op"], astq.strip(b).get("cv"), b)
            if is_bucket(c0):
                return ("truthy", 0, None)
            return None
        def bucket_cmps(c):
            """comparisons of the probed bucket inside a condition: [(op, constant-or-None, other side)]"""
            out = []
            for x in astq.walk(c):
                if x.get("k") == "BinaryOperator" and x.get("op") in ("!=", "=="):
                    for a, b in ((x["c"][0], x["c"][1]), (x["c"][1], x["c"][0])):
                        if is_bucket(a):
                            out.append((x["op"], astq.strip(b).get("cv"), b))
            if not out and is_bucket(astq.strip(c)):
                out.append(("truthy", 0, None))
            return out
        tests = [n for n in astq.walk(inner["body"]) if n.get("k") == "IfStmt" and bucket_cmps(n["cond"])]
        fills = [n for n in astq.walk(f["body"]) if n.get("k") == "CallExpr" and (n.get("callee") or "").startswith("std::fill<") and any(
            x.get("k") == "DeclRefExpr" and x["ref"]["did"] == bparam for x in astq.walk(n))]
        if len(tests) != 1 or len(fills) != 1:
            run.broken.append("%s: collision test / bucket fill not recognised (%d, %d)" % (short(f), len(tests), len(fills)))
            continue
        cm = [t for t in bucket_cmps(tests[0]["cond"]) if t[1] is not None] or bucket_cmps(tests[0]["cond"])
        op, marker, _ = cm[0]
        fillv = astq.strip(fills[0]["c"][3]).get("cv")
        ALLONES = (-1, 2 ** 64 - 1)
        okm = fillv in ALLONES and marker in ALLONES and op == "!="
        run.instance(r_accept, "%s: empty-bucket marker is invalid_type (all ones) in both the fill and the collision test" % short(f), (f["file"], tests[0]["l"]), ok=okm)
        if not okm:
            run.violation(r_accept, "fast_perfect_hash::hash_initialize|empty-marker",
                          "buckets are filled with %s and tested with `%s %s`: the marker must be invalid_type in both places, any other value is a legal type id" % (fillv, op, marker), (f["file"], tests[0]["l"]))

        tbl = hash_bucket_table(f)
        if tbl is None:
            run.broken.append("%s: scan body not classifiable over the states of the probed bucket" % short(f))
            continue
        # a bucket holding ANOTHER id clears the flag and is left alone; a free one is claimed. (A bucket that already holds the id
        # being placed - a class repeated in the range - may be treated either way here; the decoder's rule C13 needs it tolerated.)
        oks = tbl["other"] == {"found=false"} and tbl["free"] == {"bucket-write"} and tbl["same"] in ({"found=false"}, {"bucket-write"}, set())
        run.instance(r_accept, "%s: a bucket occupied by another id clears `found` and is not overwritten; a free one is claimed" % short(f), (f["file"], tests[0]["l"]), ok=oks, detail={k_: sorted(v) for k_, v in tbl.items()})
        if not oks:
            run.violation(r_accept, "fast_perfect_hash::hash_initialize|collision-branch", "on a bucket occupied by another id the scan does %s, on a free one %s, on one holding the same id %s" % (sorted(tbl["other"]), sorted(tbl["free"]), sorted(tbl["same"])), (f["file"], tests[0]["l"]))
        # accept: the only normal return is `if (found) { ...; return; }` after the scan
        byid, parent = astq.index_nodes(f)
        rets = [n for n in astq.walk(f["body"]) if n.get("k") == "ReturnStmt"]
        oka = len(rets) == 1
        if oka:
            ifs = _enclosing(parent, rets[0], ("IfStmt",))
            c = astq.strip(ifs[0]["cond"]) if ifs else None
            oka = c is not None and c.get("k") == "DeclRefExpr" and c["ref"]["did"] == fd and _in_subtree(ifs[0]["then"], rets[0]) and not _in_subtree(outer, rets[0]) and len(ifs) == 1
            # hash_length = hash_max + 1 in that branch
            oka = oka and any(n.get("k") == "BinaryOperator" and n.get("op") == "=" and (astq.refname(n["c"][0]) or "").endswith("hash_length") and
                              astq.affine(n["c"][1], {}, lambda x: (astq.refname(x) or "").split("::")[-1] if astq.refname(x) else None) in ({"hash_max": 1, 1: 1}, {"v:hash_max": 1, 1: 1}) for n in astq.walk(ifs[0]["then"]))
        run.instance(r_accept, "%s: parameters are accepted only when the last complete scan left `found` set; hash_length = hash_max + 1" % short(f), (f["file"], rets[0]["l"] if rets else f["line"]), ok=bool(oka))
        if not oka:
            run.violation(r_accept, "fast_perfect_hash::hash_initialize|accept", "the function does not return solely from `if (found)` after the scan with hash_length = hash_max + 1", (f["file"], rets[0]["l"] if rets else f["line"]))
        # exhaustion: falling out of the search loop builds a hash_search_error, calls the handler and aborts
        ps = astq.enum_paths(f["body"], lambda c: None, lambda n: (n.get("k") in ("CallExpr", "CXXOperatorCallExpr") and (n.get("callee") == "abort" or any(
            (astq.refname(y) or "").endswith("::error") for y in astq.walk(n)))) or (n.get("k") == "DeclStmt" and any("hash_search_error" in d["type"] for d in n["decls"])))
        okx = bool(ps) and all(p.get("noreturn") and any(n.get("k") == "DeclStmt" for k0, n in p["events"]) for p in ps if p["returned"] is None)
        # ... and what it reports: `buckets` is the largest table TRIED. The pass loop advances the bit count once more before it is
        # left, so after the loop the last size is 1 << (M - 1)
        for n in astq.walk(f["body"]):
            if n.get("k") == "BinaryOperator" and n.get("op") == "=" and (astq.strip(n["c"][0]) or {}).get("k") == "MemberExpr" and astq.strip(n["c"][0]).get("member") == "buckets":
                sh = [x for x in astq.walk(n["c"][1]) if x.get("k") == "BinaryOperator" and x.get("op") == "<<"]
                if not sh:
                    run.broken.append("%s: value of hash_search_error::buckets is not a shift" % short(f))
                    continue
                e = astq.affine(sh[0]["c"][1], {})
                loops = [lp for lp in astq.walk(f["body"]) if lp.get("k") == "ForStmt" and lp["l"] < n["l"] and lp.get("inc") is not None and any(
                    y.get("k") == "UnaryOperator" and y.get("op") == "++" and ("v:%s" % ((astq.strip(y["c"][0]) or {}).get("ref", {}).get("name", "?").split("::")[-1])) in (e or {}) for y in astq.walk(lp["inc"]))]
                if e is None or not loops:
                    run.broken.append("%s: the exponent of hash_search_error::buckets is not the bit count the pass loop advances" % short(f))
                    continue
                okb = e.get(1, 0) == -1
                run.instance(r_accept, "%s: hash_search_error::buckets is the largest table tried (1 << (M - 1) after the pass loop)" % short(f), (f["file"], n["l"]), ok=okb)
                if not okb:
                    run.violation(r_accept, "fast_perfect_hash::hash_initialize|reported-buckets", "after the pass loop has advanced the bit count once more, the error reports `%s` buckets: twice the largest table that was tried" % astq.text(n["c"][1])[:40], (f["file"], n["l"]))
        run.instance(r_accept, "%s: an exhausted search reports hash_search_error and aborts (never installs parameters)" % short(f), (f["file"], f["line"]), ok=okx)
        if not okx:
            run.violation(r_accept, "fast_perfect_hash::hash_initialize|exhaustion", "a path leaves the search loop without reporting hash_search_error and aborting", (f["file"], f["line"]))
        # trial parameters are never live together with a non-zero hash_length: while hash_mult / hash_shift hold trial
        # values the table is marked invalid (hash_length = 0), so a reported (possibly thrown) failure leaves no hash installed
        def _member_store(n, name):
            return n.get("k") == "BinaryOperator" and n.get("op") == "=" and (astq.refname(n["c"][0]) or "").split("::")[-1] == name
        accept_if = _enclosing(parent, rets[0], ("IfStmt",))[0] if rets and _enclosing(parent, rets[0], ("IfStmt",)) else None
        zero = [n for n in astq.walk(f["body"]) if _member_store(n, "hash_length") and astq.affine(n["c"][1]) == {}]
        nonzero = [n for n in astq.walk(f["body"]) if _member_store(n, "hash_length") and astq.affine(n["c"][1]) != {}]
        trial = [n for n in astq.walk(f["body"]) if (_member_store(n, "hash_mult") or _member_store(n, "hash_shift")) and not (accept_if is not None and _in_subtree(accept_if.get("then"), n))]
        if f.get("cfg") and trial:
            cfg = astq.Cfg(f)
            zb = {cfg.block_of.get(z["id"]) for z in zero} - {None}
            dom = cfg.dom()
            bad = []
            for t in trial:
                tb = cfg.block_of.get(t["id"])
                if tb is None:
                    continue
                dominated = any(z in dom.get(tb, ()) and (z != tb or any(zz["l"] <= t["l"] for zz in zero if cfg.block_of.get(zz["id"]) == z)) for z in zb)
                # or: nothing can be reported / returned after the store before the table is invalidated
                reach = cfg.reachable_from(tb, avoid=zb - {tb}) if not dominated else set()
                escapes = [b for b in reach if b != tb and (cfg.blocks[b].get("noreturn") or b == cfg.exit or any(
                    (byid.get(sid) or {}).get("k") in ("CallExpr", "CXXOperatorCallExpr") and any((astq.refname(y) or "").endswith("::error") for y in astq.walk(byid[sid])) for sid in cfg.blocks[b]["stmts"] if sid in byid))]
                if not dominated and (escapes or tb in zb and False):
                    bad.append(t)
            oki = not bad and all(accept_if is not None and _in_subtree(accept_if.get("then"), n) for n in nonzero)
            run.instance(r_accept, "%s: while trial parameters are being written the table is marked invalid (hash_length = 0)" % short(f), (f["file"], trial[0]["l"]), ok=oki)
            if not oki:
                run.violation(r_accept, "fast_perfect_hash::hash_initialize|invalidate", "%s is overwritten with a trial value while hash_length may still hold the previous update's value: a failed search (reported through a throwing handler) leaves a colliding hash installed" % (
                    (astq.refname(bad[0]["c"][0]) or "?").split("::")[-1] if bad else "hash_length"), (f["file"], (bad[0] if bad else nonzero[0])["l"]))
        elif not trial:
            run.instance(r_accept, "%s: parameters are only stored once accepted" % short(f), (f["file"], f["line"]), ok=True)
        else:
            run.broken.append("%s: no CFG for the invalidation rule" % short(f))
        # same index expression as hash_type_id; shift / table size from the same M
        idx = [d for n in astq.walk(inner["body"]) if n.get("k") == "DeclStmt" for d in n["decls"] if d.get("init") is not None and _hash_expr(d["init"])]
        owner = re.sub(r"::hash_initialize<.*$", "", f["name"])
        ht = hts.get(owner)
        if r_same:
            he = None
            if ht is not None:
                for n in astq.walk(ht["body"]):
                    if n.get("k") == "ReturnStmt":
                        he = _hash_expr(n["c"][0])
            oksame = len(idx) == 1 and he is not None and _hash_expr(idx[0]["init"]) == he == (("ID", "hash_mult"), "hash_shift")
            run.instance(r_same, "%s: the search probes with the expression hash_type_id computes" % short(f), (f["file"], idx[0].get("l", f["line"]) if idx else f["line"]), ok=oksame)
            if not oksame:
                run.violation(r_same, "fast_perfect_hash|index-expression", "search index %s vs hash_type_id %s: both must be (id * hash_mult) >> hash_shift" % (_hash_expr(idx[0]["init"]) if idx else None, he), (f["file"], f["line"]))
            # hash_shift = 8*sizeof(type_id) - M ; buckets.resize(1 << M)
            shift = [n for n in astq.walk(f["body"]) if n.get("k") == "BinaryOperator" and n.get("op") == "=" and (astq.refname(n["c"][0]) or "").endswith("hash_shift")]
            mvar = None
            oksh = False
            if len(shift) == 1:
                a = astq.affine(shift[0]["c"][1])
                ms = [k for k in (a or {}) if k != 1]
                oksh = a is not None and a.get(1) == 64 and len(ms) == 1 and a[ms[0]] == -1
                mvar = ms[0] if ms else None
            sizes = [d for n in astq.walk(f["body"]) if n.get("k") == "DeclStmt" for d in n["decls"] if d.get("init") is not None and astq.strip(d["init"]).get("k") == "BinaryOperator" and astq.strip(d["init"]).get("op") == "<<"]
            okz = False
            if sizes and mvar:
                sh = astq.strip(sizes[0]["init"])
                okz = astq.affine(sh["c"][0]) == {1: 1} and astq.affine(sh["c"][1]) == {mvar: 1}
                rs = [n for n in astq.walk(f["body"]) if n.get("k") == "CXXMemberCallExpr" and (n.get("callee") or "").endswith("::resize") and any(
                    x.get("k") == "DeclRefExpr" and x["ref"]["did"] == bparam for x in astq.walk(n["c"][0]))]
                okz = okz and len(rs) == 1 and astq.strip(rs[0]["c"][1]).get("k") == "DeclRefExpr" and astq.strip(rs[0]["c"][1])["ref"]["did"] == sizes[0]["did"]
            run.instance(r_same, "%s: hash_shift = 64 - M and the bucket vector has 1 << M entries (index < size)" % short(f), (f["file"], shift[0]["l"] if shift else f["line"]), ok=oksh and okz)
            if not (oksh and okz):
                run.violation(r_same, "fast_perfect_hash::hash_initialize|shift-size", "hash_shift / bucket count are not 64 - M and 1 << M for the same M", (f["file"], shift[0]["l"] if shift else f["line"]))
    # ---- checked hash
    for f in _fn(ast, r"checked_perfect_hash<[^()]*>::hash_type_id$"):
        idxv = [d for n in astq.walk(f["body"]) if n.get("k") == "DeclStmt" for d in n["decls"] if d.get("init") is not None and any(
            x.get("k") == "CallExpr" and re.search(r"fast_perfect_hash<.*>::hash_type_id$", x.get("callee") or "") for x in astq.walk(d["init"]))]
        if len(idxv) != 1:
            run.broken.append("%s: index variable not found" % short(f))
            continue
        ps = astq.enum_paths(f["body"], lambda c: None, lambda n: (n.get("k") == "CallExpr" and n.get("callee") == "abort") or (
            n.get("k") in ("CallExpr", "CXXOperatorCallExpr", "CXXMemberCallExpr") and any((astq.refname(y) or "").endswith("::error") for y in astq.walk(n))))
        ok = True
        why = ""
        for p in ps:
            if p["returned"] is not None:
                atoms = set()
                for c, pol in p["guards"]:
                    c0 = astq.strip(c)
                    if c0.get("k") == "BinaryOperator" and c0.get("op") == "||" and not pol:
                        atoms.add((astq.text(c0["c"][0]), False))
                        atoms.add((astq.text(c0["c"][1]), False))
                    else:
                        atoms.add((astq.text(c0), pol))
                # facts established on this path, from the structure of the guards (not their text)
                idx_did = idxv[0]["did"]
                type_did = f["params"][0]["did"]
                facts = set()

                def flat(cn, pol):
                    c0 = astq.strip(cn)
                    if c0.get("k") == "BinaryOperator" and c0.get("op") == "||" and not pol:
                        flat(c0["c"][0], False)
                        flat(c0["c"][1], False)
                    elif c0.get("k") == "BinaryOperator" and c0.get("op") == "&&" and pol:
                        flat(c0["c"][0], True)
                        flat(c0["c"][1], True)
                    elif c0.get("k") == "UnaryOperator" and c0.get("op") == "!":
                        flat(c0["c"][0], not pol)
                    elif c0.get("k") == "BinaryOperator" and c0.get("op") in ("<", "<=", "==", "!="):
                        a, b = astq.strip(c0["c"][0]), astq.strip(c0["c"][1])
                        is_idx = lambda x: x.get("k") == "DeclRefExpr" and x["ref"].get("did") == idx_did
                        is_len = lambda x: (astq.refname(x) or "").split("::")[-1] == "hash_length"
                        is_ctl = lambda x: x.get("k") == "CXXOperatorCallExpr" and x.get("oop") == "[]" and (astq.refname(x["c"][1]) or "").endswith("::control") and is_idx(astq.strip(x["c"][2]))
                        is_typ = lambda x: x.get("k") == "DeclRefExpr" and x["ref"].get("did") == type_did
                        if c0["op"] == "<" and is_idx(a) and is_len(b) and pol:
                            facts.add("in-range")
                        if c0["op"] == "<=" and is_len(a) and is_idx(b) and not pol:
                            facts.add("in-range")
                        if c0["op"] in ("==", "!=") and ((is_ctl(a) and is_typ(b)) or (is_ctl(b) and is_typ(a))) and pol == (c0["op"] == "=="):
                            facts.add("same-id")
                for cn, pol in p["guards"]:
                    flat(cn, pol)
                r1, r2 = "in-range" in facts, "same-id" in facts
                if not (r1 and r2):
                    ok = False
                    why = "a path returns the index without both the range test and the identity test failing (guards: %s)" % sorted(atoms)
            else:
                if not any(n.get("callee") == "abort" for k, n in p["events"]):
                    ok = False
                    why = "a rejecting path does not abort"
                pm = re.search(r"checked_perfect_hash<(.*)>::hash_type_id$", f["name"])
                bases = ast.policies.get(pm.group(1) if pm else "", set())
                has_handler = not bases or any("error_handler" in b or "vectored_error" in b or "throw_error" in b for b in bases)
                if ok and has_handler and not any(any((astq.refname(y) or "").endswith("::error") for y in astq.walk(n)) for k, n in p["events"]):
                    ok = False
                    why = "a rejecting path aborts without calling the policy's error handler (guards: %s): the unknown class is not reported" % sorted(
                        (astq.text(c)[:40], pol) for c, pol in p["guards"])
        run.instance(r_checked, "%s: the index is returned only when in range and control[index] is the id" % short(f), (f["file"], f["line"]), ok=ok)
        if not ok:
            run.violation(r_checked, "checked_perfect_hash::hash_type_id|checks", why, (f["file"], f["line"]))
    for f in [f for f in _fn(ast, r"checked_perfect_hash<.*>::hash_initialize<") if len(f["params"]) == 2]:
        call = [n for n in astq.walk(f["body"]) if n.get("k") == "CallExpr" and re.search(r"fast_perfect_hash<.*>::hash_initialize<", n.get("callee") or "")]
        ok = len(call) == 1 and len(call[0].get("c") or []) > 3 and (astq.refname(call[0]["c"][3]) or "").endswith("::control")
        run.instance(r_checked, "%s: the control table is the bucket vector of the accepted scan" % short(f), (f["file"], f["line"]), ok=ok)
        if not ok:
            run.violation(r_checked, "checked_perfect_hash::hash_initialize|control", "the checked hash does not pass `control` as the bucket vector of the search", (f["file"], f["line"]))
    # ---- publishers
    for f in _fn(ast, r"vptr_vector<.*>::publish_vptrs<") + _fn(ast, r"vptr_map<.*>::publish_vptrs<"):
        loops = _idloops(f)
        stores = [n for n in astq.walk(f["body"]) if (n.get("k") == "BinaryOperator" or (n.get("k") == "CXXOperatorCallExpr" and n.get("oop") == "=")) and n.get("op", "=") == "=" and any(
            (astq.refname(x) or "").endswith("::vptrs") for x in astq.walk((n["c"][0] if n.get("k") == "BinaryOperator" else n["c"][1])))]
        istores_ = [n for n in astq.walk(f["body"]) if (n.get("k") == "BinaryOperator" or (n.get("k") == "CXXOperatorCallExpr" and n.get("oop") == "=")) and n.get("op", "=") == "=" and any(
            (astq.refname(x) or "").endswith("::indirect_vptrs") for x in astq.walk((n["c"][0] if n.get("k") == "BinaryOperator" else n["c"][1])))]
        inside = loops and stores and all(any(_in_subtree(lp[1]["body"], s) for lp in loops) for s in stores + istores_)
        if r_allids:
            run.instance(r_allids, "%s publishes a v-table pointer for every id of every class" % short(f), (f["file"], f["line"]), ok=bool(inside))
            if not inside:
                run.violation(r_allids, "%s|id-loops" % re.sub(r"<.*", "", short(f)), "v-table pointers (and, for an indirect policy, the addresses of the static v-table pointers) are not stored inside a loop over type_id_begin()..type_id_end() of every class: only some ids of a class reach its v-table", (f["file"], f["line"]))
        if "vptr_vector" in f["name"] and r_publish and "cfg" in f:
            rs = [n for n in astq.walk(f["body"]) if n.get("k") == "CXXMemberCallExpr" and (n.get("callee") or "").endswith("::resize") and any((astq.refname(x) or "").endswith("::vptrs") for x in astq.walk(n["c"][0]))]
            hi = [n for n in astq.walk(f["body"]) if n.get("k") == "CallExpr" and (n.get("callee") or "").endswith("hash_initialize") or (n.get("k") == "CallExpr" and "::hash_initialize<" in (n.get("callee") or ""))]
            for what, nodes, need in (("vptrs.resize", rs, 1), ("hash_initialize", hi, 0)):
                if len(nodes) < need:
                    run.broken.append("%s: %s call not found" % (short(f), what))
                for n in nodes:
                    cds = [(c, cn) for c, cn, blk in (_cdep_conds(f, n) or []) if c not in ("loop", "trace")]
                    ok = not cds
                    run.instance(r_publish, "%s: %s runs unconditionally on every update" % (short(f), what), (f["file"], n["l"]), ok=ok)
                    for c, cn in cds:
                        run.violation(r_publish, "vptr_vector::publish_vptrs|%s-conditional" % what, "%s is skipped depending on `%s`: stale hash parameters / v-table pointers of an earlier update survive" % (what, astq.text(cn) if cn else "?"), (f["file"], n["l"]))
            # every entry - of the v-table pointer vector and of the table of addresses of an indirect policy - is rewritten by
            # every update: with a hash, an index changes owner whenever the hash parameters change
            istores = [n for n in astq.walk(f["body"]) if (n.get("k") == "BinaryOperator" or (n.get("k") == "CXXOperatorCallExpr" and n.get("oop") == "=")) and n.get("op", "=") == "=" and any(
                (astq.refname(x) or "").endswith("::indirect_vptrs") for x in astq.walk((n["c"][0] if n.get("k") == "BinaryOperator" else n["c"][1])))]
            for what, nodes in (("the v-table pointer of an id", stores), ("the address entry of an id (indirect policy)", istores)):
                for n in nodes:
                    cds = [(c, cn) for c, cn, blk in (_cdep_conds(f, n) or []) if c not in ("loop", "trace")]
                    run.instance(r_publish, "%s: %s is written by every update, whatever the entry held" % (short(f), what), (f["file"], n["l"]), ok=not cds)
                    for c, cn in cds:
                        run.violation(r_publish, "vptr_vector::publish_vptrs|conditional-store", "%s is only written depending on `%s`: an entry whose index changed owner keeps the previous update's value" % (what, astq.text(cn)[:80] if cn else "?"), (f["file"], n["l"]))
            # order: hash_initialize before resize before the stores; hashed index
            if hi and rs and stores:
                oko = hi[0]["l"] <= rs[0]["l"] <= min(s["l"] for s in stores)
                run.instance(r_publish, "%s: hash_initialize, then resize, then the indexed stores" % short(f), (f["file"], f["line"]), ok=oko)
                if not oko:
                    run.violation(r_publish, "vptr_vector::publish_vptrs|order", "hash parameters are not computed before the vector is sized and filled", (f["file"], f["line"]))



# ---------------------------------------------------------------------------
# (8) registration catalogs: static_list case tables, pairing, idempotence

def _canon(n, roles):
    """text of an expression with start-of-function locals replaced by role names"""
    n = astq.strip(n)
    if n is None:
        return "?"
    k = n.get("k")
    if k == "DeclRefExpr":
        return roles.get(n["ref"]["did"], n["ref"]["name"].split("::")[-1])
    if k == "CXXThisExpr":
        return "this"
    if k == "MemberExpr":
        c = n.get("c") or []
        base = _canon(c[0], roles) if c else "this"
        return base + ("->" if n.get("arrow") else ".") + n["member"]
    if k == "UnaryOperator":
        return n.get("op") + _canon(n["c"][0], roles)
    if k == "CXXNullPtrLiteralExpr" or (k == "IntegerLiteral" and n.get("v") == 0) or k == "GNUNullExpr":
        return "null"
    if k == "BinaryOperator":
        return "(%s %s %s)" % (_canon(n["c"][0], roles), n.get("op"), _canon(n["c"][1], roles))
    return astq.text(n)


def _list_cases(f, decide_text, cases):
    """per case: set of (lhs, rhs) canonical assignments on the path"""
    roles = {}
    inits = {"node.prev_ptr": "PREV", "node.next_ptr": "NEXT", "this->first->prev_ptr": "LAST"}
    for s0 in (f["body"].get("c") or []):
        if s0.get("k") == "DeclStmt":
            for d in s0["decls"]:
                if d.get("init") is not None:
                    t = _canon(d["init"], roles)
                    if t in inits:
                        roles[d["did"]] = inits[t]
    # locals declared deeper (push_back's `last`)
    for n in astq.walk(f["body"]):
        if n.get("k") == "DeclStmt":
            for d in n["decls"]:
                if d.get("init") is not None and d["did"] not in roles:
                    t = _canon(d["init"], roles)
                    if t in inits:
                        roles[d["did"]] = inits[t]
    out = {}
    for case in cases:
        def decide(c, case=case):
            return decide_text(_canon(c, roles), case)

        def want(n):
            return n.get("k") == "BinaryOperator" and n.get("op") == "="
        ps = astq.enum_paths(f["body"], decide, want)
        if len(ps) != 1:
            out[case] = None
            continue
        out[case] = {( _canon(n["c"][0], roles), _canon(n["c"][1], roles)) for k, n in ps[0]["events"]}
    return out


def list_rules(run, r_link, r_reset, r_pair, r_idem, ast):
    # ---- remove / push_back: abstract interpretation over list-shape cases
    from . import liststate
    kept = {}       # list type -> {op: {case: counters}}: an element count kept next to the links must follow every operation
    for what, pattern, cases in (("remove", r"static_list<.*>::remove$", liststate.remove_cases()), ("push_back", r"static_list<.*>::push_back$", liststate.push_cases())):
        fs = _fn(ast, pattern)
        if not fs:
            raise common.AnalysisBroken("static_list<T>::%s not instantiated" % what)
        for f in fs:
            for case, ok, info in liststate.analyse(f, cases):
                if ok is not None:
                    kept.setdefault(re.sub(r"::\w+$", "", f["name"]), {}).setdefault(what, {})[case.name] = (getattr(case, "counters", {}), f)
                if ok is None:
                    run.broken.append("%s, case '%s': not classifiable (%s)" % (short(f), case.name, info))
                    continue
                link = [d for d in info if not d.startswith("N.")]
                reset = [d for d in info if d.startswith("N.")]
                verb = "removing the" if what == "remove" else "appending to a list with"
                if getattr(case, "absent", False):
                    verb = "unregistering a"
                run.instance(r_link, "%s: %s %s leaves the list linked as the invariant requires" % (short(f), verb, case.name), (f["file"], f["line"]), ok=not link)
                if link:
                    run.violation(r_link, "static_list::%s|%s" % (what, case.name), "%s %s: %s" % (verb, case.name, "; ".join(link)), (f["file"], f["line"]))
                if what == "remove":
                    run.instance(r_reset, "%s: removing the %s resets the node's own links (it can be registered again)" % (short(f), case.name), (f["file"], f["line"]), ok=not reset)
                    if reset:
                        run.violation(r_reset, "static_list::remove|reset|%s" % case.name, "after removing the %s: %s" % (case.name, "; ".join(reset)), (f["file"], f["line"]))
                elif reset:
                    run.violation(r_link, "static_list::push_back|node|%s" % case.name, "appending to a list with %s: %s" % (case.name, "; ".join(reset)), (f["file"], f["line"]))
    for lst, ops in kept.items():
        fields = {c for op in ops.values() for cs, _ in op.values() for c in cs}
        for c in sorted(fields):
            for what, want0 in (("push_back", 1), ("remove", -1)):
                for cname, (cs, f) in sorted(ops.get(what, {}).items()):
                    want = 0 if cname.startswith("node not in the") else want0
                    okc = cs.get(c, 0) == want if want == 0 else cs.get(c) == want
                    run.instance(r_link, "%s: the element count `%s` follows %s (%s)" % (short(f), c, what, cname), (f["file"], f["line"]), ok=okc)
                    if not okc:
                        run.violation(r_link, "static_list::%s|count|%s" % (what, cname), "the list keeps an element count `%s`; %s changes it by %s instead of %+d when %s: size() no longer reports the number of linked items" % (
                            c, what, cs.get(c, 0), want, ("removing the " if what == "remove" else "appending to a list with ") + cname), (f["file"], f["line"]))
    # ---- clear
    for f in _fn(ast, r"static_list<.*>::clear$"):
        loops = [n for n in astq.walk(f["body"]) if n.get("k") == "WhileStmt"]
        ok = False
        if len(loops) == 1:
            asg = [n for n in astq.walk(loops[0]["body"]) if n.get("k") == "BinaryOperator" and n.get("op") == "="]
            seq = [(_canon(n["c"][0], {}), _canon(n["c"][1], {})) for n in asg]
            decl = [d for n in astq.walk(loops[0]["body"]) if n.get("k") == "DeclStmt" for d in n["decls"]]
            cur = decl[0]["name"] if decl else "cur"
            try:
                i_adv = [i for i, a in enumerate(seq) if a[1] == "%s->next_ptr" % cur][0]
                i_null = [i for i, a in enumerate(seq) if a == ("%s->next_ptr" % cur, "null")][0]
                ok = i_adv < i_null and ("%s->prev_ptr" % cur, "null") in seq
            except IndexError:
                ok = False
            ok = ok and any(_canon(n["c"][0], {}) == "this->first" and _canon(n["c"][1], {}) == "null" for n in astq.walk(f["body"]) if n.get("k") == "BinaryOperator" and n.get("op") == "=")
        run.instance(r_reset, "%s resets every node's links (after reading the successor) and empties the list" % short(f), (f["file"], f["line"]), ok=ok)
        if not ok:
            run.violation(r_reset, "static_list::clear", "clear() does not reset both links of every node after reading its successor and set first to null", (f["file"], f["line"]))
    # ---- pairing of registration / deregistration
    regs = {}
    for f in ast.funcs:
        if not f.get("body"):
            continue
        for n in astq.walk(f["body"]):
            if n.get("k") == "CXXMemberCallExpr" and re.search(r"static_list<.*>::(push_back|remove)$", n.get("callee") or ""):
                T = re.search(r"static_list<(.*)>::(push_back|remove)$", n["callee"])
                lst = [x["member"] if x.get("k") == "MemberExpr" else x["ref"]["name"].split("::")[-1] for x in astq.walk(n["c"][0])
                       if (x.get("k") == "MemberExpr" and x["member"] not in ("push_back", "remove")) or x.get("k") == "DeclRefExpr"]
                arg = _canon(n["c"][1], {})
                regs.setdefault(T.group(1).split("::")[-1], []).append({"op": T.group(2), "fn": f, "list": lst[0] if lst else "?", "arg": arg, "node": n})
    want_pairs = {"class_info": ("class_declaration_aux", "classes"), "method_info": ("method", "methods"), "definition_info": ("add_function", "specs")}
    for T, (owner, lname) in want_pairs.items():
        rs = regs.get(T, [])
        pushes = [r for r in rs if r["op"] == "push_back" and r["fn"].get("kind") == "CXXConstructor"]
        removes = [r for r in rs if r["op"] == "remove" and r["fn"].get("kind") == "CXXDestructor"]
        okp = bool(pushes) and bool(removes) and all(r["list"] == lname for r in pushes + removes) and all(r["arg"] in ("*this", "info") for r in pushes + removes)
        run.instance(r_pair, "%s: registered in a constructor (%d site(s)) and unregistered from the same catalog `%s` in the destructor (%d site(s))" % (T, len(pushes), lname, len(removes)),
                     (removes[0]["fn"]["file"], removes[0]["node"]["l"]) if removes else None, ok=okp)
        if not okp:
            run.violation(r_pair, "static_list|pair|%s" % T, "%s objects: constructor registrations %s, destructor removals %s - every registration needs its removal from the same catalog" % (
                T, [(short(r["fn"])[:50], r["list"]) for r in pushes][:3], [(short(r["fn"])[:50], r["list"]) for r in removes][:3]), None)
        for r in removes:
            f = r["fn"]
            if "cfg" not in f:
                continue
            bad = []
            for cls, cn, blk in _cdep_conds(f, r["node"]) or []:
                if cls in ("loop", "trace"):
                    continue
                if T == "definition_info" and cn is not None and _canon(cn, {}) in ("this->method", "(this->method != null)"):
                    continue
                bad.append(astq.text(cn) if cn else "?")
            run.instance(r_pair, "%s: the removal in %s is unconditional" % (T, short(f)[:70]), (f["file"], r["node"]["l"]), ok=not bad)
            for t in bad:
                run.violation(r_pair, "static_list|conditional-remove|%s" % T, "the destructor's removal from `%s` is skipped depending on `%s`" % (lname, t), (f["file"], r["node"]["l"]))
        # ... and the registration in the constructor is unconditional as well (a definition is the exception: add_function's
        # idempotence guard, judged by the idem rule): an object that decides not to enter the catalog because "one like it is
        # already there" leaves the catalog without it when the other one goes away
        if T != "definition_info":
            for r in pushes:
                f = r["fn"]
                if "cfg" not in f:
                    continue
                bad = [astq.text(cn) if cn else "?" for cls, cn, blk in (_cdep_conds(f, r["node"]) or []) if cls not in ("trace",) and not (cls == "loop" and cn is None)]
                # being inside a loop at all already makes the registration depend on the catalog's contents
                run.instance(r_pair, "%s: the registration in %s is unconditional" % (T, short(f)[:70]), (f["file"], r["node"]["l"]), ok=not bad)
                for t in bad[:1]:
                    run.violation(r_pair, "static_list|conditional-registration|%s" % T, "the constructor's registration in `%s` depends on `%s`: a live registration object may be missing from the catalog" % (lname, t[:80]), (f["file"], r["node"]["l"]))
    idem_rules(run, r_idem, ast)


def idem_rules(run, r_idem, ast):
    """add_function: a definition that is not yet registered is always pushed into its method's catalog (nothing else decides),
    one that is already registered is not pushed again."""
    for f in [f for f in ast.funcs if f.get("body") and re.search(r"add_function<.*>::add_function$", f["name"])]:
        pb = [n for n in astq.walk(f["body"]) if n.get("k") == "CXXMemberCallExpr" and re.search(r"static_list<.*>::push_back$", n.get("callee") or "")]
        if len(pb) != 1:
            run.broken.append("%s: expected one push_back, found %d" % (short(f), len(pb)))
            continue
        res = {}
        guard_kind = set()

        def linked_call(c):
            """`info.<m>()` where <m> is a member of the list link that answers 'the node is in a list' from its links"""
            c0 = astq.strip(c)
            if c0 is None or c0.get("k") != "CXXMemberCallExpr" or "static_link::" not in (c0.get("callee") or ""):
                return False
            g = [x for x in ast.funcs if x.get("body") and x["name"] == c0["callee"]]
            if not g:
                return False
            e = _ret_expr(g[0])
            t = _canon(e, {}) if e is not None else ""
            return t in ("(this->prev_ptr != null)", "this->prev_ptr", "(null != this->prev_ptr)", "!(this->prev_ptr == null)")
        for registered in (True, False):
            def decide(c, registered=registered):
                t = _canon(c, {})
                if t in ("info.method", "(info.method != null)"):
                    guard_kind.add("flag")
                    return registered
                if t in ("!info.method", "(info.method == null)"):
                    guard_kind.add("flag")
                    return not registered
                c0 = astq.strip(c)
                if linked_call(c0):
                    guard_kind.add("links")
                    return registered
                if c0 is not None and c0.get("k") == "UnaryOperator" and c0.get("op") == "!" and linked_call(c0["c"][0]):
                    guard_kind.add("links")
                    return not registered
                return None

            def field_store(n):
                """assignment to a field of the registration record (`info.<field> = ...`) other than `method`"""
                if n.get("k") != "BinaryOperator" or n.get("op") != "=":
                    return None
                t = _canon(n["c"][0], {})
                if isinstance(t, str) and t.startswith("info.") and t != "info.method":
                    return t
                return None

            def want(n):
                return n is pb[0] or (n.get("k") == "BinaryOperator" and n.get("op") == "=" and _canon(n["c"][0], {}) == "info.method") or field_store(n) is not None
            ps = astq.enum_paths(f["body"], decide, want, loops="unroll1")
            res[registered] = [[("push" if n is pb[0] else "set-method" if field_store(n) is None else "set:" + field_store(n)) for k, n in p["events"]] for p in ps]
        core = lambda p: [e for e in p if not e.startswith("set:")]
        ok = all("push" not in p for p in res[True]) and all(core(p) == ["set-method", "push"] for p in res[False]) and res[False]
        run.instance(r_idem, "%s: a definition already registered is not pushed again; otherwise method is set, then pushed" % short(f)[:80], (f["file"], pb[0]["l"]), ok=bool(ok))
        if not ok:
            run.violation(r_idem, "method::add_function|idempotence", "events when already registered: %s, when not: %s" % (res[True], res[False]), (f["file"], pb[0]["l"]))
        # "already registered" must mean "is in the catalog now": a private flag that registration sets and that unregistration (the
        # record's destructor, static_list::remove, static_list::clear) never resets goes stale - after the catalog is cleared every
        # later registration of the function is refused
        if "flag" in guard_kind:
            resets = [n for g in ast.funcs if g.get("body") and re.search(r"definition_info::~definition_info|static_list<.*>::(clear|remove)$", g["name"]) for n in astq.walk(g["body"])
                      if n.get("k") == "BinaryOperator" and n.get("op") == "=" and (astq.strip(n["c"][0]) or {}).get("k") == "MemberExpr" and astq.strip(n["c"][0]).get("member") == "method"
                      and _canon(n["c"][1], {}) == "null"]
            okf = bool(resets)
            run.instance(r_idem, "%s: the 'already registered' test reflects membership in the catalog (reset on unregistration, or read from the links)" % short(f)[:80], (f["file"], pb[0]["l"]), ok=okf)
            if not okf:
                run.violation(r_idem, "method::add_function|stale-flag", "add_function refuses a function whose record has `method` set, but nothing resets that field when the record is unregistered (clear / remove / destructor): "
                              "after the definitions catalog was cleared the definition cannot be registered again", (f["file"], pb[0]["l"]))
        elif "links" in guard_kind:
            run.instance(r_idem, "%s: the 'already registered' test reflects membership in the catalog (reset on unregistration, or read from the links)" % short(f)[:80], (f["file"], pb[0]["l"]), ok=True)
        # registering a function again changes nothing: on the 'already registered' paths no field of the record is written (a second
        # registration without a next pointer would otherwise erase the one update stores through)
        touched = sorted({e for p in res[True] for e in p if e.startswith("set:")})
        run.instance(r_idem, "%s: the record of a definition already registered is left untouched" % short(f)[:80], (f["file"], pb[0]["l"]), ok=not touched)
        if touched:
            run.violation(r_idem, "method::add_function|record-rewritten", "when the function is already registered its record is still written (%s): a later registration changes what the first one established (e.g. erases the next pointer)" % ", ".join(t[4:] for t in touched), (f["file"], pb[0]["l"]))


# ---------------------------------------------------------------------------
# (9) v-table bias and dispatch-data sizing

def _sym_bias(n):
    k = n.get("k")
    if k == "MemberExpr":
        return n.get("member")
    if k == "CXXOperatorCallExpr" and n.get("oop") == "[]":
        base = [x["member"] for x in astq.walk(n["c"][1]) if x.get("k") == "MemberExpr"]
        return "%s[%s]" % (base[0] if base else "?", astq.text(n["c"][2]))
    if k == "CXXMemberCallExpr" and (n.get("callee") or "").endswith("::size"):
        mem = [x["member"] for x in astq.walk(n["c"][0]) if x.get("k") == "MemberExpr" and x["member"] != "size"]
        return "size(%s)" % (mem[0] if mem else "?")
    if k == "DeclRefExpr":
        return n["ref"]["name"].split("::")[-1]
    return None


def bias_rules(run, rule, ast):
    # writer of v-table entries: cls->vtbl[m.slots[dim] - cls->first_slot]
    for f in by_name(ast, "build_dispatch_tables"):
        subs = [n for n in astq.walk(f["body"]) if n.get("k") == "CXXOperatorCallExpr" and n.get("oop") == "[]" and any(
            x.get("k") == "MemberExpr" and x.get("member") == "vtbl" for x in astq.walk(n["c"][1])) and not any(x.get("k") == "MemberExpr" and x.get("member") == "vtbl" for x in astq.walk(n["c"][2]))]
        if len(subs) != 1:
            run.broken.append("%s: expected one subscript of a class's vtbl, found %d" % (short(f), len(subs)))
            continue
        a = astq.affine(subs[0]["c"][2], {}, _sym_bias)
        slot = [k for k in (a or {}) if str(k).startswith("slots[")]
        ok = a is not None and len(slot) == 1 and a == {slot[0]: 1, "first_slot": -1}
        run.instance(rule, "%s: v-table entry of (method, parameter) written at index slot - first_slot (%s)" % (short(f), astq.aff_show(a)), (f["file"], subs[0]["l"]), ok=ok)
        if not ok:
            run.violation(rule, "compiler::build_dispatch_tables|entry-index", "the v-table entry is written at index %s; the installed pointer is biased by first_slot, so it must be slot - first_slot" % astq.aff_show(a), (f["file"], subs[0]["l"]))
    # installer of the biased pointer
    for f in by_name(ast, "install_gv"):
        asg = [n for n in astq.walk(f["body"]) if n.get("k") == "BinaryOperator" and n.get("op") == "=" and astq.strip(n["c"][0]).get("k") == "UnaryOperator" and
               astq.strip(n["c"][0]).get("op") == "*" and any(x.get("k") == "MemberExpr" and x.get("member") == "static_vptr" for x in astq.walk(n["c"][0]))]
        # a store that copies the pointer already installed for the class (`*record.static_vptr = *cls->static_vptr`: the other
        # registration records of a class receive the same pointer) is a propagation, not an installation
        def is_copy(n):
            r = astq.strip(n["c"][1])
            return r is not None and r.get("k") == "UnaryOperator" and r.get("op") == "*" and any(x.get("k") == "MemberExpr" and x.get("member") == "static_vptr" for x in astq.walk(r))
        asg = [n for n in asg if not is_copy(n)]
        forms = [astq.affine(n["c"][1], {}, _sym_bias) for n in asg]
        main = [a for a in forms if a is not None and "first_slot" in a]
        def cursor_minus_bias(a):
            vs = [k for k in a if str(k).startswith("v:")]
            return len(vs) == 1 and a == {vs[0]: 1, "first_slot": -1}

        def cursor_only(a):
            vs = [k for k in a if str(k).startswith("v:")]
            return len(vs) == 1 and a == {vs[0]: 1}
        ok = len(main) == 1 and cursor_minus_bias(main[0]) and all(a is not None and (cursor_only(a) or cursor_minus_bias(a)) for a in forms)
        run.instance(rule, "%s: static v-table pointer = table start - first_slot" % short(f), (f["file"], asg[0]["l"] if asg else f["line"]), ok=ok)
        if not ok:
            run.violation(rule, "compiler::install_gv|vptr-bias", "the class's static v-table pointer is set to %s (expected the table start minus first_slot)" % [astq.aff_show(a) for a in forms], (f["file"], asg[0]["l"] if asg else f["line"]))
    # sizing of the v-table in assign_slots (lattice) : used_slots.size() - first_slot
    for f in by_name(ast, "assign_slots"):
        rs = [n for n in astq.walk(f["body"]) if n.get("k") == "CXXMemberCallExpr" and (n.get("callee") or "").endswith("::resize") and any(x.get("k") == "MemberExpr" and x.get("member") == "vtbl" for x in astq.walk(n["c"][0]))]
        ok = len(rs) == 1 and astq.affine(rs[0]["c"][1], {}, _sym_bias) == {"size(used_slots)": 1, "first_slot": -1}
        run.instance(rule, "%s: lattice v-table sized used_slots.size() - first_slot" % short(f), (f["file"], rs[0]["l"] if rs else f["line"]), ok=ok)
        if not ok:
            run.violation(rule, "compiler::assign_slots|vtbl-size", "a lattice class's v-table is sized %s (expected used_slots.size() - first_slot)" % ([astq.aff_show(astq.affine(r["c"][1], {}, _sym_bias)) for r in rs]), (f["file"], rs[0]["l"] if rs else f["line"]))
    # decoder
    for f in [f for f in ast.funcs if f.get("body") and "decode_dispatch_data<" in f["name"]]:
        asg = [n for n in astq.walk(f["body"]) if n.get("k") == "BinaryOperator" and n.get("op") == "=" and astq.strip(n["c"][0]).get("k") == "UnaryOperator" and
               any(x.get("k") == "MemberExpr" and x.get("member") == "static_vptr" for x in astq.walk(n["c"][0]))]
        forms = [astq.affine(n["c"][1], {}, _sym_bias) for n in asg]
        ok = len(forms) == 1 and forms[0] is not None and len(forms[0]) == 2 and sorted(forms[0].values()) == [-1, 1] and all(str(k).startswith("v:") or k == "first_slot" for k in forms[0])
        run.instance(rule, "%s: decoded static v-table pointer = table start - first slot" % short(f)[:70], (f["file"], asg[0]["l"] if asg else f["line"]), ok=ok)
        if not ok:
            run.violation(rule, "decode_dispatch_data|vptr-bias", "the decoder sets the static v-table pointer to %s" % [astq.aff_show(a) for a in forms], (f["file"], asg[0]["l"] if asg else f["line"]))


def size_rules(run, rule, ast):
    for f in by_name(ast, "install_gv"):
        decls = {d["did"]: d for n in astq.walk(f["body"]) if n.get("k") == "DeclStmt" for d in n["decls"]}
        rs = [n for n in astq.walk(f["body"]) if n.get("k") == "CXXMemberCallExpr" and (n.get("callee") or "").endswith("::resize") and any((astq.refname(x) or "").endswith("::dispatch_data") for x in astq.walk(n["c"][0]))]
        if len(rs) != 1:
            run.broken.append("%s: dispatch_data.resize not found" % short(f))
            continue
        sv = astq.strip(rs[0]["c"][1])
        terms = []
        if sv.get("k") == "DeclRefExpr":
            did = sv["ref"]["did"]
            # contributions: initialiser + later assignments, each a std::accumulate with a lambda `sum + X.size()`
            srcs = [decls[did].get("init")] + [n["c"][1] for n in astq.walk(f["body"]) if n.get("k") == "BinaryOperator" and n.get("op") == "=" and astq.strip(n["c"][0]).get("k") == "DeclRefExpr" and astq.strip(n["c"][0])["ref"]["did"] == did]
            for s0 in srcs:
                for c in astq.walk(s0):
                    if c.get("k") == "CallExpr" and (c.get("callee") or "").startswith("std::accumulate<"):
                        a = c["c"][1:]
                        rng = [x["member"] for x in astq.walk(a[0]) if x.get("k") == "MemberExpr" and x["member"] not in ("begin", "end")]
                        lam = [x for x in astq.walk(a[3]) if x.get("k") == "LambdaExpr"]
                        bodies = lam[0]["lambda"].get("specializations") or [lam[0]["lambda"]["body"]]
                        for r in astq.walk(bodies[0]):
                            if r.get("k") == "ReturnStmt":
                                e = astq.affine(r["c"][0], {}, _sym_bias)
                                if e is not None and e.get("v:sum") == 1:
                                    terms.append((rng[0] if rng else "?", {k: v for k, v in e.items() if k != "v:sum"}))
        exp = [("methods", {"size(dispatch_table)": 1}), ("classes", {"size(vtbl)": 1})]
        ok = sorted(terms, key=str) == sorted(exp, key=str)
        run.instance(rule, "%s: dispatch_data sized sum(dispatch_table.size()) + sum(vtbl.size())" % short(f), (f["file"], rs[0]["l"]), ok=ok, detail={"terms": [(a, astq.aff_show(b)) for a, b in terms]})
        if not ok:
            run.violation(rule, "compiler::install_gv|dispatch-data-size", "dispatch_data is resized to the sum of %s; the writes need one cell per dispatch-table entry and one per v-table entry" % [(a, astq.aff_show(b)) for a, b in terms], (f["file"], rs[0]["l"]))
        # writes: one cell per v-table entry on every path of the entry loop
        el = [n for n in astq.walk(f["body"]) if n.get("k") == "CXXForRangeStmt" and any(x.get("k") == "MemberExpr" and x.get("member") == "vtbl" for x in astq.walk(astq.strip(n["range"])))]
        if len(el) != 1:
            run.broken.append("%s: loop over a class's v-table entries not found" % short(f))
            continue

        def is_cell_write(n):
            if n.get("k") != "BinaryOperator" or n.get("op") != "=":
                return False
            l = astq.strip(n["c"][0])
            return l.get("k") == "UnaryOperator" and l.get("op") == "*" and any(x.get("k") == "UnaryOperator" and x.get("op") == "++" and astq.strip(x["c"][0]).get("k") == "DeclRefExpr"
                                                                                and astq.strip(x["c"][0])["ref"].get("storage") == "local" for x in astq.walk(l))
        ps = astq.enum_paths(el[0]["body"], lambda c: None, is_cell_write)
        counts = sorted({len(p["events"]) for p in ps})
        ok = counts == [1]
        run.instance(rule, "%s: every path through the entry loop writes exactly one cell and advances the cursor by one" % short(f), (f["file"], el[0]["l"]), ok=ok)
        if not ok:
            run.violation(rule, "compiler::install_gv|cells-per-entry", "paths through the v-table entry loop write %s cells (declared: 1 per entry)" % counts, (f["file"], el[0]["l"]))


# ---------------------------------------------------------------------------
# (10) lattice slot allocation: the reservations that keep slots collision-free are unconditional

def reserve_rules(run, rule, ast):
    fs = by_name(ast, "assign_lattice_slots")
    if not fs:
        raise common.AnalysisBroken("assign_lattice_slots not instantiated")
    for f in fs:
        byid, parent = astq.index_nodes(f)
        cls_param = f["params"][0]["did"]
        calls = [n for n in astq.walk(f["body"]) if n.get("k") == "CallExpr" and re.search(r"detail::(merge_into|set_bit)$", n.get("callee") or "")]
        # the reservations proper: merges into reserved_slots / used_slots of other classes, and the two set_bit on the chosen slot
        roles = []
        for c in calls:
            tgt = c["c"][2] if c["callee"].endswith("merge_into") else c["c"][1]
            mem = [x["member"] for x in astq.walk(tgt) if x.get("k") == "MemberExpr"]
            owner = "self" if any(x.get("k") == "DeclRefExpr" and x["ref"]["did"] == cls_param for x in astq.walk(tgt)) else "other"
            if c["callee"].endswith("set_bit"):
                roles.append(("mark chosen slot in own %s" % (mem[0] if mem else "?"), c))
            elif owner == "other" and mem and mem[0] == "reserved_slots":
                roles.append(("reserve in a base", c))
            elif owner == "other" and mem and mem[0] == "used_slots":
                roles.append(("mark used in a covariant class", c))
        if len([r for r in roles if r[0] == "reserve in a base"]) < 2 or len(roles) < 5:
            run.broken.append("%s: reservation calls not recognised (%s)" % (short(f), [r[0] for r in roles]))
            continue
        # which sets the reservations range over: every (transitive) base, every covariant class
        for what, c in roles:
            loops = _enclosing(parent, c, ("CXXForRangeStmt",))
            if what == "reserve in a base":
                rng = astq.strip(loops[0]["range"]) if loops else None
                mem = [x["member"] for x in astq.walk(rng) if x.get("k") == "MemberExpr"] if rng else []
                okr = bool(mem) and mem[0] == "transitive_bases"
                run.instance(rule, "%s: a slot taken is reserved in ALL (transitive) bases" % short(f), (f["file"], c["l"]), ok=okr)
                if not okr:
                    run.violation(rule, "compiler::assign_lattice_slots|reservation-set", "the reservation loop ranges over `%s`, not over transitive_bases: an indirect base keeps the slot free and can hand it to another method" % (mem[0] if mem else "?"), (f["file"], c["l"]))
            if what == "mark used in a covariant class":
                rng = astq.strip(loops[0]["range"]) if loops else None
                mem = [x["member"] for x in astq.walk(rng) if x.get("k") == "MemberExpr"] if rng else []
                okr = bool(mem) and mem[0] == "covariant_classes"
                run.instance(rule, "%s: a slot taken is marked used in ALL covariant classes" % short(f), (f["file"], c["l"]), ok=okr)
                if not okr:
                    run.violation(rule, "compiler::assign_lattice_slots|covariant-set", "the propagation loop ranges over `%s`, not over covariant_classes" % (mem[0] if mem else "?"), (f["file"], c["l"]))
        cfg = astq.Cfg(f)
        for what, c in roles:
            b = cfg.block_of.get(c["id"])
            bad = []
            for x in _transitive_cdeps(cfg, b):
                blk = cfg.blocks[x]
                cn = byid.get(blk.get("cond"))
                cls = _classify_cond(cn, blk)
                if cls in ("loop", "trace") or cn is None or _is_assert(cfg, x):
                    continue
                c0 = astq.strip(cn)
                mems = {y.get("member") for y in astq.walk(cn) if y.get("k") == "MemberExpr"}
                if {"mark", "class_mark"} <= mems and any(y.get("k") == "DeclRefExpr" and y["ref"]["did"] == cls_param for y in astq.walk(c0)) and not _enclosing(parent, cn, ("CXXForRangeStmt", "ForStmt")):
                    continue                                   # visited check of the class itself at function entry
                cf = _cond_toward(cfg, x, b, cn) or astq.canon(cn)
                if cf[0] == "not" and cf[1][0] == "empty" and cf[1][1].endswith(".used_by_vp") and mems <= {"used_by_vp", "empty", "size"} and any(y.get("k") == "DeclRefExpr" and y["ref"]["did"] == cls_param for y in astq.walk(c0)):
                    continue                                   # class has virtual parameters
                if cf[0] == "not" and cf[1][0] == "eq" and any(y.get("k") == "DeclRefExpr" and y["ref"]["did"] == cls_param for y in astq.walk(c0)):
                    loops = _enclosing(parent, c, ("CXXForRangeStmt",))
                    if any(any(y.get("k") == "DeclRefExpr" and y["ref"]["did"] == lp["var"]["did"] for y in astq.walk(c0)) for lp in loops):
                        continue                               # the class itself among its covariant classes (the step runs for all the others)
                if _enclosing(parent, cn, ("ForStmt",)) and not any(y.get("k") == "MemberExpr" for y in astq.walk(cn) if y.get("member") in ("mark", "direct_bases", "direct_derived", "transitive_bases", "covariant_classes")):
                    continue                                   # search for the first free slot (a plain for loop over a local bit set)
                if c0.get("k") == "CXXOperatorCallExpr" and c0.get("oop") == "[]" or (c0.get("k") == "UnaryOperator" and any(y.get("k") == "CXXOperatorCallExpr" and y.get("oop") == "[]" for y in astq.walk(c0)) and _enclosing(parent, cn, ("ForStmt",))):
                    continue
                bad.append(astq.text(cn))
            run.instance(rule, "%s: '%s' is not skipped by any extra condition" % (short(f), what), (f["file"], c["l"]), ok=not bad)
            for t in bad:
                run.violation(rule, "compiler::assign_lattice_slots|conditional-reservation", "the step '%s' is skipped depending on `%s`: a slot taken in one class is no longer reserved / propagated in every base and covariant class" % (what, t), (f["file"], c["l"]))


# ---------------------------------------------------------------------------
# (11) applicability: which definitions apply to a class at a virtual position

def applicable_rules(run, rule, ast):
    """build_dispatch_tables: a definition's bit is set for a class iff the class is in the covariant set of the
    definition's parameter class at that position; the classes grouped are the covariant set of the method's
    parameter class. calculate_covariant_classes: covariant(c) = {c} U covariant(d) for every direct derived d."""
    for f in by_name(ast, "build_dispatch_tables"):
        byid, parent = astq.index_nodes(f)
        sets = [n for n in astq.walk(f["body"]) if (n.get("k") == "BinaryOperator" and n.get("op") == "=" or (n.get("k") == "CXXOperatorCallExpr" and n.get("oop") == "=")) and
                any(x.get("k") == "DeclRefExpr" and x["ref"].get("storage") == "local" and "dynamic_bitset" in (x.get("t") or "") for x in astq.walk(n["c"][0] if n.get("k") == "BinaryOperator" else n["c"][1]))
                and any(x.get("k") == "CXXOperatorCallExpr" and x.get("oop") == "[]" for x in astq.walk(n["c"][0] if n.get("k") == "BinaryOperator" else n["c"][1]))]
        if len(sets) != 1:
            run.broken.append("%s: expected one assignment of a mask bit, found %d" % (short(f), len(sets)))
            continue
        st = sets[0]
        ifs = _enclosing(parent, st, ("IfStmt",))
        loops = _enclosing(parent, st, ("CXXForRangeStmt",))
        ok = False
        why = "the mask bit is not guarded by a single membership test"
        recognised = False
        if ifs and len(loops) >= 3:
            spec_loop = loops[0]
            cls_loop = loops[1]
            vp_loop = loops[2]
            c = astq.strip(ifs[0]["cond"])
            if c.get("k") == "CXXMemberCallExpr" and (c.get("callee") or "").endswith("::count"):
                # <spec>.vp[dim]->covariant_classes.count(<class loop var>)
                recognised = True
                owner_ok = any(x.get("k") == "MemberExpr" and x.get("member") == "covariant_classes" for x in astq.walk(c["c"][0])) and any(
                    x.get("k") == "DeclRefExpr" and x["ref"]["did"] == spec_loop["var"]["did"] for x in astq.walk(c["c"][0])) and any(x.get("k") == "MemberExpr" and x.get("member") == "vp" for x in astq.walk(c["c"][0]))
                elem = astq.strip(c["c"][1])
                elem_ok = elem.get("k") == "DeclRefExpr" and elem["ref"]["did"] == cls_loop["var"]["did"]
                rng = astq.strip(cls_loop["range"])
                rng_ok = any(x.get("k") == "MemberExpr" and x.get("member") == "covariant_classes" for x in astq.walk(rng)) and any(x.get("k") == "DeclRefExpr" and x["ref"]["did"] == vp_loop["var"]["did"] for x in astq.walk(rng))
                ok = owner_ok and elem_ok and rng_ok and len(ifs) == 1
                why = "owner set ok %s, element ok %s, classes iterated ok %s" % (owner_ok, elem_ok, rng_ok)
            # <spec>.vp[dim]->covariant_classes.find(<class loop var>) != ....end()
            if c.get("k") == "CXXOperatorCallExpr" and c.get("oop") in ("!=",):
                recognised = True
                l, r = astq.strip(c["c"][1]), astq.strip(c["c"][2])
                find = l if (l.get("callee") or "").endswith("::find") else r
                end = r if find is l else l
                if (find.get("callee") or "").endswith("::find") and (end.get("callee") or "").endswith("::end"):
                    owner_ok = all(any(x.get("k") == "MemberExpr" and x.get("member") == "covariant_classes" for x in astq.walk(z["c"][0])) and
                                   any(x.get("k") == "DeclRefExpr" and x["ref"]["did"] == spec_loop["var"]["did"] for x in astq.walk(z["c"][0])) and
                                   any(x.get("k") == "MemberExpr" and x.get("member") == "vp" for x in astq.walk(z["c"][0])) for z in (find, end))
                    elem = astq.strip(find["c"][1])
                    elem_ok = elem.get("k") == "DeclRefExpr" and elem["ref"]["did"] == cls_loop["var"]["did"]
                    rng = astq.strip(cls_loop["range"])
                    rng_ok = any(x.get("k") == "MemberExpr" and x.get("member") == "covariant_classes" for x in astq.walk(rng)) and any(
                        x.get("k") == "DeclRefExpr" and x["ref"]["did"] == vp_loop["var"]["did"] for x in astq.walk(rng))
                    ok = owner_ok and elem_ok and rng_ok and len(ifs) == 1
                    why = "owner set %s, element %s, classes iterated %s" % ("ok" if owner_ok else "is not <definition>.vp[dim]->covariant_classes", "ok" if elem_ok else "is not the class being grouped",
                                                                              "ok" if rng_ok else "are not the covariant classes of the method's parameter class")
        def members_of_cond(c):
            mems = set()
            decls = {d["did"]: d for n in astq.walk(f["body"]) if n.get("k") == "DeclStmt" for d in n["decls"]}
            for x in astq.walk(c):
                if x.get("k") == "MemberExpr":
                    mems.add(x.get("member"))
                if x.get("k") == "DeclRefExpr" and x["ref"]["did"] in decls and decls[x["ref"]["did"]].get("init") is not None:
                    for y in astq.walk(decls[x["ref"]["did"]]["init"]):
                        if y.get("k") == "MemberExpr":
                            mems.add(y.get("member"))
            return mems
        if not recognised and not (members_of_cond(ifs[0]["cond"] if ifs else st) & {"transitive_bases", "direct_bases", "direct_derived"}):
            run.broken.append("%s: the condition deciding applicability is in a form the rule does not classify" % short(f))
            ok = True
        run.instance(rule, "%s: definition applies to a class iff the class is in the covariant set of the definition's parameter class" % short(f), (f["file"], st["l"]), ok=ok)
        if not ok:
            run.violation(rule, "compiler::build_dispatch_tables|applicability", "applicability of a definition to a class is not decided by membership in the covariant set of its parameter class (%s)" % why, (f["file"], st["l"]))
    for f in by_name(ast, "calculate_covariant_classes"):
        cls_param = f["params"][0]["did"]
        ins = [n for n in astq.walk(f["body"]) if n.get("k") == "CXXMemberCallExpr" and (n.get("callee") or "").endswith("::insert") and
               any(x.get("k") == "MemberExpr" and x.get("member") == "covariant_classes" for x in astq.walk(n["c"][0]))]
        self_ok = any(astq.strip(n["c"][1]).get("k") == "UnaryOperator" and astq.strip(n["c"][1]).get("op") == "&" and astq.strip(astq.strip(n["c"][1])["c"][0]).get("k") == "DeclRefExpr" and
                      astq.strip(astq.strip(n["c"][1])["c"][0])["ref"]["did"] == cls_param for n in ins)
        loops = [n for n in astq.walk(f["body"]) if n.get("k") == "CXXForRangeStmt" and any(x.get("k") == "MemberExpr" and x.get("member") == "direct_derived" for x in astq.walk(astq.strip(n["range"])))]
        union_ok = False
        rec_ok = False
        if len(loops) == 1:
            lv = loops[0]["var"]["did"]
            for n in astq.walk(loops[0]["body"]):
                if n.get("k") == "CallExpr" and (n.get("callee") or "").startswith("std::copy<"):
                    src_ok = all(any(x.get("k") == "DeclRefExpr" and x["ref"]["did"] == lv for x in astq.walk(a)) and any(x.get("k") == "MemberExpr" and x.get("member") == "covariant_classes" for x in astq.walk(a)) for a in n["c"][1:3])
                    dst_ok = any(x.get("k") == "DeclRefExpr" and x["ref"]["did"] == cls_param for x in astq.walk(n["c"][3])) and any(x.get("k") == "MemberExpr" and x.get("member") == "covariant_classes" for x in astq.walk(n["c"][3]))
                    cd = [c for c in (_cdep_conds(f, n) or []) if c[0] not in ("loop", "trace")] if "cfg" in f else []
                    # only the function's own 'already computed' early return may guard it
                    def _own_emptiness(cn):
                        cf = astq.canon(cn)
                        cf = cf[1] if cf[0] == "not" else cf
                        return cf[0] == "empty" and cf[1].endswith("covariant_classes")
                    cd = [c for c in cd if not (c[1] is not None and _own_emptiness(c[1]))]
                    union_ok = src_ok and dst_ok and not cd
                if n.get("k") == "CXXMemberCallExpr" and (n.get("callee") or "").endswith("::calculate_covariant_classes"):
                    rec_ok = True
        ok = self_ok and union_ok and rec_ok
        run.instance(rule, "%s: covariant(c) = {c} U covariant(d) for every direct derived class d (computed first)" % short(f), (f["file"], f["line"]), ok=ok)
        if not ok:
            run.violation(rule, "compiler::calculate_covariant_classes|closure", "covariant set is not {class} united with the covariant sets of all direct derived classes (self %s, union %s, recursion %s)" % (self_ok, union_ok, rec_ok), (f["file"], f["line"]))


# ---------------------------------------------------------------------------
# (12) the dispatch table's geometry: strides, cell order, group numbers, what install_gv puts in the v-tables

def table_rules(run, rule, ast):
    sym = lambda n: (_sym_bias(n) or None)
    for f in by_name(ast, "build_dispatch_tables"):
        # (a) strides: stride_1 = |groups_0|, stride_k = stride_{k-1} * |groups_{k-1}|
        fors = [n for n in astq.walk(f["body"]) if n.get("k") == "ForStmt" and any(x.get("k") == "CXXMemberCallExpr" and (x.get("callee") or "").endswith("::push_back") and
                any(y.get("k") == "MemberExpr" and y.get("member") == "strides" for y in astq.walk(x["c"][0])) for x in astq.walk(n["body"]))]
        ok = False
        why = "stride loop not found"
        if len(fors) == 1:
            lp = fors[0]
            init = lp["init"]["decls"][0] if lp.get("init") and lp["init"].get("k") == "DeclStmt" else None
            lo = astq.affine(init["init"]) if init else None
            dim = init["did"] if init else None
            muls = [n for n in astq.walk(lp["body"]) if n.get("k") == "CompoundAssignOperator" and n.get("op") == "*="]
            pushes = [n for n in astq.walk(lp["body"]) if n.get("k") == "CXXMemberCallExpr" and (n.get("callee") or "").endswith("::push_back")]
            if lo == {1: 1} and len(muls) == 1 and len(pushes) == 1:
                sv = astq.strip(muls[0]["c"][0])
                rhs = astq.strip(muls[0]["c"][1])
                idx = None
                if rhs.get("k") == "CXXMemberCallExpr" and (rhs.get("callee") or "").endswith("::size"):
                    sub = [x for x in astq.walk(rhs["c"][0]) if x.get("k") == "CXXOperatorCallExpr" and x.get("oop") == "[]"]
                    if sub and any(y.get("k") == "DeclRefExpr" and "std::vector<std::map<" in (y.get("t") or "") for y in astq.walk(sub[0]["c"][1])):
                        idx = astq.affine(sub[0]["c"][2], {dim: {"dim": 1}})
                pushed = astq.strip(pushes[0]["c"][1])
                svinit = None
                for n in astq.walk(f["body"]):
                    if n.get("k") == "DeclStmt":
                        for d in n["decls"]:
                            if sv.get("k") == "DeclRefExpr" and d["did"] == sv["ref"]["did"]:
                                svinit = astq.affine(d.get("init")) if d.get("init") is not None else None
                cond = astq.strip(lp.get("cond"))
                hi_ok = cond is not None and cond.get("k") == "BinaryOperator" and cond.get("op") == "<" and any(
                    (x.get("callee") or "").endswith("::arity") for x in astq.walk(cond["c"][1]) if x.get("k") == "CXXMemberCallExpr")
                ok = idx == {"dim": 1, 1: -1} and pushed.get("k") == "DeclRefExpr" and sv.get("k") == "DeclRefExpr" and pushed["ref"]["did"] == sv["ref"]["did"] and svinit == {1: 1} and hi_ok \
                    and muls[0]["l"] <= pushes[0]["l"]
                why = "index %s, initial %s, bound ok %s" % (astq.aff_show(idx), astq.aff_show(svinit), hi_ok)
        if len(fors) != 1:
            run.broken.append("%s: the loop computing the strides was not recognised" % short(f))
            ok = True
        run.instance(rule, "%s: stride of dimension k is the product of the group counts of dimensions 0..k-1" % short(f), (f["file"], fors[0]["l"] if fors else f["line"]), ok=ok)
        if not ok:
            run.violation(rule, "compiler::build_dispatch_tables|strides", "strides are not computed as the running product of the lower dimensions' group counts (%s)" % why, (f["file"], fors[0]["l"] if fors else f["line"]))
        # (b) top-level call of build_dispatch_table: (m, dims - 1, groups.end() - 1, all specs, true)
        calls = [n for n in astq.walk(f["body"]) if n.get("k") == "CXXMemberCallExpr" and (n.get("callee") or "").endswith("::build_dispatch_table")]
        okc = False
        if len(calls) == 1:
            a = calls[0]["c"][1:]
            dimv = astq.affine(a[1], {}, lambda n: "dims" if (n.get("k") == "CXXMemberCallExpr" and (n.get("callee") or "").endswith("::arity")) else None)
            env = {}
            for n in astq.walk(f["body"]):
                if n.get("k") == "DeclStmt":
                    for d in n["decls"]:
                        if d.get("init") is not None and astq.strip(d["init"]).get("k") == "CXXMemberCallExpr" and (astq.strip(d["init"]).get("callee") or "").endswith("::arity"):
                            env[d["did"]] = {"dims": 1}
            dimv = astq.affine(a[1], env, lambda n: "dims" if (n.get("k") == "CXXMemberCallExpr" and (n.get("callee") or "").endswith("::arity")) else None)
            its = [x for x in astq.walk(a[2]) if x.get("k") == "CXXOperatorCallExpr" and x.get("oop") == "-"]
            it = its[0] if its else {}
            it_ok = bool(its) and any((x.get("callee") or "").endswith("::end") for x in astq.walk(it) if x.get("k") == "CXXMemberCallExpr") and astq.affine(it["c"][2]) == {1: 1}
            conc = astq.strip(a[4])
            okc = dimv == {"dims": 1, 1: -1} and it_ok and conc.get("k") == "CXXBoolLiteralExpr" and conc.get("v") is True
        run.instance(rule, "%s: table construction starts at the last dimension with all definitions as candidates" % short(f), (f["file"], calls[0]["l"] if calls else f["line"]), ok=okc)
        if not okc:
            run.violation(rule, "compiler::build_dispatch_tables|top-call", "the top-level build_dispatch_table call is not (m, dims - 1, groups.end() - 1, all, true)", (f["file"], calls[0]["l"] if calls else f["line"]))
        # (c) v-table entries: method index, parameter index, group number in iteration order
        byid, parent = astq.index_nodes(f)
        asg = {}
        for n in astq.walk(f["body"]):
            if n.get("k") == "BinaryOperator" and n.get("op") == "=":
                l = astq.strip(n["c"][0])
                if l.get("k") == "MemberExpr" and l.get("member") in ("method_index", "vp_index", "group_index") and any(x.get("k") == "DeclRefExpr" and x["ref"].get("storage") == "local" for x in astq.walk(l)):
                    asg[l["member"]] = n
        oke = set(asg) == {"method_index", "vp_index", "group_index"}
        if oke:
            gi = astq.strip(asg["group_index"]["c"][1])
            vi = astq.strip(asg["vp_index"]["c"][1])
            loops = _enclosing(parent, asg["group_index"], ("CXXForRangeStmt", "ForStmt"))
            # group counter: declared in the dimension loop, incremented once per group of groups[dim]
            gl = [lp for lp in loops if lp.get("k") == "CXXForRangeStmt" and any(x.get("k") == "CXXOperatorCallExpr" and x.get("oop") == "[]" and any(
                y.get("k") == "DeclRefExpr" and "std::vector<std::map<" in (y.get("t") or "") for y in astq.walk(x)) for x in astq.walk(astq.strip(lp["range"])))]
            dl = [lp for lp in loops if lp.get("k") == "ForStmt"]
            oke = bool(gl) and bool(dl) and gi.get("k") == "DeclRefExpr" and vi.get("k") == "DeclRefExpr" and dl[0].get("init") and vi["ref"]["did"] == dl[0]["init"]["decls"][0]["did"]
            if oke:
                incs = [n for n in astq.walk(gl[0]["body"]) if n.get("k") == "UnaryOperator" and n.get("op") == "++" and astq.strip(n["c"][0]).get("k") == "DeclRefExpr" and astq.strip(n["c"][0])["ref"]["did"] == gi["ref"]["did"]]
                oke = len(incs) == 1 and parent.get(incs[0]["id"]) is gl[0]["body"] and not _in_subtree(gl[0]["body"], None)
                # the index of groups[...] in the range is the dimension variable
                rng = [x for x in astq.walk(astq.strip(gl[0]["range"])) if x.get("k") == "CXXOperatorCallExpr" and x.get("oop") == "[]"][0]
                oke = oke and astq.strip(rng["c"][2]).get("k") == "DeclRefExpr" and astq.strip(rng["c"][2])["ref"]["did"] == vi["ref"]["did"]
                # zero at the start of each dimension
                decl = [d for n in astq.walk(dl[0]["body"]) if n.get("k") == "DeclStmt" for d in n["decls"] if d["did"] == gi["ref"]["did"]]
                oke = oke and len(decl) == 1 and astq.affine(decl[0].get("init")) == {}
        run.instance(rule, "%s: each class's v-table entry records (method, parameter index, number of its group in the order groups[dim] is iterated)" % short(f), (f["file"], asg["group_index"]["l"] if "group_index" in asg else f["line"]), ok=bool(oke))
        if not oke:
            run.violation(rule, "compiler::build_dispatch_tables|entry-fields", "v-table entries are not filled with (method index, dim, running group number of groups[dim])", (f["file"], f["line"]))
    for f in by_name(ast, "build_dispatch_table"):
        # (d) recursion: (m, dim - 1, group_iter - 1, candidates & group_mask, ...), cells pushed at dim == 0
        rec = [n for n in astq.walk(f["body"]) if n.get("k") == "CXXMemberCallExpr" and (n.get("callee") or "").endswith("::build_dispatch_table")]
        ok = False
        if len(rec) == 1:
            a = rec[0]["c"][1:]
            # the function's parameters by position (m, dim, group_iter, candidates, concrete) - the recursive call passes them in the same positions
            ps_ = f["params"]
            pd = {"dim": ps_[1]["did"], "group_iter": ps_[2]["did"], "candidates": ps_[3]["did"]} if len(ps_) >= 4 else {}
            dimv = astq.affine(a[1], {pd.get("dim"): {"dim": 1}})
            its = [x for x in astq.walk(a[2]) if x.get("k") == "CXXOperatorCallExpr" and x.get("oop") == "-"]
            it = its[0] if its else {}
            it_ok = bool(its) and astq.strip(it["c"][1]).get("k") == "DeclRefExpr" and astq.strip(it["c"][1])["ref"]["did"] == pd.get("group_iter") and astq.affine(it["c"][2]) == {1: 1}
            mk = astq.strip(a[3])
            mk_ok = False
            if mk.get("k") == "DeclRefExpr":
                for n in astq.walk(f["body"]):
                    if n.get("k") == "DeclStmt":
                        for d in n["decls"]:
                            if d["did"] == mk["ref"]["did"] and d.get("init") is not None:
                                i0 = [x for x in astq.walk(d["init"]) if x.get("k") == "CXXOperatorCallExpr" and x.get("oop") == "&"]
                                mk_ok = bool(i0) and any(y.get("k") == "DeclRefExpr" and y["ref"]["did"] == pd.get("candidates") for y in astq.walk(i0[0])) and any(
                                    y.get("k") == "DeclRefExpr" and y["ref"].get("dk") == "Binding" for y in astq.walk(i0[0]))
            ifs = [n for n in astq.walk(f["body"]) if n.get("k") == "IfStmt" and _in_subtree(n.get("else") or {"k": "x", "id": -5}, rec[0])]
            zero = bool(ifs) and astq.canon(ifs[0]["cond"]) == ("zero", "v#%s" % pd.get("dim"))
            ok = dimv == {"dim": 1, 1: -1} and it_ok and mk_ok and zero
        run.instance(rule, "%s: recursion descends one dimension with candidates & group mask; cells are pushed at dimension 0 (row-major, dimension 0 fastest)" % short(f), (f["file"], rec[0]["l"] if rec else f["line"]), ok=ok)
        if not ok:
            run.violation(rule, "compiler::build_dispatch_table|recursion", "the recursion is not build_dispatch_table(m, dim - 1, group_iter - 1, candidates & group_mask, ...) with cells pushed when dim == 0", (f["file"], rec[0]["l"] if rec else f["line"]))
    for f in by_name(ast, "install_gv"):
        # (e) what the v-table cells receive
        el = [n for n in astq.walk(f["body"]) if n.get("k") == "CXXForRangeStmt" and any(x.get("k") == "MemberExpr" and x.get("member") == "vtbl" for x in astq.walk(astq.strip(n["range"])))]
        if len(el) != 1:
            continue
        ev = el[0]["var"]["did"]

        def is_cell_write(n):
            if n.get("k") != "BinaryOperator" or n.get("op") != "=":
                return False
            l = astq.strip(n["c"][0])
            return l.get("k") == "UnaryOperator" and l.get("op") == "*" and any(x.get("k") == "UnaryOperator" and x.get("op") == "++" and astq.strip(x["c"][0]).get("k") == "DeclRefExpr"
                                                                                and astq.strip(x["c"][0])["ref"].get("storage") == "local" for x in astq.walk(l))
        res = {}
        for uni in (True, False):
            for first in (True, False):
                def decide(c, uni=uni, first=first):
                    sy = lambda n: "arity" if (n.get("k") == "CXXMemberCallExpr" and (n.get("callee") or "").endswith("::arity")) else ("vp" if n.get("k") == "MemberExpr" and n.get("member") == "vp_index" else None)
                    v = astq.eval_int_cond(c, sy, {"arity": 1 if uni else 2, "vp": 0 if first else 1})
                    if v is not None:
                        return v
                    c0 = astq.strip(c)
                    if c0.get("k") == "BinaryOperator" and c0.get("op") in ("==", "!=", ">", "<"):
                        l = astq.affine(c0["c"][0], {}, lambda n: "arity" if (n.get("k") == "CXXMemberCallExpr" and (n.get("callee") or "").endswith("::arity")) else ("vp" if n.get("k") == "MemberExpr" and n.get("member") == "vp_index" else None))
                        r = astq.affine(c0["c"][1], {}, lambda n: None)
                        if l is not None and r is not None and set(l) - {1} <= {"arity", "vp"} and set(l) - {1}:
                            var = list(set(l) - {1})[0]
                            val = (1 if uni else 2) if var == "arity" else (0 if first else 1)
                            lv = l.get(var, 0) * val + l.get(1, 0)
                            rv = r.get(1, 0)
                            return {"==": lv == rv, "!=": lv != rv, ">": lv > rv, "<": lv < rv}[c0["op"]]
                    return None
                ps = astq.enum_paths(el[0]["body"], decide, is_cell_write)
                vals = set()
                for p in ps:
                    for k, n in p["events"]:
                        rhs = n["c"][1]
                        mem = [x["member"] for x in astq.walk(rhs) if x.get("k") == "MemberExpr"]
                        if "pf" in mem:
                            vals.add("definition-pointer")
                        elif "gv_dispatch_table" in mem and "group_index" in mem:
                            vals.add("table+group")
                        elif mem == ["group_index"]:
                            vals.add("group")
                        else:
                            vals.add("other:" + astq.text(rhs))
                res[(uni, first)] = vals
        exp = {(True, True): {"definition-pointer"}, (True, False): {"definition-pointer"}, (False, True): {"table+group"}, (False, False): {"group"}}
        ok = res == exp
        # the definition pointer of a uni-method is that of dispatch_table[entry.group_index]
        spec_ok = any(d.get("init") is not None and any(x.get("k") == "CXXOperatorCallExpr" and x.get("oop") == "[]" and any(y.get("k") == "MemberExpr" and y.get("member") == "dispatch_table" for y in astq.walk(x["c"][1])) and
                      any(y.get("k") == "MemberExpr" and y.get("member") == "group_index" for y in astq.walk(x["c"][2])) for x in astq.walk(d["init"]))
                      for n in astq.walk(el[0]["body"]) if n.get("k") == "DeclStmt" for d in n["decls"])
        # and the table base recorded before the cells are copied
        base_ok = any(n.get("k") == "BinaryOperator" and n.get("op") == "=" and astq.strip(n["c"][0]).get("k") == "MemberExpr" and astq.strip(n["c"][0]).get("member") == "gv_dispatch_table" and
                      astq.strip(n["c"][1]).get("k") == "DeclRefExpr" and astq.strip(n["c"][1])["ref"].get("storage") == "local" for n in astq.walk(f["body"]))
        ok = ok and spec_ok and base_ok
        run.instance(rule, "%s: v-table cell = definition pointer (uni-method), table base + group (first parameter), group number (other parameters)" % short(f), (f["file"], el[0]["l"]), ok=ok,
                     detail={str(k): sorted(v) for k, v in res.items()})
        if not ok:
            run.violation(rule, "compiler::install_gv|cell-values", "v-table cells receive %s (uni/multi x first/other parameter); the walk expects a definition pointer, table base + group, group number" % {str(k): sorted(v) for k, v in res.items()}, (f["file"], el[0]["l"]))


# ---------------------------------------------------------------------------
# (13) best(): the per-pair step of the incremental elimination

def best_rules(run, rule, ast):
    """For a new candidate s and a member b of the running best set the step must be:
         s more specific than b  -> b (and only b) is erased, the scan continues;
         b more specific than s  -> s is dropped, the scan stops;
         neither                 -> next member;
       and s is appended afterwards iff it was not dropped. (This is the step; that the fold is order
       independent for a non-transitive relation is NOT decided.)"""
    fs = by_name(ast, "best")
    if not fs:
        raise common.AnalysisBroken("compiler<P>::best not instantiated")
    for f in fs:
        body = f["body"]
        outer = [n for n in body.get("c") or [] if n.get("k") == "CXXForRangeStmt"]
        decls = [d for n in body.get("c") or [] if n.get("k") == "DeclStmt" for d in n["decls"]]
        if len(outer) != 1 or not decls:
            run.broken.append("%s: not in the form 'result vector; for each candidate ...; return'" % short(f))
            continue
        # nothing but `result; for each candidate ...; return result`: a shortcut that returns before / instead of the pairwise
        # scan decides the best set by something else than the specificity order
        extra = [n for n in body.get("c") or [] if n.get("k") not in ("DeclStmt", "CXXForRangeStmt", "ReturnStmt", "NullStmt") and not (
            n.get("k") in ("CXXOperatorCallExpr", "ExprWithCleanups") and any(x.get("k") == "MemberExpr" and x.get("member") == "trace" for x in astq.walk(n)))]
        bypass = [n for n in extra if any(x.get("k") == "ReturnStmt" for x in astq.walk(n))]
        run.instance(rule, "%s: every result of best() comes out of the pairwise scan" % short(f), (f["file"], f["line"]), ok=not bypass)
        for n in bypass:
            run.violation(rule, "compiler::best|shortcut", "best() returns from a shortcut (`%s`) that does not compare the candidates pairwise with is_more_specific: incomparable candidates are no longer all kept" % (
                astq.text(n.get("cond"))[:80] if n.get("cond") else n.get("k")), (f["file"], n["l"]))
        res = decls[0]["did"]
        spec = outer[0]["var"]["did"]
        ob = outer[0]["body"]
        inner = [n for n in ob.get("c") or [] if n.get("k") in ("ForStmt", "WhileStmt")]
        cand = [d for n in ob.get("c") or [] if n.get("k") == "DeclStmt" for d in n["decls"]]
        if len(inner) != 1:
            run.broken.append("%s: no single inner scan over the running best set" % short(f))
            continue
        lp = inner[0]
        it = lp["init"]["decls"][0]["did"] if lp.get("init") and lp["init"].get("k") == "DeclStmt" else None
        cand_did = cand[0]["did"] if cand else None

        def rel_of(c):
            """'s>b' / 'b>s' for a call is_more_specific(x, y)"""
            c0 = astq.strip(c)
            if c0.get("k") == "CallExpr" and (c0.get("callee") or "").endswith("::is_more_specific"):
                a0, a1 = astq.strip(c0["c"][1]), astq.strip(c0["c"][2])

                def role(x):
                    if x.get("k") == "DeclRefExpr" and x["ref"]["did"] in (spec, cand_did):
                        return "s"
                    if any(y.get("k") == "DeclRefExpr" and y["ref"]["did"] == it for y in astq.walk(x)):
                        return "b"
                    return "?"
                r = role(a0) + ">" + role(a1)
                return r if r in ("s>b", "b>s") else None
            return None
        table = {}
        unknown = False
        for case in ("s>b", "b>s", "none"):
            def decide(c, case=case):
                r = rel_of(c)
                if r is None:
                    return None
                return r == case

            def want(n):
                k = n.get("k")
                if k in ("BinaryOperator", "CXXOperatorCallExpr") and (n.get("op") == "=" or n.get("oop") == "="):
                    return True
                if k in ("UnaryOperator", "CXXOperatorCallExpr") and (n.get("op") == "++" or n.get("oop") == "++"):
                    return True
                if k == "CXXMemberCallExpr" and not n.get("cconst"):
                    return True
                return False
            def decide2(c, case=case):
                """as decide, through !, && and ||: a sub-condition that is not a specificity test stays open"""
                c0 = astq.strip(c)
                if c0 is not None and c0.get("k") == "UnaryOperator" and c0.get("op") == "!":
                    v = decide2(c0["c"][0])
                    return None if v is None else not v
                if c0 is not None and c0.get("k") == "BinaryOperator" and c0.get("op") in ("&&", "||"):
                    a, b = decide2(c0["c"][0]), decide2(c0["c"][1])
                    if c0["op"] == "&&":
                        return False if (a is False or b is False) else True if (a and b) else None
                    return True if (a is True or b is True) else False if (a is False and b is False) else None
                return decide(c)
            ps = astq.enum_paths(lp["body"], decide2, want)
            if len(ps) != 1:
                # the step depends on something besides the specificity relation. What must never happen: with NEITHER more specific,
                # the candidate is dropped or a member erased (an incomparable definition eliminated: the ambiguity goes unreported)
                if case == "none" and ps:
                    for pth in ps:
                        evs = [astq.text(n) for _, n in pth["events"]]
                        drops = any(n.get("k") == "BinaryOperator" and astq.strip(n["c"][0]).get("k") == "DeclRefExpr" and astq.strip(n["c"][0])["ref"]["did"] == cand_did for _, n in pth["events"])
                        erases = any(x.get("k") == "CXXMemberCallExpr" and re.search(r"::(erase|clear|pop_back)$", x.get("callee") or "") for _, n in pth["events"] for x in astq.walk(n))
                        if drops or erases:
                            g = [astq.text(c)[:70] for c, v in pth["guards"]]
                            run.instance(rule, "%s: an incomparable pair leaves both definitions in the running" % short(f), (f["file"], lp["l"]), ok=False)
                            run.violation(rule, "compiler::best|step|none", "with neither definition more specific than the other, the step still %s depending on `%s`: equally specific definitions are no longer all kept, the ambiguity goes unreported and uncounted" % (
                                "drops the candidate" if drops else "erases a member", "; ".join(g)), (f["file"], lp["l"]))
                            break
                unknown = True
                break
            acts = []
            for k0, n in ps[0]["events"]:
                t = astq.text(n)
                if any(x.get("k") == "CXXMemberCallExpr" and (x.get("callee") or "").endswith("::erase") for x in astq.walk(n)):
                    er = [x for x in astq.walk(n) if x.get("k") == "CXXMemberCallExpr" and (x.get("callee") or "").endswith("::erase")][0]
                    one = len(er["c"]) == 2 and any(y.get("k") == "DeclRefExpr" and y["ref"]["did"] == it for y in astq.walk(er["c"][1]))
                    acts.append("erase-that-member" if one else "erase-other:" + t[:60])
                elif any(x.get("k") == "CXXMemberCallExpr" and re.search(r"::(clear|resize|assign|pop_back)$", x.get("callee") or "") for x in astq.walk(n)):
                    acts.append("shrinks-the-set:" + t[:60])
                elif n.get("k") in ("BinaryOperator",) and astq.strip(n["c"][0]).get("k") == "DeclRefExpr" and astq.strip(n["c"][0])["ref"]["did"] == cand_did:
                    v = astq.strip(n["c"][1])
                    acts.append("drop-candidate" if v.get("k") in ("CXXNullPtrLiteralExpr", "GNUNullExpr") or (v.get("k") == "IntegerLiteral" and v.get("v") == 0) else "candidate=" + t[:40])
                elif n.get("op") == "++" or n.get("oop") == "++":
                    acts.append("next-member")
                else:
                    acts.append("other:" + t[:60])
            if ps[0].get("jump") == "BreakStmt":
                acts.append("stop-scan")
            table[case] = acts
        if unknown and any(v["key"] == "compiler::best|step|none" and v["rule"] == rule for v in run.violations):
            continue
        if unknown:
            run.broken.append("%s: the per-pair step of best() is not a deterministic function of the relation between the candidate and the member" % short(f))
            continue
        exp = {"s>b": ["erase-that-member"], "b>s": ["drop-candidate", "stop-scan"], "none": ["next-member"]}
        ok = table == exp
        # the loop header itself must not advance (the body does) and the candidate is appended iff kept
        tail = [n for n in ob.get("c") or [] if n.get("k") == "IfStmt"]
        push_ok = len(tail) == 1 and astq.strip(tail[0]["cond"]).get("k") == "DeclRefExpr" and astq.strip(tail[0]["cond"])["ref"]["did"] == cand_did and any(
            x.get("k") == "CXXMemberCallExpr" and (x.get("callee") or "").endswith("::push_back") and any(y.get("k") == "DeclRefExpr" and y["ref"]["did"] == res for y in astq.walk(x["c"][0])) for x in astq.walk(tail[0]["then"])) and not tail[0].get("else")
        run.instance(rule, "%s: per-pair step %s; candidate appended iff not dropped: %s" % (short(f), table, push_ok), (f["file"], lp["l"]), ok=ok and push_ok)
        if not ok:
            diffs = ["%s: %s (needed: %s)" % (k, table.get(k), exp[k]) for k in exp if table.get(k) != exp[k]]
            run.violation(rule, "compiler::best|step|%s" % ",".join(k for k in exp if table.get(k) != exp[k]), "the elimination step of best() deviates: %s" % "; ".join(diffs), (f["file"], lp["l"]))
        elif not push_ok:
            run.violation(rule, "compiler::best|append", "a candidate that survived the scan is not appended to the best set exactly when it was not dropped", (f["file"], ob["l"]))
        # the scan is a fold of a relation that is NOT transitive when the specificity table lets a position with unrelated classes
        # pass (a > b > c > a is realisable with three parameters): what survives then depends on the order of the candidates, i.e. on
        # the order of registration. A single survivor must therefore be confirmed against every candidate (it is THE most specific
        # definition only if it beats all the others); otherwise the set is ambiguous.
        msf = [g for g in by_name(ast, "is_more_specific") if g["name"].rsplit("::", 1)[0] == f["name"].rsplit("::", 1)[0]]
        neutral = None
        if msf:
            try:
                neutral = dtab.order_table(msf[0], {g["name"]: g for g in ast.funcs if g.get("body") and re.search(r"compiler<.*>::\w+$", g["name"])})["per"].get("UNRELATED") == "none"
            except dtab.Unclassifiable:
                neutral = None
        if neutral:
            post = []
            for st in body.get("c") or []:
                if st.get("k") != "IfStmt" or st["l"] < outer[0]["l"]:
                    continue
                c = astq.canon(st["cond"])
                size1 = any(x.get("k") == "CXXMemberCallExpr" and (x.get("callee") or "").endswith("::size") and _refs(x, res) for x in astq.walk(st["cond"])) and any(
                    x.get("k") == "IntegerLiteral" and x.get("v") == 1 for x in astq.walk(st["cond"]))
                scans = [lp for lp in astq.walk(st.get("then")) if lp.get("k") in ("CXXForRangeStmt", "ForStmt") and any(
                    x.get("k") == "CallExpr" and (x.get("callee") or "").endswith("::is_more_specific") for x in astq.walk(lp))]
                grows = any(x.get("k") == "CXXMemberCallExpr" and (x.get("callee") or "").endswith("::push_back") and _refs(x["c"][0], res) for x in astq.walk(st.get("then")))
                # ... and the confirmation asks the right question: the set grows when the SURVIVOR does NOT beat the candidate, i.e. under
                # `!is_more_specific(<survivor: front() / [0] / *begin() of the result>, <scan variable>)`
                right = False
                for lp in scans:
                    lv = lp["var"]["did"] if lp.get("k") == "CXXForRangeStmt" else None
                    for ifs in astq.walk(lp.get("body")):
                        if ifs.get("k") != "IfStmt" or not any(x.get("k") == "CXXMemberCallExpr" and (x.get("callee") or "").endswith("::push_back") and _refs(x["c"][0], res) for x in astq.walk(ifs.get("then"))):
                            continue
                        for c in astq.walk(ifs["cond"]):
                            if c.get("k") == "UnaryOperator" and c.get("op") == "!":
                                call = astq.strip(c["c"][0])
                                if call is not None and call.get("k") == "CallExpr" and (call.get("callee") or "").endswith("::is_more_specific") and len(call["c"]) == 3:
                                    a0, a1 = call["c"][1], call["c"][2]
                                    if _refs(a0, res) and not _refs(a1, res) and (lv is None or _refs(a1, lv)):
                                        right = True
                if size1 and scans and grows and right:
                    post.append(st)
                elif size1 and scans and grows and not right:
                    run.instance(rule, "%s: the confirmation of the single survivor asks whether the survivor beats each candidate" % short(f), (f["file"], st["l"]), ok=False)
                    run.violation(rule, "compiler::best|fold-confirmation", "the confirmation after the scan does not grow the set under `!is_more_specific(survivor, candidate)`: a survivor that does not beat every candidate still wins", (f["file"], st["l"]))
                    post.append(st)
            okp = bool(post)
            run.instance(rule, "%s: a single survivor of the scan is confirmed against every candidate (the relation is not transitive across unrelated positions)" % short(f), (f["file"], f["line"]), ok=okp)
            if not okp:
                run.violation(rule, "compiler::best|fold-order", "is_more_specific lets a position with unrelated classes pass, so the relation admits cycles (a > b > c > a with three parameters); best() folds it in the order of the candidates "
                              "and returns whatever survives: which definition a call (or next) runs then depends on the order of registration, where no definition is more specific than all the others", (f["file"], f["line"]))


# ---------------------------------------------------------------------------
# (14) slot allocation: which slot is chosen

def _refs(n, did):
    return any(x.get("k") == "DeclRefExpr" and x["ref"].get("did") == did for x in astq.walk(n))


def _members(n):
    return [x["member"] for x in astq.walk(n) if x.get("k") == "MemberExpr"]


def _is_slots_store(n):
    if n.get("k") != "BinaryOperator" or n.get("op") != "=":
        return False
    l = astq.strip(n["c"][0])
    return l.get("k") == "CXXOperatorCallExpr" and l.get("oop") == "[]" and "slots" in _members(l) and "param" in _members(l)


class _Counter:
    """value of an integer local as `start + k` through straight-line code (n++, ++n, n += c, n = n + c)"""

    def __init__(self, did):
        self.did = did
        self.k = 0

    def is_var(self, n):
        n = astq.strip(n)
        return n is not None and n.get("k") == "DeclRefExpr" and n["ref"].get("did") == self.did

    def eval(self, n):
        """-> offset of the value of expression n relative to the loop-entry value, or None; applies side effects"""
        n = astq.strip(n)
        if n is None:
            return None
        k = n.get("k")
        if self.is_var(n):
            return self.k
        if k == "UnaryOperator" and n.get("op") in ("++", "--") and self.is_var(n["c"][0]):
            d = 1 if n["op"] == "++" else -1
            old = self.k
            self.k += d
            return old if n.get("postfix") else self.k
        if k == "CompoundAssignOperator" and n.get("op") in ("+=", "-=") and self.is_var(n["c"][0]):
            a = astq.affine(n["c"][1])
            if a is None or set(a) - {1}:
                raise ValueError("non-constant step")
            self.k += a.get(1, 0) * (1 if n["op"] == "+=" else -1)
            return self.k
        if k == "BinaryOperator" and n.get("op") == "=" and self.is_var(n["c"][0]):
            v = self.eval(n["c"][1])
            if v is None:
                raise ValueError("counter assigned from something else")
            self.k = v
            return v
        if k == "BinaryOperator" and n.get("op") in ("+", "-"):
            a, b = self.eval(n["c"][0]), None
            if a is not None:
                c = astq.affine(n["c"][1])
                if c is not None and not (set(c) - {1}):
                    return a + c.get(1, 0) * (1 if n["op"] == "+" else -1)
            return None
        return None

    def touches(self, n):
        return _refs(n, self.did)


def alloc_rules(run, rule, ast):
    """which slot a (method, parameter) gets: tree allocation numbers the parameters of a class consecutively after
    those of its base and is used only when no class below the root has several bases; lattice allocation takes a
    slot that is free in the class's used AND reserved sets."""
    # --- A. tree or lattice
    for f in by_name(ast, "assign_slots"):
        byid, parent = astq.index_nodes(f)
        tcalls = [n for n in astq.walk(f["body"]) if n.get("k") == "CXXMemberCallExpr" and re.search(r"::assign_tree_slots$", n.get("callee") or "")]
        lcalls = [n for n in astq.walk(f["body"]) if n.get("k") == "CXXMemberCallExpr" and re.search(r"::assign_lattice_slots$", n.get("callee") or "")]
        if not lcalls:
            run.broken.append("%s: no call of assign_lattice_slots" % short(f))
            continue
        if not tcalls:
            # lattice allocation for everything is always valid
            run.instance(rule, "%s: every root class is allocated with the lattice algorithm" % short(f), (f["file"], f["line"]), ok=True)
            continue
        for tc in tcalls:
            arg = astq.strip(tc["c"][1])
            ifs = _enclosing(parent, tc, ("IfStmt",))
            if arg.get("k") != "DeclRefExpr" or not ifs:
                run.broken.append("%s: call of assign_tree_slots not classifiable" % short(f))
                continue
            did = arg["ref"]["did"]
            verdict = None
            for i in ifs:
                c = astq.strip(i["cond"])
                in_then = _in_subtree(i.get("then"), tc)
                # the decision named by a local bool: it must be this root's own verdict - declared inside the loop over the roots and
                # defined once, by the quantifier over this root's classes. A flag that lives across iterations (or is or-ed with its
                # previous value) makes the algorithm chosen for one root depend on the roots visited before it.
                c1 = c
                neg = False
                while c1 is not None and c1.get("k") == "UnaryOperator" and c1.get("op") == "!":
                    c1, neg = astq.strip(c1["c"][0]), not neg
                if c1 is not None and c1.get("k") == "DeclRefExpr" and c1["ref"].get("storage") == "local" and "bool" in (c1.get("t") or ""):
                    fd = c1["ref"]["did"]
                    loops = _enclosing(parent, tc, ("CXXForRangeStmt", "ForStmt", "WhileStmt"))
                    decl = [(n, d) for n in astq.walk(f["body"]) if n.get("k") == "DeclStmt" for d in n["decls"] if d.get("did") == fd]
                    asg = [n for n in astq.walk(f["body"]) if n.get("k") in ("BinaryOperator", "CompoundAssignOperator") and n.get("op") in ("=", "|=", "&=") and _refs(n["c"][0], fd) and astq.strip(n["c"][0]).get("k") == "DeclRefExpr"]
                    inside = bool(decl) and bool(loops) and _in_subtree(loops[0].get("body"), decl[0][0])
                    if not decl:
                        run.broken.append("%s: declaration of the tree/lattice flag not found" % short(f))
                        verdict = "broken"
                        break
                    if not inside or asg:
                        verdict = False
                        run.instance(rule, "%s: tree allocation only when no class at or below the root has several direct bases" % short(f), (f["file"], tc["l"]), ok=False)
                        run.violation(rule, "compiler::assign_slots|tree-choice", "the tree/lattice decision is a flag `%s` that %s: the algorithm chosen for a root depends on the roots visited before it, i.e. on the order of registration; consecutive numbering is only collision-free in a tree" % (
                            c1["ref"]["name"], "is declared outside the loop over the roots" if not inside else "is assigned again after its declaration"), (f["file"], tc["l"]))
                        break
                    if decl[0][1].get("init") is None:
                        run.broken.append("%s: the tree/lattice flag has no initialiser" % short(f))
                        verdict = "broken"
                        break
                    c = astq.strip(decl[0][1]["init"])
                    if neg:
                        in_then = not in_then
                    i = dict(i)
                    i["cond"] = decl[0][1]["init"]
                # quantifier over a set of classes with a predicate on the number of direct bases
                q = [x for x in astq.walk(c) if x.get("k") == "CallExpr" and re.match(r"^std::(find_if|any_of|none_of|all_of|count_if)<", x.get("callee") or "")]
                if not q:
                    continue
                q = q[0]
                kind = re.match(r"^std::(\w+)<", q["callee"]).group(1)
                rng = [m for m in _members(q["c"][1]) if m not in ("begin", "cbegin")]
                rng_e = [m for m in _members(q["c"][2]) if m not in ("end", "cend")]
                own = _refs(q["c"][1], did) and _refs(q["c"][2], did) and rng == rng_e
                lam = [x for x in astq.walk(q) if x.get("k") == "LambdaExpr"]
                pred = None
                if lam:
                    for s in lam[0]["lambda"].get("specializations") or []:
                        body = s if s.get("k") else s.get("body")
                        for r in astq.walk(body):
                            if r.get("k") == "ReturnStmt" and r.get("c"):
                                e = astq.strip(r["c"][0])
                                if e.get("k") == "BinaryOperator" and "direct_bases" in _members(e["c"][0]) and "size" in _members(e["c"][0]):
                                    cst = astq.affine(e["c"][1])
                                    if cst is not None and not (set(cst) - {1}):
                                        pred = (e["op"], cst.get(1, 0))
                if pred is None:
                    run.broken.append("%s: predicate of the tree/lattice decision not recognised" % short(f))
                    verdict = "broken"
                    break
                multi = pred in ((">", 1), (">=", 2))
                # "no class of the set has several bases" in the form written
                if kind == "find_if":
                    top = astq.strip(i["cond"])
                    eq = top.get("k") == "CXXOperatorCallExpr" and top.get("oop") in ("==", "!=")
                    none = eq and ((top["oop"] == "==") == in_then)
                elif kind == "none_of":
                    none = in_then and astq.strip(i["cond"]) is q or (astq.strip(i["cond"]).get("k") == "CallExpr" and in_then)
                elif kind == "any_of":
                    top = astq.strip(i["cond"])
                    none = (top.get("k") == "UnaryOperator" and top.get("op") == "!" and in_then) or (top.get("k") == "CallExpr" and not in_then)
                else:
                    run.broken.append("%s: quantifier %s in the tree/lattice decision not classified" % (short(f), kind))
                    verdict = "broken"
                    break
                okset = own and rng[:1] == ["covariant_classes"]
                ok = okset and multi and none
                verdict = ok
                run.instance(rule, "%s: tree allocation only when no class at or below the root has several direct bases" % short(f), (f["file"], tc["l"]), ok=ok)
                if not ok:
                    why = ("the test ranges over `%s`, not over the root's covariant_classes (all classes at or below it)" % (rng[0] if rng else "?")) if not okset else (
                        "the predicate is `direct_bases.size() %s %d`, not 'several direct bases'" % pred) if not multi else "tree allocation is chosen when some class HAS several bases"
                    run.violation(rule, "compiler::assign_slots|tree-choice", "%s: consecutive numbering is only collision-free in a tree" % why, (f["file"], tc["l"]))
                break
            if verdict is None:
                run.broken.append("%s: no tree/lattice decision found around the call of assign_tree_slots" % short(f))
            # roots only, starting at slot 0
            outer = [i for i in ifs if "direct_bases" in _members(i["cond"]) and not [x for x in astq.walk(i["cond"]) if x.get("k") == "LambdaExpr"]]
            okroot = False
            if outer:
                c = astq.strip(outer[-1]["cond"])
                if c.get("k") == "BinaryOperator" and c.get("op") == "==" and astq.affine(c["c"][1]) == {} and "size" in _members(c["c"][0]) and _refs(c, did):
                    okroot = True
                if c.get("k") == "CXXMemberCallExpr" and (c.get("callee") or "").endswith("::empty") and _refs(c, did):
                    okroot = True
            start = astq.affine(tc["c"][2]) if len(tc["c"]) > 2 else None
            run.instance(rule, "%s: allocation starts at the roots (classes without bases), tree numbering from slot 0" % short(f), (f["file"], tc["l"]), ok=okroot and start == {})
            if not okroot:
                run.violation(rule, "compiler::assign_slots|roots", "allocation is not started exactly at the classes without direct bases", (f["file"], tc["l"]))
            elif start != {}:
                run.violation(rule, "compiler::assign_slots|tree-start", "tree numbering of a root starts at %s, not 0" % astq.aff_show(start or {}), (f["file"], tc["l"]))
    # --- B. tree numbering
    for f in by_name(ast, "assign_tree_slots"):
        byid, parent = astq.index_nodes(f)
        base = f["params"][1]["did"]
        cls = f["params"][0]["did"]
        stores = [n for n in astq.walk(f["body"]) if _is_slots_store(n)]
        if len(stores) != 1:
            run.broken.append("%s: expected one store into method->slots, found %d" % (short(f), len(stores)))
            continue
        st = stores[0]
        loops = _enclosing(parent, st, ("CXXForRangeStmt",))
        cnts = [d for n in astq.walk(f["body"]) if n.get("k") == "DeclStmt" for d in n["decls"] if d.get("init") is not None and astq.affine(d["init"], env={base: {"base": 1}}) == {"base": 1}]
        # the counter: a local initialised from the base_slot parameter (or the parameter itself)
        rhs_refs = [x["ref"]["did"] for x in astq.walk(st["c"][1]) if x.get("k") == "DeclRefExpr" and x["ref"].get("storage") in ("local", "param")]
        cand = [d["did"] for d in cnts if d["did"] in rhs_refs] or ([base] if base in rhs_refs else [])
        if len(loops) != 1 or not cand:
            run.broken.append("%s: numbering loop / counter not recognised" % short(f))
            continue
        ctr = _Counter(cand[0])
        lp = loops[0]
        okset = _members(lp["range"])[:1] == ["used_by_vp"] and _refs(lp["range"], cls)
        # one iteration: value stored = entry value, counter advanced by exactly one
        stored = None
        try:
            for s in (lp["body"].get("c") or []):
                if s is st or _in_subtree(s, st):
                    if s is not st:
                        raise ValueError("the store is nested in another statement")
                    stored = ctr.eval(st["c"][1])
                elif ctr.touches(s):
                    inner = astq.strip(s)
                    if any(x.get("k") == "CXXOperatorCallExpr" and x.get("oop") == "<<" for x in astq.walk(s)) and not any(
                            x.get("k") in ("UnaryOperator", "CompoundAssignOperator") and x.get("op") in ("++", "--", "+=", "-=") and ctr.is_var(x["c"][0]) for x in astq.walk(s)):
                        continue        # trace output
                    if ctr.eval(inner) is None:
                        raise ValueError("statement on the counter not understood: " + astq.text(inner)[:60])
        except ValueError as e:
            run.broken.append("%s: %s" % (short(f), e))
            continue
        ok = okset and stored == 0 and ctr.k == 1
        run.instance(rule, "%s: each parameter of the class gets the next consecutive slot after its base's" % short(f), (f["file"], st["l"]), ok=ok)
        if not okset:
            run.violation(rule, "compiler::assign_tree_slots|set", "the numbering loop does not range over the class's used_by_vp", (f["file"], lp["l"]))
        elif not ok:
            run.violation(rule, "compiler::assign_tree_slots|numbering", "one iteration stores entry%+d and advances the counter by %d (expected: stores the entry value, advances by one): two parameters share a slot or a slot is skipped" % (stored if stored is not None else 0, ctr.k), (f["file"], st["l"]))
        # after the loop: table size and the start of the derived classes are the counter
        after = []
        seen = False
        for s in f["body"].get("c") or []:
            if s is lp:
                seen = True
                continue
            if seen:
                after.append(s)
        rs = [n for s in after for n in astq.walk(s) if n.get("k") == "CXXMemberCallExpr" and (n.get("callee") or "").endswith("::resize") and "vtbl" in _members(n["c"][0])]
        rec = [n for s in after for n in astq.walk(s) if n.get("k") == "CXXMemberCallExpr" and re.search(r"::assign_tree_slots$", n.get("callee") or "")]
        if len(rs) != 1 or len(rec) != 1:
            run.broken.append("%s: v-table resize / recursion after the numbering loop not found" % short(f))
            continue
        okr = ctr.is_var(rs[0]["c"][1])
        run.instance(rule, "%s: the v-table holds every slot up to the last one numbered" % short(f), (f["file"], rs[0]["l"]), ok=okr)
        if not okr:
            run.violation(rule, "compiler::assign_tree_slots|size", "the v-table is sized `%s`, not the counter after numbering (slots inherited from the bases included)" % astq.text(rs[0]["c"][1])[:60], (f["file"], rs[0]["l"]))
        rl = _enclosing(parent, rec[0], ("CXXForRangeStmt",))
        okd = ctr.is_var(rec[0]["c"][2]) and rl and _members(rl[0]["range"])[:1] == ["direct_derived"] and not _enclosing(parent, rec[0], ("IfStmt",))
        run.instance(rule, "%s: every direct derived class continues numbering after this class's slots" % short(f), (f["file"], rec[0]["l"]), ok=bool(okd))
        if not okd:
            run.violation(rule, "compiler::assign_tree_slots|recursion", "derived classes do not (all) continue with the counter after this class's parameters: `%s`" % astq.text(rec[0]["c"][2])[:60], (f["file"], rec[0]["l"]))
    # --- every class below a root is visited: the walk descends into ALL direct derived classes (a class without
    #     parameters of its own is still the way to the classes below it)
    for f in by_name(ast, "assign_lattice_slots") + by_name(ast, "assign_tree_slots"):
        byid, parent = astq.index_nodes(f)
        cls = f["params"][0]["did"]
        fname = f["name"].rsplit("::", 1)[1]
        rec = [n for n in astq.walk(f["body"]) if n.get("k") == "CXXMemberCallExpr" and re.search(r"::%s$" % fname, n.get("callee") or "")]
        if len(rec) != 1:
            run.broken.append("%s: expected one recursive call, found %d" % (short(f), len(rec)))
            continue
        lps = _enclosing(parent, rec[0], ("CXXForRangeStmt",))
        okl = bool(lps) and _members(lps[0]["range"])[:1] == ["direct_derived"] and _refs(lps[0]["range"], cls) and _refs(rec[0]["c"][1], lps[0]["var"]["did"])
        guards = [i for i in _enclosing(parent, rec[0], ("IfStmt",)) if lps and _in_subtree(lps[0]["body"], i)]
        outer = [i for i in _enclosing(parent, rec[0], ("IfStmt",)) if i not in guards]
        ok = okl and not guards and not outer
        run.instance(rule, "%s: the walk descends into every direct derived class" % short(f), (f["file"], rec[0]["l"]), ok=ok)
        if not ok:
            g = (guards or outer or [None])[0]
            run.violation(rule, "compiler::%s|descent" % fname, "the recursion into the derived classes %s: classes below a skipped class are never allocated and keep slot 0" % (
                ("is skipped depending on `%s`" % astq.text(g["cond"])[:70]) if g else "does not range over cls.direct_derived"), (f["file"], rec[0]["l"]))
    # --- C. lattice: the slot taken is free in used AND reserved
    for f in by_name(ast, "assign_lattice_slots"):
        byid, parent = astq.index_nodes(f)
        cls = f["params"][0]["did"]
        stores = [n for n in astq.walk(f["body"]) if _is_slots_store(n)]
        if len(stores) != 1:
            run.broken.append("%s: expected one store into method->slots, found %d" % (short(f), len(stores)))
            continue
        st = stores[0]
        sv = astq.strip(st["c"][1])
        if sv.get("k") != "DeclRefExpr":
            run.broken.append("%s: the slot stored is not a plain local" % short(f))
            continue
        sdid = sv["ref"]["did"]
        # the search: a test `bits[slot]` on some bit set, in a loop that advances slot
        tests = [x for x in astq.walk(f["body"]) if x.get("k") == "CXXOperatorCallExpr" and x.get("oop") == "[]" and "dynamic_bitset" in (x.get("callee") or "") and _refs(x["c"][2], sdid)
                 and _enclosing(parent, x, ("ForStmt", "WhileStmt", "DoStmt"))]
        if not tests:
            run.broken.append("%s: search for a free slot not recognised" % short(f))
            continue
        covered = set()
        for t in tests:
            b = astq.strip(t["c"][1])
            if b.get("k") == "MemberExpr" and _refs(b, cls):
                covered.add(b["member"])
            elif b.get("k") == "DeclRefExpr" and b["ref"].get("storage") == "local":
                ld = b["ref"]["did"]
                loop = _enclosing(parent, t, ("ForStmt", "WhileStmt", "DoStmt"))[-1]
                for n in astq.walk(f["body"]):
                    if n.get("k") == "DeclStmt":
                        for d in n["decls"]:
                            if d["did"] == ld and d.get("init") is not None:
                                covered |= {m for m in _members(d["init"]) if m in ("used_slots", "reserved_slots")} if _refs(d["init"], cls) else set()
                    if n.get("k") == "CallExpr" and (n.get("callee") or "").endswith("detail::merge_into") and _refs(n["c"][2], ld) and _refs(n["c"][1], cls) \
                            and n["l"] <= loop["l"] and all(any(e is g for g in _enclosing(parent, loop, ("IfStmt", "ForStmt", "WhileStmt", "CXXForRangeStmt")))
                                                            for e in _enclosing(parent, n, ("IfStmt", "ForStmt", "WhileStmt", "CXXForRangeStmt"))):
                        covered |= {m for m in _members(n["c"][1]) if m in ("used_slots", "reserved_slots")}
        ok = covered >= {"used_slots", "reserved_slots"}
        run.instance(rule, "%s: the slot taken is free in the class's used AND reserved slots" % short(f), (f["file"], st["l"]), ok=ok)
        if not ok:
            run.violation(rule, "compiler::assign_lattice_slots|free-slot", "the search for a free slot consults %s only: a slot already %s can be handed out again" % (
                sorted(covered) or "neither set", "reserved by a derived class's method" if "reserved_slots" not in covered else "used in this class"), (f["file"], st["l"]))
        # the search stops at the first clear bit: break/exit on `!bits[slot]`
        t = tests[0]
        loop = _enclosing(parent, t, ("ForStmt", "WhileStmt", "DoStmt"))[0]
        iff = _enclosing(parent, t, ("IfStmt",))
        stop_ok = False
        if iff and _in_subtree(loop, iff[0]):
            c = astq.strip(iff[0]["cond"])
            neg = c.get("k") == "UnaryOperator" and c.get("op") == "!"
            brk = any(x.get("k") == "BreakStmt" for x in astq.walk(iff[0].get("then")))
            brk_else = iff[0].get("else") is not None and any(x.get("k") == "BreakStmt" for x in astq.walk(iff[0]["else"]))
            stop_ok = (neg and brk) or (not neg and brk_else)
        elif loop.get("cond") is not None and _in_subtree(loop["cond"], t):
            stop_ok = True      # `while (slot < n && bits[slot]) ++slot;`
            c = loop["cond"]
            if any(x.get("k") == "UnaryOperator" and x.get("op") == "!" and _in_subtree(x, t) for x in astq.walk(c)):
                stop_ok = False
        run.instance(rule, "%s: the search stops at a slot whose bit is clear" % short(f), (f["file"], t["l"]), ok=stop_ok)
        if not stop_ok:
            run.violation(rule, "compiler::assign_lattice_slots|search-stop", "the search does not stop on a clear bit (`%s`)" % astq.text(iff[0]["cond"] if iff else loop.get("cond"))[:80], (f["file"], t["l"]))
        # the same slot is marked in both of the class's sets
        sb = [n for n in astq.walk(f["body"]) if n.get("k") == "CallExpr" and (n.get("callee") or "").endswith("detail::set_bit") and _refs(n["c"][1], cls)]
        marked = {m for n in sb for m in _members(n["c"][1]) if _refs(n["c"][2], sdid) and astq.strip(n["c"][2]).get("k") == "DeclRefExpr"}
        okm = marked >= {"used_slots", "reserved_slots"}
        run.instance(rule, "%s: the slot stored in the method is the one marked used and reserved in the class" % short(f), (f["file"], st["l"]), ok=okm)
        if not okm:
            run.violation(rule, "compiler::assign_lattice_slots|mark", "set_bit marks %s with the chosen slot, both used_slots and reserved_slots are needed" % (sorted(marked) or "nothing"), (f["file"], st["l"]))


# ---------------------------------------------------------------------------
# (15) augment_methods: the run-time model mirrors the registrations

def _local_refs(n):
    return [x["ref"]["did"] for x in astq.walk(n) if x.get("k") == "DeclRefExpr" and x["ref"].get("storage") == "local"]


def _assign_parts(n):
    if n.get("k") == "BinaryOperator" and n.get("op") == "=":
        return n["c"][0], n["c"][1]
    if n.get("k") == "CXXOperatorCallExpr" and n.get("oop") == "=":
        return n["c"][1], n["c"][2]
    return None


def model_rules(run, rule, ast, parts=("dummies", "pf", "iter", "vp", "params")):
    for f in by_name(ast, "augment_methods"):
        byid, parent = astq.index_nodes(f)
        body = f["body"]
        vardefs = {d["did"]: d for n in astq.walk(body) if n.get("k") == "DeclStmt" for d in n["decls"]}
        loops = [n for n in astq.walk(body) if n.get("k") == "CXXForRangeStmt"]
        loopvar = {lp["var"]["did"]: lp for lp in loops}
        assigns = [(n,) + _assign_parts(n) for n in astq.walk(body) if _assign_parts(n)]
        # ---- the two error cells of a method call the handler of the same name
        if "dummies" in parts:
            seen = set()
            for n, l, r in assigns:
                lm = _members(l)
                if lm[:1] == ["pf"] and len(lm) > 1 and lm[1] in ("ambiguous", "not_implemented"):
                    rm = _members(r)
                    other = "not_implemented" if lm[1] == "ambiguous" else "ambiguous"
                    ok = lm[1] in rm and other not in rm and "info" in rm and set(_local_refs(l)) == set(_local_refs(r))
                    seen.add(lm[1])
                    run.instance(rule, "%s: the %s cell of a method calls the method's own %s handler" % (short(f), lm[1], lm[1]), (f["file"], n["l"]), ok=ok)
                    if not ok:
                        run.violation(rule, "compiler::augment_methods|%s-pf" % lm[1], "the %s cell's function is `%s`" % (lm[1], astq.text(r)[:80]), (f["file"], n["l"]))
            if seen != {"ambiguous", "not_implemented"}:
                run.broken.append("%s: assignments of the error cells' functions not found (%s)" % (short(f), sorted(seen)))
        # ---- iterators over the run-time vectors advance in step with the registration lists
        iters = {}
        for did, d in vardefs.items():
            init = d.get("init")
            if init is None:
                continue
            i0 = astq.strip(init)
            if i0.get("k") == "CXXMemberCallExpr" and (i0.get("callee") or "").endswith("::begin"):
                mem = _members(i0["c"][0])
                if mem[:2] == ["begin", "methods"]:
                    iters["method"] = did
                elif mem[:2] == ["begin", "specs"]:
                    iters["spec"] = did
        if "iter" in parts or "pf" in parts or "vp" in parts:
            if set(iters) != {"method", "spec"}:
                run.broken.append("%s: iterators over methods / specs not recognised" % short(f))
                continue
        # loops over the registration lists
        mloop = [lp for lp in loops if (astq.refname(lp["range"]) or "").endswith("::methods") and astq.strip(lp["range"]).get("k") == "DeclRefExpr"]
        sloop = [lp for lp in loops if _members(lp["range"])[:1] == ["specs"] and mloop and _refs(lp["range"], mloop[0]["var"]["did"])]
        if ("iter" in parts or "pf" in parts or "vp" in parts) and (len(mloop) != 1 or len(sloop) != 1):
            run.broken.append("%s: loops over Policy::methods / a method's definitions not recognised" % short(f))
            continue
        if "iter" in parts:
            for what, lp, it in (("method", mloop[0], iters["method"]), ("definition", sloop[0], iters["spec"])):
                incs = []
                for s in lp["body"].get("c") or []:
                    for x in astq.walk(s):
                        if (x.get("k") == "CXXOperatorCallExpr" and x.get("oop") in ("++", "--", "+=", "-=", "=") and _refs(x["c"][1], it) and astq.strip(x["c"][1]).get("k") == "DeclRefExpr") or \
                                (x.get("k") in ("UnaryOperator", "CompoundAssignOperator") and x.get("op") in ("++", "--", "+=", "-=") and _refs(x["c"][0], it)):
                            incs.append((s, x))
                ok = len(incs) == 1 and astq.strip(incs[0][0]) is incs[0][1] and incs[0][1].get("oop", incs[0][1].get("op")) == "++"
                # declared right before its loop (same nesting): one run-time element per registration
                dparent = None
                for n in astq.walk(body):
                    if n.get("k") == "DeclStmt" and any(d["did"] == it for d in n["decls"]):
                        dparent = parent.get(n["id"])
                ok = ok and dparent is parent.get(lp["id"])
                run.instance(rule, "%s: the run-time %s record advances exactly once per registered %s" % (short(f), what, what), (f["file"], lp["l"]), ok=bool(ok))
                if not ok:
                    run.violation(rule, "compiler::augment_methods|%s-iter" % what, "the iterator over the run-time %ss is not advanced exactly once, unconditionally, per registered %s" % (what, what), (f["file"], lp["l"]))
            # info pointers
            for what, lp, it in (("method", mloop[0], iters["method"]), ("definition", sloop[0], iters["spec"])):
                cand = [(n, l, r) for n, l, r in assigns if _members(l)[:1] == ["info"] and _refs(l, it)]
                ok = len(cand) == 1
                if ok:
                    r0 = astq.strip(cand[0][2])
                    ok = r0.get("k") == "UnaryOperator" and r0.get("op") == "&" and _refs(r0, lp["var"]["did"]) and parent.get(cand[0][0]["id"]) is lp["body"]
                run.instance(rule, "%s: a run-time %s points to the registration it was built from" % (short(f), what), (f["file"], lp["l"]), ok=bool(ok))
                if not ok:
                    run.violation(rule, "compiler::augment_methods|%s-info" % what, "`info` of the run-time %s is not (unconditionally) the address of the loop's registration record" % what, (f["file"], lp["l"]))
        if "pf" in parts:
            cand = [(n, l, r) for n, l, r in assigns if _members(l)[:1] == ["pf"] and len(_members(l)) == 1 and _refs(l, iters["spec"])]
            ok = bool(cand)
            for n, l, r in cand:
                rm = _members(r)
                okk = rm[:1] == ["pf"] and (("info" in rm and _refs(r, iters["spec"])) or _refs(r, sloop[0]["var"]["did"]))
                ok = ok and okk
            run.instance(rule, "%s: a definition's cell value is the registered function of the same definition" % short(f), (f["file"], cand[0][0]["l"] if cand else f["line"]), ok=ok)
            if not cand:
                run.broken.append("%s: assignment of a definition's function pointer not found" % short(f))
            elif not ok:
                run.violation(rule, "compiler::augment_methods|spec-pf", "a definition's function pointer is not taken from its own registration (`%s`)" % astq.text(cand[0][2])[:80], (f["file"], cand[0][0]["l"]))
        if "vp" in parts:
            pbs = [n for n in astq.walk(body) if n.get("k") == "CXXMemberCallExpr" and (n.get("callee") or "").endswith("::push_back") and _members(n["c"][0])[:2] == ["push_back", "vp"]]
            got = set()
            for pb in pbs:
                owner = "method" if _refs(pb["c"][0], iters["method"]) else "definition" if _refs(pb["c"][0], iters["spec"]) else None
                if owner is None:
                    continue
                src = mloop[0]["var"]["did"] if owner == "method" else sloop[0]["var"]["did"]
                arg = astq.strip(pb["c"][1])
                init = vardefs.get(arg["ref"]["did"], {}).get("init") if arg.get("k") == "DeclRefExpr" else arg
                lps = _enclosing(parent, pb, ("CXXForRangeStmt",))
                ok = False
                why = "not recognised"
                if init is not None and lps:
                    lp = lps[0]
                    rng = lp["range"]
                    rm = _members(rng)
                    rng_ok = rm[:2] == ["vp_begin", "vp_end"] and _refs(rng, src) and all(d == src for d in _local_refs(rng))
                    idx = [x for x in astq.walk(init) if x.get("k") == "CallExpr" and re.search(r"::type_index$", x.get("callee") or "")]
                    key_ok = bool(idx) and _refs(idx[0], lp["var"]["did"]) and "class_map" in _members(init)
                    uncond = not [i for i in _enclosing(parent, pb, ("IfStmt",)) if _in_subtree(lp["body"], i)]
                    ok = rng_ok and key_ok and uncond
                    why = "ranges over `%s`" % astq.text(rng)[:60] if not rng_ok else "class looked up with `%s`" % astq.text(init)[:60] if not key_ok else "conditional"
                got.add(owner)
                run.instance(rule, "%s: the classes of a %s's virtual parameters are those of its registered ids, in order" % (short(f), owner), (f["file"], pb["l"]), ok=ok)
                if not ok:
                    run.violation(rule, "compiler::augment_methods|%s-vp" % owner, "the parameter classes of a %s are not built from its own id list (%s)" % (owner, why), (f["file"], pb["l"]))
            if got != {"method", "definition"}:
                run.broken.append("%s: construction of the parameter class lists not found (%s)" % (short(f), sorted(got)))
        if "params" in parts:
            pbs = [n for n in astq.walk(body) if n.get("k") == "CXXMemberCallExpr" and (n.get("callee") or "").endswith("::push_back") and _members(n["c"][0])[:2] == ["push_back", "used_by_vp"]]
            if len(pbs) != 1:
                run.broken.append("%s: registration of (method, parameter) pairs in the classes not found" % short(f))
                continue
            pb = pbs[0]
            lps = _enclosing(parent, pb, ("CXXForRangeStmt",))
            il = [x for x in astq.walk(pb["c"][1]) if x.get("k") in ("InitListExpr", "CXXConstructExpr", "CXXTemporaryObjectExpr") and len(x.get("c") or []) == 2]
            if len(lps) < 2 or not il:
                run.broken.append("%s: shape of the used_by_vp registration not recognised" % short(f))
                continue
            inner, outer = lps[0], lps[1]
            ok_loops = _members(inner["range"])[:1] == ["vp"] and _refs(inner["range"], outer["var"]["did"]) and _members(outer["range"])[:1] == ["methods"] \
                and _refs(pb["c"][0], inner["var"]["did"])
            m_ok = _refs(il[0]["c"][0], outer["var"]["did"]) and astq.strip(il[0]["c"][0]).get("op") == "&"
            idx = il[0]["c"][1]
            cdid = [d for d in _local_refs(idx) if d in vardefs]
            ok_idx = False
            if cdid:
                ctr = _Counter(cdid[0])
                d = vardefs[cdid[0]]
                # declared inside the method loop (restarts for every method) with value 0
                dstmt = [n for n in astq.walk(outer["body"]) if n.get("k") == "DeclStmt" and any(x["did"] == cdid[0] for x in n["decls"])]
                zero = d.get("init") is not None and astq.affine(d["init"]) == {}
                try:
                    v = ctr.eval(idx)
                    others = [s for s in (inner["body"].get("c") or []) if not _in_subtree(s, pb) and ctr.touches(s)]
                    for s in others:
                        if ctr.eval(astq.strip(s)) is None:
                            raise ValueError("statement on the parameter counter not understood")
                    ok_idx = bool(dstmt) and parent.get(dstmt[0]["id"]) is outer["body"] and zero and v == 0 and ctr.k == 1
                except ValueError as e:
                    run.broken.append("%s: %s" % (short(f), e))
                    continue
            ok = ok_loops and m_ok and ok_idx
            run.instance(rule, "%s: class of parameter #k of a method records the pair (that method, k), k counting from 0 per method" % short(f), (f["file"], pb["l"]), ok=ok)
            if not ok:
                run.violation(rule, "compiler::augment_methods|param-index", "the (method, parameter) pair registered in a parameter's class is not (this method, position of the parameter): %s" % (
                    "loops" if not ok_loops else "method pointer" if not m_ok else "the index is not a per-method counter advanced once per parameter"), (f["file"], pb["l"]))



# ---------------------------------------------------------------------------
# (16) enumeration of a catalog: begin / end / iterator / size / empty

def _ret_expr(f):
    rs = [n for n in astq.walk(f["body"]) if n.get("k") == "ReturnStmt" and n.get("c")]
    return astq.strip(rs[0]["c"][0]) if len(rs) == 1 else None


def _ctor_arg(e):
    """the single argument of a constructor / functional-cast expression building an iterator"""
    e = astq.strip(e)
    while e is not None and e.get("k") in ("CXXConstructExpr", "CXXTemporaryObjectExpr") and len(e.get("c") or []) == 1 and e.get("k") != "IntegerLiteral":
        inner = astq.strip(e["c"][0])
        if inner is not None and inner.get("k") in ("CXXConstructExpr", "CXXTemporaryObjectExpr"):
            e = inner
            continue
        return inner
    return e


def enum_rules(run, rule, ast):
    """catalog enumeration: begin() starts at `first`, end() is the null iterator, ++ follows next_ptr, * / -> give the node,
    == / != compare the node pointers, empty() <=> no first node, size() is the number of steps from begin() to end()."""
    def is_null(e):
        return e is not None and (e.get("k") in ("CXXNullPtrLiteralExpr", "GNUNullExpr") or (e.get("k") == "IntegerLiteral" and e.get("v") == 0))

    def is_this_member(e, name):
        e = astq.strip(e)
        return e is not None and e.get("k") == "MemberExpr" and e.get("member") == name and (not e.get("c") or astq.strip(e["c"][0]).get("k") == "CXXThisExpr")
    n_seen = 0
    for f in _fn(ast, r"static_list<.*>::(begin|end)$"):
        e = _ret_expr(f)
        which = f["name"].rsplit("::", 1)[1]
        a = _ctor_arg(e) if e is not None else None
        if which == "begin":
            ok = a is not None and is_this_member(a, "first")
        else:
            ok = e is not None and (is_null(a) or (e.get("k") in ("CXXConstructExpr", "CXXTemporaryObjectExpr") and not e.get("c")))
        n_seen += 1
        run.instance(rule, "%s: %s" % (short(f), "enumeration starts at the first node" if which == "begin" else "the end of the enumeration is the null iterator"), (f["file"], f["line"]), ok=ok)
        if not ok:
            run.violation(rule, "static_list::%s" % which, "%s() returns `%s`" % (which, astq.text(e)[:80] if e else "?"), (f["file"], f["line"]))
    for f in _fn(ast, r"static_list<.*>::(const_)?iterator::operator\+\+$"):
        if len(f.get("params") or []) != 0:
            continue        # postfix form delegates to the prefix form
        asg = [n for n in astq.walk(f["body"]) if n.get("k") == "BinaryOperator" and n.get("op") == "="]
        ok = len(asg) == 1 and is_this_member(asg[0]["c"][0], "ptr")
        if ok:
            r = astq.strip(asg[0]["c"][1])
            ok = r.get("k") == "MemberExpr" and r.get("member") == "next_ptr" and r.get("arrow") and is_this_member(r["c"][0], "ptr")
        n_seen += 1
        run.instance(rule, "%s: the iterator advances along next_ptr" % short(f), (f["file"], f["line"]), ok=ok)
        if not ok:
            run.violation(rule, "static_list::iterator::operator++", "operator++ does not set ptr = ptr->next_ptr (`%s`)" % (astq.text(asg[0])[:80] if asg else "no assignment"), (f["file"], f["line"]))
    for f in _fn(ast, r"static_list<.*>::(const_)?iterator::operator(\*|->)$"):
        e = _ret_expr(f)
        star = f["name"].endswith("operator*")
        ok = e is not None and ((star and e.get("k") == "UnaryOperator" and e.get("op") == "*" and is_this_member(e["c"][0], "ptr")) or (not star and is_this_member(e, "ptr")))
        n_seen += 1
        run.instance(rule, "%s: dereferencing gives the current node" % short(f), (f["file"], f["line"]), ok=ok)
        if not ok:
            run.violation(rule, "static_list::iterator::deref", "%s returns `%s`" % (f["name"].rsplit("::", 1)[1], astq.text(e)[:60] if e else "?"), (f["file"], f["line"]))
    for f in [f for f in ast.funcs if f.get("body") and re.search(r"yomm2::detail::operator[=!]=$", f["name"]) and len(f.get("params") or []) == 2 and "static_list" in f["params"][0]["type"]]:
        e = _ret_expr(f)
        op = f["name"][-2:]
        ok = False
        if e is not None and e.get("k") == "BinaryOperator" and e.get("op") == op:
            l, r = astq.strip(e["c"][0]), astq.strip(e["c"][1])
            ps = [p["did"] for p in f["params"]]
            ok = all(x.get("k") == "MemberExpr" and x.get("member") == "ptr" for x in (l, r)) and {d for x in (l, r) for d in [y["ref"]["did"] for y in astq.walk(x) if y.get("k") == "DeclRefExpr"]} == set(ps)
        n_seen += 1
        run.instance(rule, "%s: iterators compare by node" % short(f)[:120], (f["file"], f["line"]), ok=ok)
        if not ok:
            run.violation(rule, "static_list::iterator::operator%s" % op, "operator%s on catalog iterators is `%s`, not a comparison of the two node pointers" % (op, astq.text(e)[:80] if e else "?"), (f["file"], f["line"]))
    for f in _fn(ast, r"static_list<.*>::empty$"):
        e = _ret_expr(f)
        ok = False
        if e is not None:
            if e.get("k") == "UnaryOperator" and e.get("op") == "!" and is_this_member(e["c"][0], "first"):
                ok = True
            elif e.get("k") == "BinaryOperator" and e.get("op") == "==" and ((is_this_member(e["c"][0], "first") and is_null(astq.strip(e["c"][1]))) or (is_this_member(e["c"][1], "first") and is_null(astq.strip(e["c"][0])))):
                ok = True
            elif e.get("k") in ("CXXOperatorCallExpr", "CallExpr") and e.get("oop", "") == "==" and {(x.get("callee") or "").rsplit("::", 1)[-1] for x in astq.walk(e) if x.get("k") == "CXXMemberCallExpr"} == {"begin", "end"}:
                ok = True
        n_seen += 1
        run.instance(rule, "%s: empty() <=> there is no first node" % short(f), (f["file"], f["line"]), ok=ok)
        if not ok:
            run.violation(rule, "static_list::empty", "empty() returns `%s`" % (astq.text(e)[:80] if e else "?"), (f["file"], f["line"]))
    for f in _fn(ast, r"static_list<.*>::size$"):
        e = _ret_expr(f)
        ok = None
        if e is not None and e.get("k") == "CallExpr" and (e.get("callee") or "").startswith("std::distance<"):
            names = [(x.get("callee") or "").rsplit("::", 1)[-1] for x in e["c"][1:3] for x in [astq.strip(_ctor_arg(x) if astq.strip(x).get("k") in ("CXXConstructExpr",) else x)]]
            ok = names == ["begin", "end"]
        elif e is not None and e.get("k") == "MemberExpr" and (not e.get("c") or astq.strip(e["c"][0]).get("k") == "CXXThisExpr"):
            ok = True       # a maintained element count: judged by the count rules of push_back / remove
        n_seen += 1
        if ok is None:
            run.broken.append("%s: size() is neither the distance from begin() to end() nor a maintained count" % short(f))
            continue
        run.instance(rule, "%s: size() is the number of steps from begin() to end() (or a count the list operations maintain)" % short(f), (f["file"], f["line"]), ok=ok)
        if not ok:
            run.violation(rule, "static_list::size", "size() returns `%s`" % astq.text(e)[:80], (f["file"], f["line"]))
    if n_seen < 8:
        run.broken.append("catalog enumeration functions: only %d recognised" % n_seen)



# ---------------------------------------------------------------------------
# (17) update's phases

PHASES = ["resolve_static_type_ids", "augment_classes", "augment_methods", "assign_slots", "build_dispatch_tables"]


def phase_rules(run, rule, ast):
    """compile() runs every phase, in order, unconditionally (an empty or partial registry is no excuse: the unknown-class
    diagnostics, the hash search and the installation all live in them); update() compiles, then installs."""
    for f in by_name(ast, "compile"):
        byid, parent = astq.index_nodes(f)
        calls = [n for n in astq.walk(f["body"]) if n.get("k") == "CXXMemberCallExpr" and re.search(r"compiler<.*>::(%s)$" % "|".join(PHASES), n.get("callee") or "")]
        names = [re.search(r"::(\w+)$", n["callee"]).group(1) for n in calls]
        cond = [n for n in calls if _enclosing(parent, n, ("IfStmt", "ForStmt", "WhileStmt", "CXXForRangeStmt", "SwitchStmt", "ConditionalOperator"))]
        ok = names == PHASES and not cond
        run.instance(rule, "%s: every phase of update runs, in order, unconditionally" % short(f), (f["file"], f["line"]), ok=ok)
        if cond:
            g = _enclosing(parent, cond[0], ("IfStmt", "ForStmt", "WhileStmt", "CXXForRangeStmt", "SwitchStmt", "ConditionalOperator"))[0]
            run.violation(rule, "compiler::compile|conditional-phase", "%s only runs depending on `%s`: what that phase diagnoses or (re)builds is skipped for such a registry" % (
                re.search(r"::(\w+)$", cond[0]["callee"]).group(1), astq.text(g.get("cond"))[:80] if g.get("cond") else g.get("k")), (f["file"], cond[0]["l"]))
        elif not ok:
            run.violation(rule, "compiler::compile|phases", "compile() calls %s; expected %s" % (names, PHASES), (f["file"], f["line"]))
    for f in by_name(ast, "update"):
        byid, parent = astq.index_nodes(f)
        calls = [n for n in astq.walk(f["body"]) if n.get("k") == "CXXMemberCallExpr" and re.search(r"compiler<.*>::(compile|install_global_tables)$", n.get("callee") or "")]
        names = [re.search(r"::(\w+)$", n["callee"]).group(1) for n in calls]
        cond = [n for n in calls if _enclosing(parent, n, ("IfStmt", "ForStmt", "WhileStmt", "CXXForRangeStmt", "SwitchStmt", "ConditionalOperator"))]
        ok = names == ["compile", "install_global_tables"] and not cond
        run.instance(rule, "%s: update compiles, then installs, unconditionally" % short(f), (f["file"], f["line"]), ok=ok)
        if not ok:
            run.violation(rule, "compiler::update|phases", "update() calls %s%s; expected compile then install_global_tables, unconditionally" % (names, " (conditionally)" if cond else ""), (f["file"], f["line"]))
    for f in by_name(ast, "install_global_tables"):
        byid, parent = astq.index_nodes(f)
        calls = [n for n in astq.walk(f["body"]) if n.get("k") == "CXXMemberCallExpr" and re.search(r"compiler<.*>::install_gv$", n.get("callee") or "")]
        ok = len(calls) == 1
        if ok:
            gs = _enclosing(parent, calls[0], ("IfStmt", "ForStmt", "WhileStmt", "CXXForRangeStmt"))
            ok = not gs
        run.instance(rule, "%s: the tables are installed whenever compilation is done" % short(f), (f["file"], f["line"]), ok=ok)
        if not ok:
            run.violation(rule, "compiler::install_global_tables|install", "install_gv is not called exactly once, unconditionally", (f["file"], f["line"]))



# ---------------------------------------------------------------------------
# (18) report.cells / concrete_cells

def cellcount_rules(run, rule, ast):
    """cells = product over ALL dimensions of the number of groups (what build_dispatch_table pushes: one cell per tuple of groups);
    concrete_cells = product of the number of groups with concrete classes; both for multi-methods only, starting from 1."""
    for f in by_name(ast, "build_dispatch_tables"):
        byid, parent = astq.index_nodes(f)
        for field, per_dim in (("cells", "size"), ("concrete_cells", "concrete")):
            init = [n for n in astq.walk(f["body"]) if n.get("k") == "BinaryOperator" and n.get("op") == "=" and astq.strip(n["c"][0]).get("k") == "MemberExpr" and astq.strip(n["c"][0]).get("member") == field]
            mul = [n for n in astq.walk(f["body"]) if n.get("k") == "CompoundAssignOperator" and n.get("op") == "*=" and astq.strip(n["c"][0]).get("k") == "MemberExpr" and astq.strip(n["c"][0]).get("member") == field]
            other = [n for n in astq.walk(f["body"]) if n.get("k") in ("CompoundAssignOperator", "UnaryOperator") and n.get("op") in ("+=", "-=", "++", "--", "/=") and astq.strip(n["c"][0]).get("k") == "MemberExpr" and astq.strip(n["c"][0]).get("member") == field]
            if len(init) != 1 or len(mul) != 1 or other:
                run.broken.append("%s: computation of report.%s not in the form 'start at a value, multiply per dimension'" % (short(f), field))
                continue
            ok0 = astq.affine(init[0]["c"][1]) == {1: 1}
            lp = _enclosing(parent, mul[0], ("CXXForRangeStmt",))
            # the per-dimension groups: the local whose end() - 1 is handed to build_dispatch_table (identified by that use, not by name)
            bdt = [n for n in astq.walk(f["body"]) if n.get("k") == "CXXMemberCallExpr" and (n.get("callee") or "").endswith("::build_dispatch_table")]
            gdids = {x["ref"]["did"] for n in bdt for x in astq.walk(n["c"][3] if len(n.get("c") or []) > 3 else n) if x.get("k") == "DeclRefExpr" and x["ref"].get("storage") == "local"}
            okl = bool(lp) and _members(lp[0]["range"]) == [] and astq.strip(lp[0]["range"]).get("k") == "DeclRefExpr" and astq.strip(lp[0]["range"])["ref"].get("did") in gdids \
                and not [g for g in _enclosing(parent, mul[0], ("IfStmt",)) if _in_subtree(lp[0]["body"], g)]
            # the local `groups` holds one entry per dimension (declared in the method loop, resized to the arity)
            factor = astq.strip(mul[0]["c"][1])
            okf = False
            if lp:
                lv = lp[0]["var"]["did"]
                if per_dim == "size":
                    okf = factor.get("k") == "CXXMemberCallExpr" and (factor.get("callee") or "").endswith("::size") and _refs(factor, lv)
                else:
                    src = factor
                    if factor.get("k") == "DeclRefExpr":
                        d = [x for n in astq.walk(lp[0]["body"]) if n.get("k") == "DeclStmt" for x in n["decls"] if x["did"] == factor["ref"]["did"]]
                        src = astq.strip(d[0]["init"]) if d and d[0].get("init") is not None else factor
                    ci = [x for x in astq.walk(src) if x.get("k") == "CallExpr" and (x.get("callee") or "").startswith("std::count_if<")]
                    if ci:
                        lam = [x for x in astq.walk(ci[0]) if x.get("k") == "LambdaExpr"]
                        pred = False
                        for l0 in lam:
                            for sp in (l0["lambda"].get("specializations") or []):
                                bd = sp if sp.get("k") else sp.get("body")
                                rs = [x for x in astq.walk(bd) if x.get("k") == "ReturnStmt" and x.get("c")]
                                if len(rs) == 1:
                                    e = astq.strip(rs[0]["c"][0])
                                    pred = e.get("k") == "MemberExpr" and e.get("member") == "has_concrete_classes"
                        okf = pred and _refs(ci[0]["c"][1], lv) and _refs(ci[0]["c"][2], lv)
            # multi-methods only
            gs = _enclosing(parent, init[0], ("IfStmt",))
            okm = any(astq.eval_int_cond(g["cond"], lambda n: "arity" if (n.get("k") == "CXXMemberCallExpr" and (n.get("callee") or "").endswith("::arity")) else None, {"arity": 2}) is True and
                      astq.eval_int_cond(g["cond"], lambda n: "arity" if (n.get("k") == "CXXMemberCallExpr" and (n.get("callee") or "").endswith("::arity")) else None, {"arity": 1}) is False for g in gs)
            ok = ok0 and okl and okf and okm
            run.instance(rule, "%s: report.%s = product over every dimension of the number of %sgroups, for multi-methods" % (short(f), field, "" if per_dim == "size" else "concrete "), (f["file"], mul[0]["l"]), ok=ok)
            if not ok:
                why = "does not start at 1" if not ok0 else "is not multiplied once per dimension (loop over all of `groups`, unconditionally)" if not okl else \
                    ("the factor is `%s`, not the dimension's %s" % (astq.text(factor)[:60], "group count" if per_dim == "size" else "count of groups with concrete classes")) if not okf else "is not restricted to methods with two or more virtual parameters"
                run.violation(rule, "compiler::build_dispatch_tables|%s" % field, "report.%s %s" % (field, why), (f["file"], mul[0]["l"]))



def group_concrete_rules(run, rule, ast):
    """a group of classes has concrete classes iff ANY of its classes is not abstract: the flag is accumulated for every class
    that joins a group, not decided by the class that happens to create the group"""
    for f in by_name(ast, "build_dispatch_tables"):
        byid, parent = astq.index_nodes(f)
        stores = [n for n in astq.walk(f["body"]) if ((n.get("k") == "BinaryOperator" and n.get("op") == "=") or (n.get("k") == "CompoundAssignOperator" and n.get("op") == "|=")) and
                  astq.strip(n["c"][0]).get("k") == "MemberExpr" and astq.strip(n["c"][0]).get("member") == "has_concrete_classes"]
        cls_loops = [lp for lp in astq.walk(f["body"]) if lp.get("k") == "CXXForRangeStmt" and _members(lp["range"])[:1] == ["covariant_classes"]]
        ok = False
        why = "no accumulation of has_concrete_classes in the loop over a parameter's covariant classes"
        for n in stores:
            lps = [lp for lp in cls_loops if _in_subtree(lp["body"], n)]
            if not lps:
                continue
            lv = lps[0]["var"]["did"]
            rhs = n["c"][1]
            uses_abs = any(x.get("k") == "MemberExpr" and x.get("member") == "is_abstract" and _refs(x, lv) for x in astq.walk(rhs))
            ifs = [i for i in _enclosing(parent, n, ("IfStmt",)) if _in_subtree(lps[0]["body"], i)]
            if n.get("k") == "CompoundAssignOperator" and uses_abs and not ifs:
                ok = astq.canon(rhs)[0] == "not"
            elif n.get("k") == "BinaryOperator" and uses_abs and not ifs:
                r0 = astq.strip(rhs)
                ok = r0.get("k") == "BinaryOperator" and r0.get("op") == "||" and any(x.get("k") == "MemberExpr" and x.get("member") == "has_concrete_classes" for x in astq.walk(r0)) and \
                    any(astq.canon(side)[0] == "not" and "is_abstract" in str(astq.canon(side)) for side in r0["c"])
            elif n.get("k") == "BinaryOperator" and len(ifs) == 1 and astq.strip(rhs).get("k") == "CXXBoolLiteralExpr" and astq.strip(rhs).get("v"):
                cf = astq.canon(ifs[0]["cond"])
                ok = cf[0] == "not" and "is_abstract" in str(cf) and _refs(ifs[0]["cond"], lv) and _in_subtree(ifs[0].get("then"), n)
            if not ok:
                why = "`%s` is not 'flag = flag || !class->is_abstract' for the class joining the group" % astq.text(n)[:80]
            else:
                break
        run.instance(rule, "%s: a group's has_concrete_classes is accumulated over every class that joins it" % short(f), (f["file"], (stores or [f["body"]])[0].get("l", f["line"])), ok=ok)
        if not ok:
            run.violation(rule, "compiler::build_dispatch_tables|group-concreteness", "%s: a group whose first class is abstract but which also holds concrete classes counts as abstract, and the concrete-only figures of the report are too low" % why, (f["file"], (stores or [f["body"]])[0].get("l", f["line"])))



def record_rules(run, rule, ast):
    """add_function<F> of method M registers through ONE record per (M, F): a function-local static of that instantiation (or a
    variable keyed by the method). A record keyed by the function alone is shared by every method the function is added to:
    the second method's registration is taken for 'already registered' and dropped."""
    n = 0
    for f in [f for f in ast.funcs if f.get("body") and re.search(r"add_function<.*>::add_function$", f["name"])]:
        pb = [x for x in astq.walk(f["body"]) if x.get("k") == "CXXMemberCallExpr" and re.search(r"static_list<.*>::push_back$", x.get("callee") or "")]
        if len(pb) != 1:
            continue
        arg = astq.strip(pb[0]["c"][1])
        if arg.get("k") != "DeclRefExpr":
            run.broken.append("%s: the record pushed is not a plain variable" % short(f)[:100])
            continue
        st = arg["ref"].get("storage")
        meth = re.sub(r"::add_function<.*$", "", f["name"])
        ok = st == "static-local" or (st == "global" and meth in arg["ref"]["name"])
        n += 1
        run.instance(rule, "%s: the registration record belongs to this (method, function) pair" % short(f)[:120], (f["file"], pb[0]["l"]), ok=ok)
        if not ok:
            run.violation(rule, "method::add_function|record-key", "%s registers through `%s` (%s), a record that is not keyed by the method: adding the same function to a second method finds it 'already registered' and registers nothing" % (
                short(f)[:100], arg["ref"]["name"][:80], st), (f["file"], pb[0]["l"]))
    if not n:
        run.broken.append("no add_function instantiation with a recognisable registration record")



# ---------------------------------------------------------------------------
# (19) the hash search and repeated ids

def hash_bucket_table(f):
    """decision table of the scan body of hash_initialize over the three states of the probed bucket:
    'free' (holds the empty marker), 'same' (already holds the id being placed), 'other' (holds another id).
    -> {state: set of events 'bucket-write' / 'found=false'} or None when the body is not classifiable."""
    loops = _idloops(f)
    if len(loops) != 1:
        return None
    outer, inner = loops[0]
    bparam = f["params"][2]["did"]
    flags = [d for n in astq.walk(f["body"]) if n.get("k") == "DeclStmt" for d in n["decls"] if d["type"] == "bool" and not d.get("const")]
    if not flags:
        return None
    fd = flags[0]["did"]
    # the id being placed: a local of the inner loop body initialised by dereferencing the id iterator
    ids = {d["did"] for n in astq.walk(inner["body"]) if n.get("k") == "DeclStmt" for d in n["decls"] if d.get("init") is not None and any(
        x.get("k") in ("UnaryOperator", "CXXOperatorCallExpr") and (x.get("op") == "*" or x.get("oop") == "*") for x in astq.walk(d["init"]))}

    def is_bucket(n):
        n = astq.strip(n)
        return n is not None and n.get("k") == "CXXOperatorCallExpr" and n.get("oop") == "[]" and astq.strip(n["c"][1]).get("k") == "DeclRefExpr" and astq.strip(n["c"][1])["ref"]["did"] == bparam

    def ev(c, state):
        c0 = astq.strip(c)
        k = c0.get("k")
        if k == "UnaryOperator" and c0.get("op") == "!":
            v = ev(c0["c"][0], state)
            return None if v is None else (not v)
        if k == "BinaryOperator" and c0.get("op") in ("&&", "||"):
            a, b = ev(c0["c"][0], state), ev(c0["c"][1], state)
            if a is None or b is None:
                return None
            return (a and b) if c0["op"] == "&&" else (a or b)
        if k == "BinaryOperator" and c0.get("op") in ("==", "!="):
            for x, y in ((c0["c"][0], c0["c"][1]), (c0["c"][1], c0["c"][0])):
                if is_bucket(x):
                    y0 = astq.strip(y)
                    if y0.get("k") == "DeclRefExpr" and y0["ref"].get("did") in ids:
                        eq = state == "same"
                    elif y0.get("cv") in (-1, 2 ** 64 - 1) or "cv" in y0:
                        eq = state == "free"
                    else:
                        return None
                    return eq if c0["op"] == "==" else (not eq)
        return None

    def want(n):
        if n.get("k") == "BinaryOperator" and n.get("op") == "=":
            l = astq.strip(n["c"][0])
            return (l.get("k") == "DeclRefExpr" and l["ref"]["did"] == fd) or is_bucket(l)
        return False
    out = {}
    for state in ("free", "same", "other"):
        ps = astq.enum_paths(inner["body"], lambda c, state=state: ev(c, state), want)
        evs = set()
        for p in ps:
            for _, n in p["events"]:
                l = astq.strip(n["c"][0])
                if l.get("k") == "DeclRefExpr":
                    v = astq.strip(n["c"][1])
                    evs.add("found=%s" % ("true" if v.get("v") else "false"))
                else:
                    evs.add("bucket-write")
        out[state] = evs
    return out



# ---------------------------------------------------------------------------
# (20) visit marks; the registered abstract flag

def mark_rules(run, rule, ast):
    """every traversal that marks classes as visited draws its mark from the compiler's one counter, freshly incremented
    (`++class_mark`): a mark taken from anywhere else can equal one a later traversal uses, and that traversal then skips classes"""
    n_seen = 0
    for f in ast.funcs:
        if not f.get("body") or not re.search(r"compiler<.*>::\w+$", f["name"]):
            continue
        decls = {d["did"]: d for n in astq.walk(f["body"]) if n.get("k") == "DeclStmt" for d in n["decls"]}
        uses = []
        for n in astq.walk(f["body"]):
            if n.get("k") == "BinaryOperator" and n.get("op") in ("=", "==", "!="):
                sides = [astq.strip(x) for x in n["c"]]
                if any(x.get("k") == "MemberExpr" and x.get("member") == "mark" for x in sides):
                    other = [x for x in sides if not (x.get("k") == "MemberExpr" and x.get("member") == "mark")]
                    if other:
                        uses.append((n, other[0]))
        for n, o in uses:
            ok = False
            src = None
            if o.get("k") == "MemberExpr" and o.get("member") == "class_mark":
                ok = True
            elif o.get("k") == "DeclRefExpr" and o["ref"].get("did") in decls:
                did = o["ref"]["did"]
                # every value the local ever gets: its initialiser and all assignments; each must be `++class_mark`
                vals = [decls[did].get("init")] + [x["c"][1] for x in astq.walk(f["body"]) if x.get("k") == "BinaryOperator" and x.get("op") == "=" and astq.strip(x["c"][0]).get("k") == "DeclRefExpr" and astq.strip(x["c"][0])["ref"].get("did") == did]
                muts = [x for x in astq.walk(f["body"]) if x.get("k") in ("UnaryOperator", "CompoundAssignOperator") and x.get("op") in ("++", "--", "+=", "-=") and astq.strip(x["c"][0]).get("k") == "DeclRefExpr" and astq.strip(x["c"][0])["ref"].get("did") == did]

                def fresh(v):
                    v = astq.strip(v) if v is not None else None
                    return v is not None and v.get("k") == "UnaryOperator" and v.get("op") == "++" and not v.get("postfix") and astq.strip(v["c"][0]).get("k") == "MemberExpr" and astq.strip(v["c"][0]).get("member") == "class_mark"
                ok = all(fresh(v) for v in vals) and not muts
                src = "a local that is not always `++class_mark`"
            n_seen += 1
            run.instance(rule, "%s: a visit mark is the compiler's counter, freshly incremented" % short(f), (f["file"], n["l"]), ok=ok)
            if not ok:
                run.violation(rule, "compiler::%s|mark-source" % f["name"].rsplit("::", 1)[1], "`%s` uses %s as visit mark: marks not drawn from ++class_mark can collide with the mark of a later traversal (assign_slots), which then takes fresh classes for visited" % (
                    astq.text(n)[:60], src or "`%s`" % astq.text(o)[:40]), (f["file"], n["l"]))
    if n_seen < 4:
        run.broken.append("visit marks: only %d uses recognised" % n_seen)


def abstract_flag_rules(run, rule, ast):
    """a class is registered as abstract exactly when std::is_abstract says so (the report's concrete-only figures and nothing else
    depend on it)"""
    n_seen = 0
    for f in ast.funcs:
        if not f.get("body") or not re.search(r"class_declaration_aux<.*>::class_declaration_aux$", f["name"]):
            continue
        for n in astq.walk(f["body"]):
            if n.get("k") == "BinaryOperator" and n.get("op") == "=" and astq.strip(n["c"][0]).get("k") == "MemberExpr" and astq.strip(n["c"][0]).get("member") == "is_abstract":
                r = astq.strip(n["c"][1])
                ok = r.get("k") == "DeclRefExpr" and re.match(r"^std::is_abstract_v<", r["ref"]["name"]) is not None or (r.get("k") in ("DeclRefExpr", "MemberExpr") and re.search(r"std::is_abstract<.*>::value$", astq.refname(r) or "") is not None)
                n_seen += 1
                run.instance(rule, "%s: is_abstract = std::is_abstract_v<Class>" % short(f)[:100], (f["file"], n["l"]), ok=ok)
                if not ok:
                    run.violation(rule, "class_declaration_aux|is_abstract", "a class is registered as abstract from `%s`, not from std::is_abstract_v<Class>: classes that can have objects are left out of the concrete-only figures" % astq.text(r)[:80], (f["file"], n["l"]))
    if not n_seen:
        run.broken.append("class_declaration_aux: assignment of is_abstract not found")


def facet_rules(run, rule, floor=6):
    """E3: has_facet is asked of the final policy class. Facets mixed in by inheritance next to a rebound stock policy (the
    idiom of the library's own benchmarks: `struct P : default_static::rebind<P>, policy::basic_indirect_vptr<P> {}`) are seen,
    removed ones are not. Every `if constexpr (has_facet<...>)` of the library selects its code by this predicate, so this is
    a necessary condition of whatever the selected code establishes (error reporting, indirect v-table pointers, hashing)."""
    from . import e3
    fu = e3.Unit("facets_" + rule.replace("-", "_").lower(), """
#include <yorel/yomm2/core.hpp>
using namespace yorel::yomm2;
namespace yvf {
struct inh_throw : policy::release::rebind<inh_throw>::remove<policy::error_handler>, policy::throw_error {};
struct inh_vec : policy::release::rebind<inh_vec>::remove<policy::error_handler>, policy::vectored_error<inh_vec> {};
struct inh_checks : policy::release::rebind<inh_checks>, policy::runtime_checks {};
struct inh_ind : policy::release::rebind<inh_ind>, policy::basic_indirect_vptr<inh_ind> {};
struct inh_hash : policy::release::rebind<inh_hash>::remove<policy::type_hash>, policy::fast_perfect_hash<inh_hash> {};
struct none : policy::release::rebind<none>::remove<policy::error_handler> {};
struct nohash : policy::release::rebind<nohash>::remove<policy::type_hash> {};
}
using namespace yvf;
""")
    fu.add("has_facet|inherited|throw_error", "a policy that inherits policy::throw_error has the error_handler facet", "static_assert(inh_throw::has_facet<policy::error_handler>);")
    fu.add("has_facet|inherited|vectored_error", "a policy that inherits vectored_error<P> has the error_handler facet", "static_assert(inh_vec::has_facet<policy::error_handler>);")
    fu.add("has_facet|inherited|runtime_checks", "a policy that inherits runtime_checks has that facet", "static_assert(inh_checks::has_facet<policy::runtime_checks>);")
    fu.add("has_facet|inherited|indirect_vptr", "a policy that inherits basic_indirect_vptr<P> has the indirect_vptr facet (library-wide and member predicate agree)", "static_assert(inh_ind::has_facet<policy::indirect_vptr> && policy::has_facet<inh_ind, policy::indirect_vptr>);")
    fu.add("has_facet|inherited|type_hash", "a policy that inherits fast_perfect_hash<P> has the type_hash facet", "static_assert(inh_hash::has_facet<policy::type_hash> && policy::has_facet<inh_hash, policy::type_hash>);")
    fu.add("has_facet|removed", "a policy whose error handler was removed (and none added) has no error_handler facet", "static_assert(!none::has_facet<policy::error_handler>);")
    fu.add("has_facet|removed|type_hash", "a policy whose type_hash was removed has no type_hash facet, and keeps its v-table placement", "static_assert(!nohash::has_facet<policy::type_hash> && !policy::has_facet<nohash, policy::type_hash> && nohash::has_facet<policy::external_vptr>);")
    if rule not in run.rules:
        run.rule(rule, "has_facet is asked of the final policy class: facets added by inheritance are seen, removed ones are not", floor=floor)
    for ob, ok, msg in e3.run_unit(run, rule, fu):
        if not ok:
            run.violation(rule, ob["key"], "%s: %s" % (ob["desc"], msg), "include/yorel/yomm2/policies/core.hpp")


def dedup_rules(run, rule, ast):
    """augment_classes, de-duplication step: per class, the raw list of recorded bases (duplicates from repeated and redundant
    registrations) is filtered into a duplicate-free one, and the class's weight - what orders the bases before direct bases are
    extracted - is the size of the duplicate-free list. Typestate over the two containers (the member list M, a local L) through
    the straight-line statements of the per-class loop: raw / dedup / empty; swap exchanges states, assignment copies them.
    The weight must be read from a container in state `dedup`, and M must end in state `dedup`."""
    for f in by_name(ast, "augment_classes"):
        done = False
        for lp in astq.walk(f["body"]):
            if lp.get("k") not in ("CXXForRangeStmt", "ForStmt") or lp.get("body") is None or lp["body"].get("k") != "CompoundStmt":
                continue
            stmts = lp["body"].get("c") or []
            wsets = [st for st in stmts if (astq.strip(st) or {}).get("k") == "BinaryOperator" and astq.strip(st).get("op") == "=" and
                     (astq.strip(astq.strip(st)["c"][0]) or {}).get("k") == "MemberExpr" and astq.strip(astq.strip(st)["c"][0]).get("member") == "weight"]
            if not wsets:
                continue
            done = True

            def cont(e):
                e = astq.strip(e)
                if e is None:
                    return None
                if e.get("k") == "DeclRefExpr" and e["ref"].get("storage") == "local" and "vector<" in (e.get("t") or e["ref"].get("type") or "vector<"):
                    return ("L", e["ref"]["did"])
                if e.get("k") == "MemberExpr" and e.get("member") == "transitive_bases":
                    return ("M", 0)
                return None
            state = {("M", 0): "raw"}
            weight_from = None
            unknown = []
            for st in stmts:
                e = astq.strip(st) if st.get("k") != "DeclStmt" else st
                k = e.get("k")
                if k == "DeclStmt":
                    for d in e["decls"]:
                        if "vector<" in (d.get("type") or ""):
                            ini = astq.strip(d.get("init")) if d.get("init") is not None else None
                            src = None
                            if ini is not None:
                                for x in astq.walk(ini):
                                    if cont(x) is not None:
                                        src = cont(x)
                            state[("L", d["did"])] = state.get(src, "empty") if src else "empty"
                    continue
                if k in ("CXXForRangeStmt", "ForStmt", "WhileStmt"):
                    pushes = [n for n in astq.walk(e) if n.get("k") == "CXXMemberCallExpr" and (n.get("callee") or "").endswith("::push_back") and cont(astq.strip(n["c"][0])["c"][0] if astq.strip(n["c"][0]).get("k") == "MemberExpr" else None) is not None]
                    for n in pushes:
                        tgt = cont(astq.strip(n["c"][0])["c"][0])
                        cds = _cdep_conds(f, n) or []
                        guarded = any(cn is not None and cls not in ("loop", "trace") and any(x.get("k") == "MemberExpr" and x.get("member") == "mark" for x in astq.walk(cn)) for cls, cn, blk in cds)
                        state[tgt] = "dedup" if guarded and state.get(tgt) in ("empty", "dedup") else "raw"
                    if not pushes and any(cont(x) is not None for x in astq.walk(e["body"])):
                        unknown.append(e)
                    continue
                if k == "CXXMemberCallExpr" and (e.get("callee") or "").endswith("::swap"):
                    a = cont(astq.strip(e["c"][0])["c"][0]) if astq.strip(e["c"][0]).get("k") == "MemberExpr" else None
                    b = cont(e["c"][1]) if len(e["c"]) > 1 else None
                    if a is None or b is None:
                        unknown.append(e)
                    else:
                        state[a], state[b] = state.get(b), state.get(a)
                    continue
                if k == "CallExpr" and re.match(r"^std::swap<", e.get("callee") or "") and len(e["c"]) == 3:
                    a, b = cont(e["c"][1]), cont(e["c"][2])
                    if a is None or b is None:
                        unknown.append(e)
                    else:
                        state[a], state[b] = state.get(b), state.get(a)
                    continue
                if k == "BinaryOperator" and e.get("op") == "=" and (astq.strip(e["c"][0]) or {}).get("k") == "MemberExpr" and astq.strip(e["c"][0]).get("member") == "weight":
                    r = astq.strip(e["c"][1])
                    c = None
                    if r is not None and r.get("k") == "CXXMemberCallExpr" and (r.get("callee") or "").endswith("::size"):
                        c = cont(astq.strip(r["c"][0])["c"][0])
                    weight_from = (c, state.get(c) if c else None, e)
                    continue
                if k == "CXXOperatorCallExpr" and e.get("oop") == "=" and cont(e["c"][1]) is not None:
                    srcs = [cont(x) for x in astq.walk(e["c"][2]) if cont(x) is not None]
                    if len(srcs) == 1:
                        state[cont(e["c"][1])] = state.get(srcs[0])
                    else:
                        unknown.append(e)
                    continue
                if any(cont(x) is not None for x in astq.walk(e)):
                    unknown.append(e)
            if unknown:
                run.broken.append("%s: the de-duplication step touches the base lists in a way the rule does not model (`%s`)" % (short(f), astq.text(unknown[0])[:60]))
                continue
            okw = weight_from is not None and weight_from[1] == "dedup"
            run.instance(rule, "%s: a class's weight is the size of its duplicate-free list of bases" % short(f), (f["file"], wsets[0]["l"]), ok=okw)
            if not okw:
                run.violation(rule, "compiler::augment_classes|weight-source", "the weight is read from %s: it then counts every repeated record of a base, a much-registered class can sort before its own descendant and become a spurious direct base" % (
                    "a list in state `%s`" % weight_from[1] if weight_from and weight_from[0] else "something other than the size of a base list"), (f["file"], wsets[0]["l"]))
            okm = state.get(("M", 0)) == "dedup"
            run.instance(rule, "%s: the class's list of bases is duplicate-free after the step" % short(f), (f["file"], lp["l"]), ok=okm)
            if not okm:
                run.violation(rule, "compiler::augment_classes|dedup-installed", "after the de-duplication step the class's base list is in state `%s`" % state.get(("M", 0)), (f["file"], lp["l"]))
        if not done:
            run.broken.append("%s: the per-class step that sets the weight was not found" % short(f))


def handler_api_rules(run, rule):
    """the error-handler API around the report: (1) set_error_handler / set_method_call_error_handler return the handler that was
    installed BEFORE the call (a copy taken before the store, or std::exchange) - save / restore sequences put the right handler
    back; (2) the initial handler of vectored_error<P, Provider> is Provider::default_error_handler (vectored_error<P>'s own when
    no provider is given): a policy configured with an external provider reports through it from the first call."""
    from . import witness
    src = witness.PRELUDE + """
namespace yh { struct prov { static void default_error_handler(const error_type&); };
struct P : policy::basic_policy<P, policy::std_rtti, policy::fast_perfect_hash<P>, policy::vptr_vector<P>, policy::vectored_error<P, prov>> {};
struct Q : policy::basic_policy<Q, policy::std_rtti, policy::fast_perfect_hash<Q>, policy::vptr_vector<Q>, policy::vectored_error<Q>> {};
void use() { auto a = set_error_handler(nullptr); auto b = set_method_call_error_handler(nullptr); (void)a; (void)b; P::error(error_type()); Q::error(error_type()); policy::release::error(error_type()); } }
"""
    ast = astq.Ast(common.ast_json(run, src, "handler_api", funcs="set_error_handler|set_method_call_error_handler|vectored_error<"))
    n = 0
    for f in ast.funcs:
        if not f.get("body") or not re.search(r"yomm2::set_(method_call_)?error_handler$", f["name"]):
            continue
        n += 1
        hp = f["params"][0]["did"]
        stmts = f["body"].get("c") or []
        store = None
        for k, st in enumerate(stmts):
            e = astq.strip(st) if st.get("k") != "DeclStmt" else None
            if e is not None and e.get("k") in ("BinaryOperator", "CXXOperatorCallExpr") and (e.get("op") == "=" or e.get("oop") == "="):
                lhs, rhs = (e["c"][0], e["c"][1]) if e.get("k") == "BinaryOperator" else (e["c"][1], e["c"][2])
                if _refs(rhs, hp) and (astq.refname(astq.strip(lhs)) or "").split("::")[-1] in ("error", "call_error"):
                    store = (k, astq.strip(lhs))
        rets = [x for x in astq.walk(f["body"]) if x.get("k") == "ReturnStmt" and x.get("c")]
        ok, why = False, "shape not recognised"
        if len(rets) == 1:
            r = astq.strip(rets[0]["c"][0])
            while r is not None and r.get("k") == "CXXConstructExpr" and len(r.get("c") or []) == 1:
                r = astq.strip(r["c"][0])           # copy / move construction of the returned std::function
            if r.get("k") == "CallExpr" and re.match(r"^std::exchange<", r.get("callee") or "") and _refs(r["c"][2], hp):
                ok = True
            elif r.get("k") == "DeclRefExpr" and r["ref"].get("storage") == "local" and store is not None:
                decl = [(k, d) for k, st in enumerate(stmts) if st.get("k") == "DeclStmt" for d in st["decls"] if d.get("did") == r["ref"]["did"]]
                if decl:
                    k, d = decl[0]
                    slot = astq.refname(store[1])
                    reads_slot = d.get("init") is not None and any((astq.refname(x) or "") == slot for x in astq.walk(d["init"]))
                    is_ref = (d.get("type") or "").rstrip().endswith("&")
                    ok = reads_slot and not is_ref and k < store[0]
                    why = "the returned variable is a reference to the handler slot (it reads the NEW handler after the store)" if (is_ref and reads_slot) else \
                          "the returned variable is a copy of the slot taken AFTER the store" if (reads_slot and k > store[0]) else "shape not recognised"
            elif r.get("k") == "DeclRefExpr" and r["ref"]["did"] == hp and store is None:
                # swap(slot, handler); return handler;
                sw = [x for x in astq.walk(f["body"]) if x.get("k") in ("CallExpr", "CXXMemberCallExpr") and re.search(r"(^std::swap<|::swap$)", x.get("callee") or "") and _refs(x, hp)
                      and any((astq.refname(y) or "").split("::")[-1] in ("error", "call_error") for y in astq.walk(x))]
                ok = len(sw) == 1 and sw[0]["l"] <= rets[0]["l"]
            elif store is not None and (astq.refname(r) or "") == (astq.refname(store[1]) or "-") and r.get("k") in ("DeclRefExpr", "MemberExpr"):
                why = "the handler slot itself is returned after the new handler was stored in it"
        run.instance(rule, "%s returns the handler installed before the call" % f["name"].split("yomm2::")[-1], (f["file"], f["line"]), ok=ok)
        if not ok:
            if why == "shape not recognised":
                run.broken.append("%s: %s" % (f["name"], why))
            else:
                run.violation(rule, "%s|previous" % f["name"].split("yomm2::")[-1], "%s: %s - a caller that saves the result and restores it later re-installs the wrong handler" % (f["name"].split("yomm2::")[-1], why), (f["file"], f["line"]))
    if n < 2:
        run.broken.append("handler setters not found in the unit (%d)" % n)
    m = 0
    for v in ast.vars:
        mm = re.search(r"vectored_error<(yh::[PQ])(?:, (yh::prov|void))?>::error$", v["name"])
        if not mm or v.get("init") is None:
            continue
        m += 1
        want = "yh::prov::default_error_handler" if mm.group(2) == "yh::prov" else "vectored_error<%s, void>::default_error_handler" % mm.group(1)
        refs = [astq.refname(x) or "" for x in astq.walk(v["init"]) if x.get("k") == "DeclRefExpr"]
        got = [r for r in refs if r.endswith("::default_error_handler")]
        ok = len(got) == 1 and got[0].replace("yorel::yomm2::policy::", "").replace(" ", "") == want.replace(" ", "")
        run.instance(rule, "the initial handler of %s is %s" % (v["name"].split("policy::")[-1], want), (v["file"], v["line"]), ok=ok)
        if not ok:
            run.violation(rule, "vectored_error::error|initial|%s" % ("provider" if mm.group(2) == "yh::prov" else "own"), "the initial handler of %s is `%s`, expected %s: a policy configured with a handler provider reports through another handler" % (
                v["name"].split("policy::")[-1], got[0] if got else "?", want), (v["file"], v["line"]))
    if m < 2:
        run.broken.append("initialisers of vectored_error<...>::error not found in the unit (%d)" % m)


def publish_range_rules(run, rule, ast):
    """install_gv publishes the v-table pointers over the compiler's own (merged) classes - each with ALL the ids of the class and
    the one static v-table pointer install_gv has just set - not over the raw registration records (one id each, and for a class
    known under several ids a static v-table pointer of its own that nobody set)."""
    for f in by_name(ast, "install_gv"):
        calls = [n for n in astq.walk(f["body"]) if n.get("k") in ("CallExpr", "CXXMemberCallExpr") and "publish_vptrs" in (n.get("callee") or "")]
        if not calls:
            # policies without external v-table pointers publish nothing
            continue
        for c in calls:
            args = c["c"][1:3]
            own = all(any(x.get("k") == "MemberExpr" and x.get("member") == "classes" and any(y.get("k") == "CXXThisExpr" for y in astq.walk(x)) for x in astq.walk(a)) for a in args)
            glob = [astq.refname(x) for a in args for x in astq.walk(a) if x.get("k") == "DeclRefExpr" and x["ref"].get("storage") == "global" and x["ref"].get("dk") == "Var"]
            ok = own and not glob
            if not ok and glob and all(g.endswith("::classes") for g in glob):
                # over the registration records: equivalent once every record's own static v-table pointer has been installed
                # (an unconditional loop over the records, before the publication) - each record then carries its id and a set pointer
                prop = []
                for lp in astq.walk(f["body"]):
                    if lp.get("k") == "CXXForRangeStmt" and lp["l"] < c["l"] and any((astq.refname(x) or "").endswith("::classes") and x.get("k") == "DeclRefExpr" and x["ref"].get("storage") == "global" for x in astq.walk(lp["range"])):
                        lv = lp["var"]["did"]
                        for n in astq.walk(lp["body"]):
                            if n.get("k") == "BinaryOperator" and n.get("op") == "=":
                                l = astq.strip(n["c"][0])
                                if l is not None and l.get("k") == "UnaryOperator" and l.get("op") == "*" and any(x.get("k") == "MemberExpr" and x.get("member") == "static_vptr" and _refs(x, lv) for x in astq.walk(l)):
                                    if not [cd for cd in (_cdep_conds(f, n) or []) if cd[0] not in ("loop", "trace")]:
                                        prop.append(n)
                if prop:
                    ok = True
            run.instance(rule, "%s: v-table pointers are published over the compiler's merged classes, or over the records after every record's pointer was installed" % short(f), (f["file"], c["l"]), ok=ok)
            if not ok:
                if not own and not glob:
                    run.broken.append("%s: the range handed to publish_vptrs is not recognised (`%s`)" % (short(f), astq.text(args[0])[:60]))
                else:
                    run.violation(rule, "compiler::install_gv|publish-range", "publish_vptrs ranges over `%s` while the records' own static v-table pointers are not (all, unconditionally) installed before: the registration records carry one id each and, for a class known under several ids, a static v-table pointer of their own" % (
                        (glob[0] if glob else astq.text(args[0]))[:80]), (f["file"], c["l"]))


def basemap_rules(run, rule, floor=5):
    """E3: the compile-time base list of a registered class is `the listed classes that are its bases` in the sense of
    std::is_base_of - also a base that is repeated (ambiguous), private or virtual: the run-time lattice, and with it the slot
    reservation in every base, is built from these lists."""
    from . import e3
    u = e3.Unit("basemap_" + rule.replace("-", "_").lower(), """
#include <yorel/yomm2/core.hpp>
using namespace yorel::yomm2;
namespace bm { struct X { virtual ~X() {} }; struct P1 : X {}; struct P2 : X {}; struct Z : P1, P2 {}; struct Y { virtual ~Y() {} }; struct ZY : P1, P2, Y {};
struct Priv : private X {}; struct V1 : virtual X {}; struct V2 : virtual X {}; struct D : V1, V2 {}; }
using namespace bm;
using detail::types;
""")
    u.add("basemap|repeated", "a repeated (ambiguous) non-virtual base is listed", "static_assert(std::is_same_v<detail::inheritance_map<X, P1, P2, Z>, types<types<X, X>, types<P1, X, P1>, types<P2, X, P2>, types<Z, X, P1, P2, Z>>>);")
    u.add("basemap|repeated+other-root", "... also next to a second root", "static_assert(std::is_same_v<detail::inheritance_map<X, P1, P2, ZY, Y>, types<types<X, X>, types<P1, X, P1>, types<P2, X, P2>, types<ZY, X, P1, P2, ZY, Y>, types<Y, Y>>>);")
    u.add("basemap|private", "a private base is listed", "static_assert(std::is_same_v<detail::inheritance_map<X, Priv>, types<types<X, X>, types<Priv, X, Priv>>>);")
    u.add("basemap|virtual", "virtual bases are listed once", "static_assert(std::is_same_v<detail::inheritance_map<X, V1, V2, D>, types<types<X, X>, types<V1, X, V1>, types<V2, X, V2>, types<D, X, V1, V2, D>>>);")
    u.add("basemap|unrelated", "an unrelated class is not listed", "static_assert(std::is_same_v<detail::inheritance_map<X, Y>, types<types<X, X>, types<Y, Y>>>);")
    u.add("basemap|order", "bases are listed in list order, whatever the position of the class", "static_assert(std::is_same_v<detail::inheritance_map<Z, P2, X, P1>, types<types<Z, Z, P2, X, P1>, types<P2, P2, X>, types<X, X>, types<P1, X, P1>>>);")
    if rule not in run.rules:
        run.rule(rule, "the compile-time base list of a class is the listed classes that are its bases (std::is_base_of: repeated, private and virtual bases included)", floor=floor)
    for ob, ok, msg in e3.run_unit(run, rule, u):
        if not ok:
            run.violation(rule, ob["key"], "%s: %s" % (ob["desc"], msg), "include/yorel/yomm2/detail.hpp")


def record_vptr_rules(run, rule, ast):
    """a class can have several registration records (several ids: one per shared library, or several C++ classes that the policy's
    type_index projects onto one class), each naming a static v-table pointer variable of its own. The static routes (final,
    make_virtual_shared, the constructor for an object of exactly the static type) read the variable of THEIR record: update
    must install the v-table pointer in every record's variable - either install_gv stores through `record.static_vptr` in a loop
    over the policy's registration records, or the merged class keeps the variables of all its records."""
    for f in by_name(ast, "install_gv"):
        loops = [lp for lp in astq.walk(f["body"]) if lp.get("k") == "CXXForRangeStmt" and any(
            (astq.refname(x) or "").endswith("::classes") and x.get("k") == "DeclRefExpr" and x["ref"].get("storage") == "global" for x in astq.walk(lp["range"]))]
        per_record = []
        for lp in loops:
            lv = lp["var"]["did"]
            for n in astq.walk(lp["body"]):
                if n.get("k") == "BinaryOperator" and n.get("op") == "=":
                    l = astq.strip(n["c"][0])
                    if l is not None and l.get("k") == "UnaryOperator" and l.get("op") == "*" and any(x.get("k") == "MemberExpr" and x.get("member") == "static_vptr" and _refs(x, lv) for x in astq.walk(l)):
                        conds = [c for c in (_cdep_conds(f, n) or []) if c[0] not in ("loop", "trace")]
                        per_record.append((n, conds))
        ok = any(not conds for _, conds in per_record)
        if not ok:
            # alternative: the merged class collects every record's variable
            for g in by_name(ast, "augment_classes"):
                pushes = [n for n in astq.walk(g["body"]) if n.get("k") == "CXXMemberCallExpr" and (n.get("callee") or "").endswith("::push_back") and any(
                    x.get("k") == "MemberExpr" and x.get("member") == "static_vptr" for x in astq.walk(n["c"][1])) ] if g.get("body") else []
                if any(not [c for c in (_cdep_conds(g, n) or []) if c[0] not in ("loop", "trace")] for n in pushes):
                    ok = True
        run.instance(rule, "%s: the static v-table pointer of every registration record of a class is installed (not only the first record's)" % short(f), (f["file"], f["line"]), ok=ok)
        if not ok:
            run.violation(rule, "compiler::install_gv|record-vptrs", "install_gv stores a class's v-table pointer through the static_vptr of the FIRST registration record only (the one augment_classes kept): a class known through several records "
                          "- several ids projected onto one class - leaves the other records' static v-table pointers null; final / make_virtual_shared / the exact-type constructor route of those records then hand out a null v-table pointer", (f["file"], f["line"]))


def postfix_rules(run, rule):
    """the postfix increment of the catalog iterators (`*it++` walks) returns the position BEFORE the step: a copy of *this taken
    before the iterator advances (or std::exchange of the node pointer)."""
    src = """
#include <yorel/yomm2/core.hpp>
using namespace yorel::yomm2;
namespace ypf { void walk() { auto& l = policy::release::classes; auto i = l.begin(); i++; const auto& cl = l; auto j = cl.begin(); j++;
  auto& m = policy::release::methods; auto k = m.begin(); k++; const auto& cm = m; auto q = cm.begin(); q++; } }
"""
    ast = astq.Ast(common.ast_json(run, src, "postfix", funcs="static_list<"))
    n = 0
    for f in _fn(ast, r"static_list<.*>::(const_)?iterator::operator\+\+$"):
        if len(f.get("params") or []) != 1:
            continue
        n += 1
        stmts = f["body"].get("c") or []
        rets = [x for x in astq.walk(f["body"]) if x.get("k") == "ReturnStmt" and x.get("c")]
        ok, why = None, None
        if len(rets) == 1:
            r = astq.strip(rets[0]["c"][0])
            while r is not None and r.get("k") == "CXXConstructExpr" and len(r.get("c") or []) == 1:
                r = astq.strip(r["c"][0])
            adv = [k for k, st in enumerate(stmts) if any((x.get("k") in ("CXXOperatorCallExpr", "CXXMemberCallExpr") and ((x.get("oop") == "++") or (x.get("callee") or "").endswith("::operator++"))) or
                                                           (x.get("k") == "BinaryOperator" and x.get("op") == "=" and (astq.strip(x["c"][0]) or {}).get("member") == "ptr") for x in astq.walk(st))]
            if r is not None and r.get("k") == "DeclRefExpr" and r["ref"].get("storage") == "local":
                decl = [(k, d) for k, st in enumerate(stmts) if st.get("k") == "DeclStmt" for d in st["decls"] if d.get("did") == r["ref"]["did"]]
                if decl and adv:
                    k, d = decl[0]
                    copies_this = d.get("init") is not None and any(x.get("k") == "CXXThisExpr" for x in astq.walk(d["init"])) and not (d.get("type") or "").rstrip().endswith("&")
                    ok = copies_this and k < adv[0]
                    why = "the returned variable is not a copy of *this taken before the step"
            elif r is not None and any((x.get("k") in ("CXXOperatorCallExpr", "CXXMemberCallExpr") and (x.get("oop") == "++" or (x.get("callee") or "").endswith("::operator++"))) for x in astq.walk(r)):
                ok, why = False, "it returns the result of the prefix increment, i.e. the position AFTER the step"
            elif r is not None and r.get("k") == "UnaryOperator" and r.get("op") == "*" and astq.strip(r["c"][0]).get("k") == "CXXThisExpr" and adv:
                ok, why = False, "it returns *this after advancing it"
            elif r is not None and any(x.get("k") == "CallExpr" and re.match(r"^std::exchange<", x.get("callee") or "") for x in astq.walk(rets[0])):
                ok = True
        if ok is None:
            run.broken.append("%s: postfix increment in a form this rule does not classify" % short(f))
            continue
        run.instance(rule, "%s: the postfix increment returns the position before the step" % short(f), (f["file"], f["line"]), ok=ok)
        if not ok:
            run.violation(rule, "static_list::iterator::operator++(int)", "%s: %s - a `*it++` walk skips the first registration and yields the end position as if it were an item" % (short(f), why), (f["file"], f["line"]))
    if n < 2:
        run.broken.append("postfix increments of the catalog iterators not found in the unit (%d)" % n)


def hash_sizing_rules(run, rule, ast):
    """the hash table is sized after the number of KEYS the search places - every id of every class - not after the number of
    classes: with k ids per class a table sized for the classes is k times too small and the search can never succeed."""
    for f in [f for f in _fn(ast, r"fast_perfect_hash<.*>::hash_initialize<") if len(f["params"]) == 3]:
        p0, p1 = f["params"][0]["did"], f["params"][1]["did"]
        # the local the bucket count is derived from: the one whose value (scaled) is shifted down to count bits, or used directly
        cand = []
        for n in astq.walk(f["body"]):
            if n.get("k") == "DeclStmt":
                for d in n["decls"]:
                    ini = d.get("init")
                    if ini is not None and any(x.get("k") == "CallExpr" and (x.get("callee") or "").startswith("std::distance<") and _refs(x, p0) and _refs(x, p1) for x in astq.walk(ini)):
                        cand.append(("classes", d, n))
                    elif "size_t" in (d.get("type") or "") or "long" in (d.get("type") or ""):
                        # an accumulator over the ids
                        acc = [x for x in astq.walk(f["body"]) if x.get("k") in ("CompoundAssignOperator", "UnaryOperator") and x.get("op") in ("+=", "++") and _refs(x["c"][0], d["did"]) and astq.strip(x["c"][0]).get("k") == "DeclRefExpr"]
                        ids = [x for x in acc if x.get("op") == "+=" and any((y.get("callee") or "").endswith(("::type_id_begin", "::type_id_end")) for y in astq.walk(x["c"][1]) if y.get("k") == "CXXMemberCallExpr")]
                        if ids:
                            cand.append(("ids", d, n))
        kinds = {k for k, _, _ in cand}
        if not kinds:
            run.broken.append("%s: the count the table size is derived from was not found" % short(f))
            continue
        ok = "ids" in kinds
        run.instance(rule, "%s: the table is sized after the number of ids to place" % short(f), (f["file"], cand[0][2]["l"]), ok=ok)
        if not ok:
            run.violation(rule, "fast_perfect_hash::hash_initialize|sized-by-classes", "the bucket count is derived from `%s = std::distance(first, last)`, the number of CLASSES, while the scan places every id of every class: "
                          "with several ids per class the table is too small and the search ends in hash_search_error" % cand[0][1]["name"], (f["file"], cand[0][2]["l"]))
