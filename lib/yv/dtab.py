"""Decision tables extracted from compiler<P>::is_more_specific / is_base / best-set consumers (E1 `dtab`).

The per-position predicate of the two ordering functions touches classes only through `!=` / `==`
and membership in `covariant_classes`; so the four relations of (a_i, b_i)
    EQ, A_DERIVED (a_i properly derived from b_i), A_BASE (a_i a proper base of b_i), UNRELATED
form an exhaustive abstract domain. The loop body is evaluated over it by path enumeration."""
from . import astq

RELS = ("EQ", "A_DERIVED", "A_BASE", "UNRELATED")


class Unclassifiable(Exception):
    pass


class RegistrationDependent(Unclassifiable):
    """the relation between two classes is read from a list that only holds what registration records name"""
    pass


LISTED_SETS = ("transitive_bases", "direct_bases", "direct_derived")


def _roles(fn):
    """iterator variables -> 'A' / 'B' (initialised from <param0>->vp.begin() / <param1>->vp.begin())."""
    params = [p["did"] for p in fn["params"]]
    roles = {}
    for n in astq.walk(fn["body"]):
        if n.get("k") == "DeclStmt":
            for d in n["decls"]:
                init = d.get("init")
                if init is None:
                    continue
                calls = [x for x in astq.walk(init) if x.get("k") == "CXXMemberCallExpr" and (x.get("callee") or "").endswith("::begin")]
                if calls:
                    base = [x for x in astq.walk(calls[0]) if x.get("k") == "DeclRefExpr" and x["ref"]["did"] in params]
                    if base:
                        roles[d["did"]] = "A" if base[0]["ref"]["did"] == params[0] else "B"
    return roles


def _role_of(n, roles):
    """expression denoting the class at the current position of definition a / b"""
    n = astq.strip(n)
    if n is None:
        return None
    if n.get("k") == "CXXOperatorCallExpr" and n.get("oop") == "*":
        t = astq.strip(n["c"][1])
        if t.get("k") == "DeclRefExpr":
            return roles.get(t["ref"]["did"])
    if n.get("k") == "UnaryOperator" and n.get("op") == "*":
        t = astq.strip(n["c"][0])
        if t.get("k") == "DeclRefExpr":
            return roles.get(t["ref"]["did"])
    if n.get("k") == "DeclRefExpr":
        return roles.get(("val", n["ref"]["did"]))
    return None


def _eval_cond(n, roles, rel):
    """truth of a condition under relation rel (True/False) or raise Unclassifiable."""
    n = astq.strip(n)
    k = n.get("k")
    if k == "UnaryOperator" and n.get("op") == "!":
        return not _eval_cond(n["c"][0], roles, rel)
    if k == "BinaryOperator" and n.get("op") in ("&&", "||"):
        a = _eval_cond(n["c"][0], roles, rel)
        b = _eval_cond(n["c"][1], roles, rel)
        return (a and b) if n["op"] == "&&" else (a or b)
    if k == "BinaryOperator" and n.get("op") in ("==", "!="):
        ra, rb = _role_of(n["c"][0], roles), _role_of(n["c"][1], roles)
        if ra and rb and ra != rb:
            eq = rel == "EQ"
            return eq if n["op"] == "==" else not eq
        raise Unclassifiable("comparison of " + astq.text(n))
    if k == "CXXOperatorCallExpr" and n.get("oop") in ("==", "!="):
        l, r = astq.strip(n["c"][1]), astq.strip(n["c"][2])
        for x, y in ((l, r), (r, l)):
            if x.get("k") == "CXXMemberCallExpr" and (x.get("callee") or "").endswith("::find") and y.get("k") == "CXXMemberCallExpr" and (y.get("callee") or "").endswith("::end"):
                member = _member(x, roles)
                member2 = _member(y, roles)
                if member is None or member2 is None or member[0] != member2[0]:
                    raise Unclassifiable("find/end on different sets: " + astq.text(n))
                owner, elem = member
                if elem is None:
                    raise Unclassifiable("find argument: " + astq.text(n))
                isin = _isin(elem, owner, rel)
                return isin if n["oop"] == "!=" else not isin
            # std::find(owner->S.begin(), owner->S.end(), elem) != owner->S.end()
            if x.get("k") == "CallExpr" and (x.get("callee") or "").startswith("std::find<") and len(x.get("c") or []) >= 4 and y.get("k") == "CXXMemberCallExpr" and (y.get("callee") or "").endswith("::end"):
                b = astq.strip(x["c"][1])
                if b.get("k") == "CXXMemberCallExpr" and (b.get("callee") or "").endswith("::begin"):
                    member = _member(b, roles)
                    member2 = _member(y, roles)
                    elem = _role_of(x["c"][3], roles)
                    if member is None or member2 is None or member[0] != member2[0] or elem is None:
                        raise Unclassifiable("std::find over " + astq.text(n))
                    isin = _isin(elem, member[0], rel)
                    return isin if n["oop"] == "!=" else not isin
        raise Unclassifiable("operator " + astq.text(n))
    if k == "CallExpr" and n.get("callee") in (roles.get("__funcs__") or {}) and roles.get("__depth__", 0) < 2:
        # a helper predicate of the compiler: evaluate its single return expression with the arguments' roles
        g = roles["__funcs__"][n["callee"]]
        gs = [st for st in (g["body"].get("c") or []) if st.get("k") != "NullStmt"]
        if len(gs) == 1 and gs[0].get("k") == "ReturnStmt" and gs[0].get("c"):
            r2 = {"__funcs__": roles["__funcs__"], "__depth__": roles.get("__depth__", 0) + 1}
            for p_, a_ in zip(g["params"], n["c"][1:]):
                ra = _role_of(a_, roles)
                if ra:
                    r2[("val", p_["did"])] = ra
            return _eval_cond(gs[0]["c"][0], r2, rel)
        raise Unclassifiable("helper " + n["callee"].split("::")[-1] + " is not a single return expression")
    if k == "CXXOperatorCallExpr" and n.get("oop") == "()" and roles.get("__depth__", 0) < 2:
        # a local lambda used as helper predicate: its body is local alias declarations and one return expression
        t = astq.strip(n["c"][1]) if len(n.get("c") or []) > 1 else None
        lam = (roles.get("__lambdas__") or {}).get(t["ref"]["did"]) if t is not None and t.get("k") == "DeclRefExpr" else None
        if lam is not None:
            lb = lam["lambda"]["body"]
            gs = [st for st in (lb.get("c") or []) if st.get("k") != "NullStmt"]
            decls = [st for st in gs if st.get("k") == "DeclStmt"]
            rets = [st for st in gs if st.get("k") == "ReturnStmt"]
            if len(rets) == 1 and len(decls) + 1 == len(gs) and gs[-1] is rets[0] and rets[0].get("c"):
                r2 = {"__funcs__": roles.get("__funcs__") or {}, "__depth__": roles.get("__depth__", 0) + 1, "__lambdas__": roles.get("__lambdas__") or {}}
                r2["__locals__"] = {d["did"]: d["init"] for st in decls for d in st["decls"] if d.get("init") is not None}
                for p_, a_ in zip(lam["lambda"].get("params") or [], n["c"][2:]):
                    ra = _role_of(a_, roles)
                    if ra:
                        r2[("val", p_["did"])] = ra
                return _eval_cond(rets[0]["c"][0], r2, rel)
            raise Unclassifiable("local lambda helper is not `aliases; return <expression>;`")
    if k == "CXXMemberCallExpr" and (n.get("callee") or "").endswith("::count"):
        member = _member(n, roles)
        if member and member[1]:
            return _isin(member[1], member[0], rel)
    raise Unclassifiable("condition " + astq.text(n))


def _member(call, roles):
    """(owner role, element role) of <owner>->covariant_classes.find(<elem>) / .end() / .count(<elem>)"""
    callee = call["c"][0]
    # a local alias of a set (`const auto& bases = (*b_iter)->transitive_bases;`) stands for what it is initialised with
    locs = roles.get("__locals__") or {}
    for x in list(astq.walk(callee)):
        if x.get("k") == "DeclRefExpr" and x["ref"].get("did") in locs:
            callee = {"k": "ParenExpr", "id": -1, "c": [callee, locs[x["ref"]["did"]]]}
            break
    listed = [x["member"] for x in astq.walk(callee) if x.get("k") == "MemberExpr" and x.get("member") in LISTED_SETS]
    if listed:
        raise RegistrationDependent(listed[0])
    if not any(x.get("k") == "MemberExpr" and x.get("member") == "covariant_classes" for x in astq.walk(callee)):
        return None
    owner = None
    for x in astq.walk(callee):
        r = _role_of(x, roles)
        if r:
            owner = r
            break
    elem = None
    if len(call["c"]) > 1:
        elem = _role_of(call["c"][1], roles)
    if owner is None:
        return None
    return owner, elem


def _isin(elem, owner, rel):
    """elem-role's class is in covariant_classes of owner-role's class (= is owner's class or derived from it)"""
    if elem == owner:
        return True
    if rel == "EQ":
        return True
    if owner == "B" and elem == "A":
        return rel == "A_DERIVED"
    if owner == "A" and elem == "B":
        return rel == "A_BASE"
    return False


def order_table(fn, funcs_by_name=None, swap=False, depth=0):
    """-> {'init': bool, 'per': {REL: 'none'|'set'|'clear'|'return true'|'return false'}, 'final': 'flag'|'true'|'false'}"""
    body = fn["body"]
    stmts = body.get("c") or []
    # delegation: `return g(x, y);` with g another ordering function of the same class
    if len(stmts) == 1 and stmts[0].get("k") == "ReturnStmt" and funcs_by_name is not None and depth < 2:
        e = astq.strip(stmts[0]["c"][0]) if stmts[0].get("c") else None
        if e is not None and e.get("k") == "CallExpr" and e.get("callee") in funcs_by_name:
            params = [p["did"] for p in fn["params"]]
            args = [astq.strip(a) for a in e["c"][1:]]
            if len(args) == 2 and all(a.get("k") == "DeclRefExpr" for a in args):
                order = [params.index(a["ref"]["did"]) for a in args]
                t = order_table(funcs_by_name[e["callee"]], funcs_by_name, depth=depth + 1)
                if order == [1, 0]:
                    sw = {"EQ": "EQ", "A_DERIVED": "A_BASE", "A_BASE": "A_DERIVED", "UNRELATED": "UNRELATED"}
                    t = {"init": t["init"], "final": t["final"], "per": {sw[k]: v for k, v in t["per"].items()}}
                return t
    roles = _roles(fn)
    if set(roles.values()) != {"A", "B"}:
        raise Unclassifiable("iterators over a->vp / b->vp not found in " + fn["name"])
    flag = None
    init = None
    loop = None
    final = None
    for s in stmts:
        if s.get("k") == "DeclStmt":
            for d in s["decls"]:
                if d["type"] == "bool":
                    flag = d["did"]
                    i = astq.strip(d.get("init"))
                    init = bool(i.get("v")) if i is not None and i.get("k") == "CXXBoolLiteralExpr" else None
        elif s.get("k") in ("ForStmt", "WhileStmt"):
            loop = s
        elif s.get("k") == "ReturnStmt":
            e = astq.strip(s["c"][0])
            if e.get("k") == "DeclRefExpr" and e["ref"]["did"] == flag:
                final = "flag"
            elif e.get("k") == "CXXBoolLiteralExpr":
                final = "true" if e.get("v") else "false"
    if loop is None or final is None:
        raise Unclassifiable("shape of " + fn["name"])
    if flag is None:
        init = None         # no result flag: the function answers by returns only (compared with the documented table as such)
    roles["__funcs__"] = funcs_by_name or {}
    roles["__locals__"] = {d["did"]: d["init"] for n in astq.walk(loop["body"]) if n.get("k") == "DeclStmt" for d in n["decls"] if d.get("init") is not None}
    roles["__lambdas__"] = {d["did"]: astq.strip(d["init"]) for s_ in stmts if s_.get("k") == "DeclStmt" for d in s_["decls"]
                            if d.get("init") is not None and (astq.strip(d["init"]) or {}).get("k") == "LambdaExpr"}
    # the loop must advance both iterators together
    inc = loop.get("inc")
    adv = set()
    for x in astq.walk(inc) if inc else []:
        if x.get("k") in ("CXXOperatorCallExpr", "UnaryOperator") and (x.get("oop") == "++" or x.get("op") == "++"):
            for y in astq.walk(x):
                if y.get("k") == "DeclRefExpr" and y["ref"]["did"] in roles and isinstance(roles[y["ref"]["did"]], str):
                    adv.add(roles[y["ref"]["did"]])
    if adv != {"A", "B"}:
        raise Unclassifiable("loop does not advance both iterators")
    per = {}
    for rel in RELS:
        def decide(c, rel=rel):
            return _eval_cond(c, roles, rel)

        def want(n):
            if n.get("k") == "ReturnStmt":
                return True
            if n.get("k") == "BinaryOperator" and n.get("op") == "=":
                l = astq.strip(n["c"][0])
                return flag is not None and l.get("k") == "DeclRefExpr" and l["ref"]["did"] == flag
            return False
        paths = astq.enum_paths(loop["body"], decide, want)
        if len(paths) != 1:
            raise Unclassifiable("non-deterministic path for relation " + rel)
        act = "none"
        for kind, n in paths[0]["events"]:
            if n.get("k") == "ReturnStmt":
                e = astq.strip(n["c"][0])
                if e.get("k") == "CXXBoolLiteralExpr":
                    act = "return true" if e.get("v") else "return false"
                else:
                    raise Unclassifiable("return of non-literal inside the loop")
                break
            v = astq.strip(n["c"][1])
            if v.get("k") != "CXXBoolLiteralExpr":
                raise Unclassifiable("flag assigned a non-literal")
            act = "set" if v.get("v") else "clear"
        per[rel] = act
    return {"init": init, "per": per, "final": final}


MORE_SPECIFIC = {"init": False, "final": "flag", "per": {"EQ": "none", "A_DERIVED": "set", "A_BASE": "return false", "UNRELATED": "none"}}
IS_BASE = {"init": False, "final": "flag", "per": {"EQ": "none", "A_BASE": "set", "A_DERIVED": "return false", "UNRELATED": "return false"}}


# ---------------------------------------------------------------------------
# consumers of a best-set: decisions on its size

def size_decide(var_did, n_value):
    """decide(cond) for conditions on <var>.size() / <var>.empty() with |var| = n_value; None for others."""
    def sym(n):
        k = n.get("k")
        if k == "CXXMemberCallExpr" and (n.get("callee") or "").endswith("::size"):
            if any(x.get("k") == "DeclRefExpr" and x["ref"]["did"] == var_did for x in astq.walk(n["c"][0])):
                return "n"
        return None

    def decide(c):
        c0 = astq.strip(c)
        k = c0.get("k")
        if k == "CXXMemberCallExpr" and (c0.get("callee") or "").endswith("::empty"):
            if any(x.get("k") == "DeclRefExpr" and x["ref"]["did"] == var_did for x in astq.walk(c0["c"][0])):
                return n_value == 0
            return None
        if k == "UnaryOperator" and c0.get("op") == "!":
            d = decide(c0["c"][0])
            return None if d is None else (not d)
        if k == "BinaryOperator" and c0.get("op") in ("==", "!=", "<", ">", "<=", ">="):
            l = astq.affine(c0["c"][0], {}, sym)
            r = astq.affine(c0["c"][1], {}, sym)
            if l is None or r is None or not (set(l) | set(r)) <= {"n", 1} or "n" not in (set(l) | set(r)):
                return None
            lv = l.get("n", 0) * n_value + l.get(1, 0)
            rv = r.get("n", 0) * n_value + r.get(1, 0)
            return {"==": lv == rv, "!=": lv != rv, "<": lv < rv, ">": lv > rv, "<=": lv <= rv, ">=": lv >= rv}[c0["op"]]
        if k == "BinaryOperator" and c0.get("op") in ("&&", "||"):
            a, b = decide(c0["c"][0]), decide(c0["c"][1])
            if a is None or b is None:
                if c0["op"] == "&&" and (a is False or b is False):
                    return False
                if c0["op"] == "||" and (a is True or b is True):
                    return True
                return None
            return (a and b) if c0["op"] == "&&" else (a or b)
        return None
    return decide


def _atom_text(n):
    """rendering of a guard atom that does not depend on local names: parameters by type, members by name"""
    n = astq.strip(n)
    if n is None:
        return "?"
    if n.get("k") == "DeclRefExpr":
        st = n["ref"].get("storage")
        return ("param:" if st == "param" else "var:") + (n.get("t") or "").replace("const ", "")
    if n.get("k") == "MemberExpr":
        return "*." + n["member"]
    return astq.text(n)


def guard_atoms(guards):
    """symbolic guards of a path -> frozenset of (text, polarity); conjunctions are split."""
    out = set()

    def add(c, pol):
        c0 = astq.strip(c)
        if c0.get("k") == "BinaryOperator" and c0.get("op") == "&&" and pol:
            add(c0["c"][0], True)
            add(c0["c"][1], True)
        elif c0.get("k") == "UnaryOperator" and c0.get("op") == "!":
            add(c0["c"][0], not pol)
        else:
            out.add((_atom_text(c0), pol))
    for c, pol in guards:
        add(c, pol)
    return frozenset(out)
