"""Symbolic summaries of SSA values over IR JSON (E2 `sym`).

An expression is a nested tuple:
  ('arg', k) ('const', v) ('global', demangled) ('func', demangled) ('null',)
  ('load', addr) ('add', t...) ('mul', f...) ('op', opcode, a, b[, pred])
  ('call', demangled-name, (args...)) ('alloca', fn, id) ('phi', alts...) ('unk', why)
`add` / `mul` are flattened, constant-folded and sorted (commutativity). Casts are
transparent. Calls into library code are substituted by the callee's returned
value (bounded depth); blocks that end in `unreachable` are ignored when
looking for the return. This is value *structure*, not evaluation."""
import re
from . import irq

PASS_THROUGH = re.compile(r"(std::forward<|std::move<|std::addressof<|std::__addressof<)")


def const(v):
    return ("const", v)


def mk_add(terms):
    flat = []
    c = 0
    for t in terms:
        if t[0] == "add":
            for u in t[1:]:
                if u[0] == "const":
                    c += u[1]
                else:
                    flat.append(u)
        elif t[0] == "const":
            c += t[1]
        else:
            flat.append(t)
    flat.sort(key=repr)
    if c != 0:
        flat.append(("const", c))
    if not flat:
        return ("const", 0)
    if len(flat) == 1:
        return flat[0]
    return ("add",) + tuple(flat)


def mk_mul(factors):
    flat = []
    c = 1
    for t in factors:
        if t[0] == "mul":
            for u in t[1:]:
                if u[0] == "const":
                    c *= u[1]
                else:
                    flat.append(u)
        elif t[0] == "const":
            c *= t[1]
        else:
            flat.append(t)
    if c == 0:
        return ("const", 0)
    flat.sort(key=repr)
    if c != 1:
        flat.append(("const", c))
    if not flat:
        return ("const", 1)
    if len(flat) == 1:
        return flat[0]
    return ("mul",) + tuple(flat)


class Sym:
    def __init__(self, mod, opaque=None, is_lib=None, max_depth=14, transparent_trunc=True):
        self.mod = mod
        self.opaque = re.compile(opaque) if opaque else None
        self.is_lib = is_lib or (lambda f: irq.is_lib_name(f.dname))
        self.max_depth = max_depth
        self.notes = []
        self.ctxs = {0: None}   # context id -> (function, binding): one per inlined call, so that
        self.next_cid = 1       # allocas of different inlinings of the same function stay distinct

    def gname(self, name):
        return self.mod.gd(name)

    def value(self, fn, ref, binding=None, depth=0, memo=None, cid=0):
        if memo is None:
            memo = {}
        if binding is None:
            binding = {}
        if cid == 0:
            self.ctxs[0] = (fn, binding)
        k = ref[0]
        if k == "a":
            return binding.get(ref[1], ("arg", ref[1]))
        if k == "c":
            return ("const", ref[1])
        if k in ("null", "zero"):
            return ("const", 0)
        if k == "undef":
            return ("unk", "undef")
        if k == "g":
            return ("global", self.gname(ref[1]))
        if k == "f":
            f = self.mod.funcs.get(ref[1])
            return ("func", f.dname if f else ref[1])
        if k == "cgep":
            return mk_add([self.value(fn, ref[1], binding, depth, memo, cid), ("const", ref[2])])
        if k == "ce":
            op = ref[1]
            if op in ("bitcast", "inttoptr", "ptrtoint", "addrspacecast", "zext", "sext", "trunc"):
                return self.value(fn, ref[2][0], binding, depth, memo, cid)
            return ("unk", "constexpr " + op)
        if k == "i":
            key = ref[1]
            if key in memo:
                return memo[key]
            memo[key] = ("unk", "cycle")
            v = self._inst(fn, fn.insts[key], binding, depth, memo, cid)
            memo[key] = v
            return v
        return ("unk", str(k))

    def _inst(self, fn, ins, binding, depth, memo, cid):
        op = ins.op
        V = lambda r: self.value(fn, r, binding, depth, memo, cid)
        if op == "alloca":
            return ("alloca", fn.name, ins.id, cid)
        if op in ("bitcast", "inttoptr", "ptrtoint", "addrspacecast", "zext", "sext", "trunc", "freeze"):
            return V(ins.ops[0])
        if op == "getelementptr":
            gv = ins.get("gepvars")
            if gv is None:
                return ("unk", "gep")
            terms = [V(ins.ops[0]), ("const", ins.get("gepconst", 0))]
            for r, scale in gv:
                terms.append(mk_mul([V(r), ("const", scale)]))
            return mk_add(terms)
        if op == "load":
            addr = V(ins.ops[0])
            st = self._forward_store(fn, ins, addr, binding, depth, memo, cid)
            if st is not None:
                return st
            cg = self._const_global(addr)
            if cg is not None:
                return cg
            return ("load", addr)
        if op == "add":
            return mk_add([V(ins.ops[0]), V(ins.ops[1])])
        if op == "mul":
            return mk_mul([V(ins.ops[0]), V(ins.ops[1])])
        if op == "shl":
            b = V(ins.ops[1])
            if b[0] == "const" and 0 <= b[1] < 63:
                return mk_mul([V(ins.ops[0]), ("const", 1 << b[1])])
            return ("op", "shl", V(ins.ops[0]), b)
        if op == "sub":
            b = V(ins.ops[1])
            if b[0] == "const":
                return mk_add([V(ins.ops[0]), ("const", -b[1])])
            return ("op", "sub", V(ins.ops[0]), b)
        if op in ("lshr", "ashr", "and", "or", "xor", "udiv", "sdiv", "urem", "srem"):
            return ("op", op, V(ins.ops[0]), V(ins.ops[1]))
        if op == "icmp":
            return ("op", "icmp", V(ins.ops[0]), V(ins.ops[1]), ins.get("pred"))
        if op == "select":
            return ("phi", V(ins.ops[1]), V(ins.ops[2]))
        if op == "phi":
            alts = []
            for o in ins.ops:
                a = V(o)
                if a not in alts:
                    alts.append(a)
            if len(alts) == 1:
                return alts[0]
            return ("phi",) + tuple(sorted(alts, key=repr))
        if op in ("call", "invoke"):
            return self._call(fn, ins, binding, depth, memo, cid)
        if op == "extractvalue":
            return ("op", "extractvalue", V(ins.ops[0]), ("const", 0))
        return ("unk", op)

    def _const_global(self, addr):
        """load of a 64-bit integer cell of a constant global with an initialiser (constexpr arrays)."""
        base, off = split_base(addr)
        if base is None or base[0] != "global":
            return None
        for g in self.mod.globals.values():
            if g["dname"] == base[1]:
                if not g.get("const") or "init" not in g:
                    return None
                init = g["init"]
                if init[0] == "c" and off == 0:
                    return ("const", init[1])
                if init[0] == "agg" and off % 8 == 0 and "i64" in g.get("ty", ""):
                    k = off // 8
                    if 0 <= k < len(init[1]) and init[1][k][0] == "c":
                        return ("const", init[1][k][1])
                if init[0] == "zero":
                    return ("const", 0)
                return None
        return None

    def _forward_store(self, fn, load, addr, binding, depth, memo, cid):
        """load from a local slot (alloca + const) that has exactly one store in its owning function
        instance: the stored value (address-taken temporaries such as `const size_t&` arguments of
        std::min, by-value class parameters rebuilt from register pieces)."""
        base, off = split_base(addr)
        if base is None or base[0] != "alloca":
            return None
        ocid = base[3]
        if ocid != cid:
            if ocid not in self.ctxs or self.ctxs[ocid] is None or depth > self.max_depth + 4:
                return None
            fn, binding = self.ctxs[ocid]
            memo = {}
            cid = ocid
            depth += 1
        hits = []
        for i in fn.all_insts():
            if i.op == "store":
                a = self.value(fn, i.ops[1], binding, depth, memo, cid)
                b2, o2 = split_base(a)
                if b2 == base and o2 == off:
                    hits.append(i)
            elif i.op in ("call", "invoke") and (i.get("callee") or "").startswith("llvm.mem"):
                a = self.value(fn, i.ops[0], binding, depth, memo, cid)
                b2, o2 = split_base(a)
                if b2 == base:
                    return None
        if len(hits) == 1:
            return self.value(fn, hits[0].ops[0], binding, depth, memo, cid)
        return None

    def _call(self, fn, ins, binding, depth, memo, cid):
        V = lambda r: self.value(fn, r, binding, depth, memo, cid)
        dc = ins.callee
        if dc is None:
            return ("call", "<indirect>", (V(ins.get("indirect")),) + tuple(V(o) for o in ins.ops))
        if PASS_THROUGH.search(dc) and ins.ops:
            return V(ins.ops[0])
        args = tuple(V(o) for o in ins.ops)
        callee = self.mod.funcs.get(ins.get("callee"))
        name = irq.strip_ret(dc)
        if callee is not None and callee.body and self.is_lib(callee) and not (self.opaque and self.opaque.search(dc)):
            if depth >= self.max_depth:
                return ("call", name, args)
            rv = self.returned(callee, {k: a for k, a in enumerate(args)}, depth + 1)
            if rv is not None:
                return rv
        return ("call", name, args)

    def returned(self, callee, binding, depth=0, top=False):
        """symbolic value returned by callee under binding (None for void)."""
        if top:
            cid = 0
            self.ctxs[0] = (callee, binding)
        else:
            cid = self.next_cid
            self.next_cid += 1
            self.ctxs[cid] = (callee, binding)
        live = live_blocks(callee)
        rets = [i for i in callee.all_insts() if i.op == "ret" and i.bb in live]
        vals = []
        for r in rets:
            if not r.ops:
                return None
            v = self.value(callee, r.ops[0], binding, depth, {}, cid)
            if v not in vals:
                vals.append(v)
        if not vals:
            return ("unk", "noreturn")
        if len(vals) == 1:
            return vals[0]
        return ("phi",) + tuple(sorted(vals, key=repr))


def init_source(S, e, depth=0):
    """for a temporary (alloca expression) initialised by a copy/move constructor call - directly or
    inside a library function that received it as its result slot - the constructor's source."""
    if e[0] != "alloca" or depth > 4:
        return None
    ctx = S.ctxs.get(e[3])
    if not ctx:
        return None
    owner, b = ctx
    ctor = re.compile(r"::(shared_ptr|virtual_ptr|__shared_ptr)(<[^()]*>)?\(")
    for i in owner.all_insts():
        if i.op not in ("call", "invoke") or not i.callee or len(i.ops) < 2:
            continue
        if S.value(owner, i.ops[0], b, 0, {}, e[3]) != e:
            continue
        if ctor.search(i.callee):
            return S.value(owner, i.ops[1], b, 0, {}, e[3])
        callee = S.mod.funcs.get(i.get("callee"))
        if callee is not None and callee.body and S.is_lib(callee):
            nb = {k: S.value(owner, o, b, 0, {}, e[3]) for k, o in enumerate(i.ops)}
            cid = S.next_cid
            S.next_cid += 1
            S.ctxs[cid] = (callee, nb)
            for j in callee.all_insts():
                if j.op in ("call", "invoke") and j.callee and len(j.ops) >= 2 and ctor.search(j.callee):
                    if S.value(callee, j.ops[0], nb, 0, {}, cid) == e:
                        return S.value(callee, j.ops[1], nb, 0, {}, cid)
    return None


def split_base(addr):
    """addr -> (base, const offset) when addr = base + const."""
    if addr[0] == "add":
        c = 0
        rest = []
        for t in addr[1:]:
            if t[0] == "const":
                c += t[1]
            else:
                rest.append(t)
        if len(rest) == 1:
            return rest[0], c
        return None, None
    if addr[0] in ("alloca", "global", "arg"):
        return addr, 0
    return None, None


def live_blocks(fn):
    """blocks from which a `ret` is reachable along normal edges (prunes abort/unreachable tails)."""
    rets = [i.bb for i in fn.all_insts() if i.op == "ret"]
    pred = {}
    for b in fn.order:
        for s in fn.succ(b, normal_only=True):
            pred.setdefault(s, set()).add(b)
    live = set(rets)
    work = list(rets)
    while work:
        b = work.pop()
        for p in pred.get(b, ()):
            if p not in live:
                live.add(p)
                work.append(p)
    return live


def show(e, depth=0):
    if depth > 12:
        return "..."
    k = e[0]
    if k == "arg":
        return "arg%d" % e[1]
    if k == "const":
        return str(e[1])
    if k == "global":
        return "@" + short(e[1])
    if k == "func":
        return "&" + short(e[1])
    if k == "load":
        return "[" + show(e[1], depth + 1) + "]"
    if k == "add":
        return "(" + " + ".join(show(t, depth + 1) for t in e[1:]) + ")"
    if k == "mul":
        return "*".join(show(t, depth + 1) for t in e[1:])
    if k == "call":
        return short(e[1]) + "(" + ", ".join(show(a, depth + 1) for a in e[2]) + ")"
    if k == "op":
        return "%s(%s)" % (e[1], ", ".join(show(a, depth + 1) if isinstance(a, tuple) else str(a) for a in e[2:]))
    if k == "phi":
        return "phi{" + " | ".join(show(a, depth + 1) for a in e[1:]) + "}"
    if k == "alloca":
        return "local#%d%s" % (e[2], "" if e[3] == 0 else "@%d" % e[3])
    return str(e)


def short(name, n=90):
    name = re.sub(r"w_\w+?_\d+::key", "K", name)
    name = name.replace("yorel::yomm2::", "")
    return name if len(name) <= n else name[:n] + "~"


def walk(e):
    yield e
    for x in e[1:]:
        if isinstance(x, tuple):
            if x and isinstance(x[0], str):
                yield from walk(x)
            else:
                for y in x:
                    if isinstance(y, tuple):
                        yield from walk(y)
