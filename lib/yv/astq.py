"""Queries over the JSON form of instantiated ASTs / CFGs produced by build/yast.so (E1)."""
import json
import re

TRANSPARENT = {"ParenExpr", "ImplicitCastExpr", "ExprWithCleanups", "MaterializeTemporaryExpr", "CXXBindTemporaryExpr",
               "ConstantExpr", "SubstNonTypeTemplateParmExpr", "CXXFunctionalCastExpr", "CXXStaticCastExpr", "CStyleCastExpr",
               "CXXConstCastExpr", "CXXReinterpretCastExpr", "FullExpr"}
CHILD_KEYS = ("init", "condvar", "cond", "then", "else", "inc", "body", "range", "rangestmt", "beginstmt", "endstmt", "loopvarstmt")


class Ast:
    def __init__(self, path):
        with open(path) as f:
            d = json.load(f)
        self.path = path
        self.funcs = d["functions"]
        self.vars = d["vars"]
        self.policies = {p["name"]: set(p["bases"]) for p in d.get("policies", [])}
        self.root = d.get("root")
        for f in self.funcs:
            if f.get("body") is not None:
                normalise(f["body"])

    def find(self, pattern):
        rx = re.compile(pattern)
        return [f for f in self.funcs if rx.search(f["name"])]


def _is_const_expr(n):
    n = strip(n)
    return n is not None and (n.get("k") in ("IntegerLiteral", "CXXNullPtrLiteralExpr", "GNUNullExpr", "CXXBoolLiteralExpr", "CharacterLiteral") or
                              ("cv" in n and n.get("k") not in ("DeclRefExpr", "MemberExpr", "CallExpr", "CXXMemberCallExpr", "CXXOperatorCallExpr")))


def _lit(n, v):
    n = strip(n)
    return n is not None and ((n.get("k") == "IntegerLiteral" and n.get("v") == v) or (n.get("cv") == v and _is_const_expr(n)))


def normalise(root):
    """in-place normal form of spelling variants, so that rules see one shape:
       x += 1, x = x + 1, x = 1 + x  ->  ++x   (x -= 1, x = x - 1 -> --x)
       c < x (constant on the left)   ->  x > c   (all comparison operators)
       a > b, a >= b (no constant)    ->  b < a, b <= a"""
    FLIP = {"<": ">", ">": "<", "<=": ">=", ">=": "<=", "==": "==", "!=": "!="}
    for n in list(walk(root)):
        k = n.get("k")
        c = n.get("c") or []
        if k == "CompoundAssignOperator" and n.get("op") in ("+=", "-=") and len(c) == 2 and _lit(c[1], 1):
            n["k"], n["op"], n["postfix"], n["c"] = "UnaryOperator", ("++" if n["op"] == "+=" else "--"), False, [c[0]]
        elif k == "CXXOperatorCallExpr" and n.get("oop") in ("+=", "-=") and len(c) == 3 and _lit(c[2], 1):
            n["oop"], n["c"] = ("++" if n["oop"] == "+=" else "--"), c[:2]      # iterator advanced by one
        elif k == "BinaryOperator" and n.get("op") == "=" and len(c) == 2:
            r = strip(c[1])
            if r is not None and r.get("k") == "BinaryOperator" and r.get("op") in ("+", "-") and len(r.get("c") or []) == 2:
                a, b = r["c"]
                lt = text(c[0])
                if _lit(b, 1) and text(a) == lt and strip(c[0]).get("k") in ("DeclRefExpr", "MemberExpr"):
                    n["k"], n["op"], n["postfix"], n["c"] = "UnaryOperator", ("++" if r["op"] == "+" else "--"), False, [c[0]]
                elif r["op"] == "+" and _lit(a, 1) and text(b) == lt and strip(c[0]).get("k") in ("DeclRefExpr", "MemberExpr"):
                    n["k"], n["op"], n["postfix"], n["c"] = "UnaryOperator", "++", False, [c[0]]
        elif k == "BinaryOperator" and n.get("op") in FLIP and len(c) == 2:
            lc, rc = _is_const_expr(c[0]), _is_const_expr(c[1])
            if (lc and not rc) or (not lc and not rc and n["op"] in (">", ">=")):
                n["c"] = [c[1], c[0]]
                n["op"] = FLIP[n["op"]]


def kids(n):
    """direct child nodes of a node, in source order (best effort)."""
    if n is None:
        return
    for k in ("init", "condvar", "cond", "range", "rangestmt", "beginstmt", "endstmt", "loopvarstmt"):
        if k in n and n[k] is not None:
            yield n[k]
    for c in n.get("c", []) or []:
        if c is not None:
            yield c
    for d in n.get("decls", []) or []:
        if d.get("init") is not None:
            yield d["init"]
    for k in ("then", "else", "inc", "body"):
        if k in n and n[k] is not None:
            yield n[k]
    if "lambda" in n:
        lb = n["lambda"]
        if lb.get("body") is not None:
            yield lb["body"]
        for s in lb.get("specializations", []) or []:
            if s is not None:
                yield s


def walk(n):
    """pre-order traversal of all nodes below (and including) n. For CXXForRangeStmt the desugared
    pieces are visited once (range via rangestmt)."""
    if n is None:
        return
    stack = [n]
    while stack:
        x = stack.pop()
        yield x
        ks = list(kids_nodup(x))
        stack.extend(reversed(ks))


def kids_nodup(n):
    if n.get("k") == "CXXForRangeStmt":
        # range expression is inside rangestmt's decl init as well: visit `range` and skip rangestmt
        for k in ("range", "beginstmt", "endstmt", "cond", "inc", "loopvarstmt", "body"):
            if k in n and n[k] is not None:
                yield n[k]
        return
    yield from kids(n)


def strip(n):
    """skip transparent wrappers (parentheses, implicit/explicit value-preserving casts, temporaries)."""
    while n is not None and n.get("k") in TRANSPARENT:
        c = n.get("c") or []
        if len(c) != 1:
            break
        n = c[0]
    return n


def index_nodes(fn):
    """id -> node, and id -> parent node, for the body of a dumped function."""
    byid, parent = {}, {}
    body = fn.get("body")
    if body is None:
        return byid, parent
    stack = [(body, None)]
    while stack:
        n, p = stack.pop()
        byid[n["id"]] = n
        if p is not None:
            parent[n["id"]] = p
        for c in kids(n):
            stack.append((c, n))
    return byid, parent


def callee_name(n):
    return n.get("callee") or n.get("ctor") or ""


def refname(n):
    n = strip(n)
    if n is None:
        return None
    if n.get("k") == "DeclRefExpr":
        return n["ref"]["name"]
    if n.get("k") == "MemberExpr":
        return n.get("mq")
    return None


def text(n, depth=0):
    """compact rendering of an expression (diagnostics only)."""
    if n is None or depth > 14:
        return "?"
    k = n.get("k")
    c = n.get("c") or []
    if k in TRANSPARENT and len(c) == 1:
        return text(c[0], depth + 1)
    if k == "DeclRefExpr":
        return n["ref"]["name"].split("::")[-1]
    if k == "MemberExpr":
        return (text(c[0], depth + 1) if c else "this") + ("->" if n.get("arrow") else ".") + n["member"]
    if k == "IntegerLiteral":
        return str(n.get("v"))
    if k == "BinaryOperator" or k == "CompoundAssignOperator":
        return "(%s %s %s)" % (text(c[0], depth + 1), n.get("op"), text(c[1], depth + 1))
    if k == "UnaryOperator":
        return ("%s%s" % (text(c[0], depth + 1), n.get("op"))) if n.get("postfix") else ("%s%s" % (n.get("op"), text(c[0], depth + 1)))
    if k == "ArraySubscriptExpr":
        return "%s[%s]" % (text(c[0], depth + 1), text(c[1], depth + 1))
    if k in ("CallExpr", "CXXMemberCallExpr", "CXXOperatorCallExpr"):
        nm = (n.get("callee") or "?").split("(")[0]
        nm = nm.split("::")[-1] if "operator" not in nm else "operator" + nm.split("operator")[-1]
        return "%s(%s)" % (nm, ", ".join(text(x, depth + 1) for x in c[1:] if x is not None) if k != "CXXMemberCallExpr" else ", ".join(text(x, depth + 1) for x in c if x is not None))
    if k == "CXXThisExpr":
        return "this"
    if "cv" in n:
        return str(n["cv"])
    return k or "?"


# ---------------------------------------------------------------------------
# CFG utilities

class Cfg:
    def __init__(self, fn):
        c = fn.get("cfg")
        if not c:
            raise KeyError("no cfg for " + fn["name"])
        self.entry = c["entry"]
        self.exit = c["exit"]
        self.blocks = {b["id"]: b for b in c["blocks"]}
        self.succ = {b["id"]: [s for s in b["succ"] if s is not None] for b in c["blocks"]}
        self.raw_succ = {b["id"]: b["succ"] for b in c["blocks"]}
        # expression-level assertions (BOOST_ASSERT / assert: `cond ? (void)0 : fail()`): the failing outcome
        # never continues; it is not a guard of the code that follows, so its edge is dropped
        self.assert_blocks = set()
        for b in c["blocks"]:
            if b.get("termk") in ("ConditionalOperator", "BinaryOperator") and len(self.succ[b["id"]]) == 2:
                keep = []
                for s2 in self.succ[b["id"]]:
                    sb = self.blocks[s2]
                    nr = sb.get("noreturn") or (len(self.succ[s2]) == 1 and not sb.get("stmts") and self.blocks[self.succ[s2][0]].get("noreturn"))
                    if not nr:
                        keep.append(s2)
                if len(keep) == 1:
                    self.succ[b["id"]] = keep
                    self.assert_blocks.add(b["id"])
        self.pred = {b: [] for b in self.blocks}
        for b, ss in self.succ.items():
            for s in ss:
                self.pred[s].append(b)
        self.block_of = {}
        for b in c["blocks"]:
            for sid in b["stmts"]:
                self.block_of.setdefault(sid, b["id"])
        self._dom = None
        self._pdom = None

    def _doms(self, entry, succ, pred):
        nodes = set(self.blocks)
        # reachable from entry
        reach = set()
        st = [entry]
        while st:
            x = st.pop()
            if x in reach:
                continue
            reach.add(x)
            st.extend(succ[x])
        dom = {n: set(reach) for n in reach}
        dom[entry] = {entry}
        changed = True
        while changed:
            changed = False
            for n in reach:
                if n == entry:
                    continue
                ps = [p for p in pred[n] if p in reach]
                new = set(reach)
                for p in ps:
                    new &= dom[p]
                new = new | {n}
                if new != dom[n]:
                    dom[n] = new
                    changed = True
        return dom

    def dom(self):
        if self._dom is None:
            self._dom = self._doms(self.entry, self.succ, self.pred)
        return self._dom

    def pdom(self):
        if self._pdom is None:
            self._pdom = self._doms(self.exit, self.pred, self.succ)
        return self._pdom

    def control_deps(self, b):
        """blocks X (with >= 2 successors) such that b is control dependent on X:
        b post-dominates some successor of X but does not strictly post-dominate X."""
        pd = self.pdom()
        out = []
        for x, ss in self.succ.items():
            if len(ss) < 2:
                continue
            if x not in pd:
                continue
            for s in ss:
                if s in pd and b in pd.get(s, ()) and not (b in pd[x] and b != x):
                    out.append(x)
                    break
        return out

    def branch_taken(self, x, b):
        """which successors (indexes) of branch block x lead to b being executed for sure (b post-dominates them)."""
        pd = self.pdom()
        return [i for i, s in enumerate(self.raw_succ[x]) if s is not None and s in pd and b in pd[s]]

    def reachable_from(self, b, avoid=()):
        seen = set()
        st = [b]
        while st:
            x = st.pop()
            if x in seen or x in avoid:
                continue
            seen.add(x)
            st.extend(self.succ[x])
        return seen


def norm_name(s):
    """normalise a qualified name for comparison between the AST printer and the IR demangler."""
    s = re.sub(r"\s+", "", s)
    s = s.replace("unsignedlong", "ul").replace("UL", "ul")
    return s


# ---------------------------------------------------------------------------
# affine normal forms  (E1 `affine`): {symbol: coeff, 1: const}

def aff_const(c):
    return {1: c} if c else {}


def aff_add(a, b, sign=1):
    out = dict(a)
    for k, v in b.items():
        out[k] = out.get(k, 0) + sign * v
        if out[k] == 0:
            del out[k]
    return out


def aff_scale(a, c):
    return {k: v * c for k, v in a.items() if v * c != 0}


def affine(n, env=None, symname=None):
    """integer expression -> affine form over symbols, or None when not affine.
    env: decl id -> affine form (substitutions for local variables);
    symname(node) -> symbol string for leaves (default: rendered member/call path)."""
    env = env or {}
    n = strip(n)
    if n is None:
        return None
    k = n.get("k")
    if k == "IntegerLiteral":
        return aff_const(n.get("v", 0))
    if "cv" in n and k not in ("DeclRefExpr",):
        return aff_const(n["cv"])
    c = n.get("c") or []
    if k == "DeclRefExpr":
        did = n["ref"]["did"]
        if did in env:
            return dict(env[did])
        if "cv" in n and n["ref"].get("const"):
            return aff_const(n["cv"])
        return {"v:%s" % n["ref"]["name"].split("::")[-1]: 1}
    if k == "BinaryOperator":
        op = n.get("op")
        a = affine(c[0], env, symname)
        b = affine(c[1], env, symname)
        if a is None or b is None:
            return None
        if op == "+":
            return aff_add(a, b)
        if op == "-":
            return aff_add(a, b, -1)
        if op == "*":
            if set(a) <= {1}:
                return aff_scale(b, a.get(1, 0))
            if set(b) <= {1}:
                return aff_scale(a, b.get(1, 0))
            return None
        return None
    if k == "UnaryOperator":
        op = n.get("op")
        a = affine(c[0], env, symname)
        if a is None:
            return None
        if op == "-":
            return aff_scale(a, -1)
        if op == "+":
            return a
        if op == "++" and n.get("postfix"):
            return a        # value of x++ is x
        return None
    if k in ("MemberExpr", "CXXMemberCallExpr", "CallExpr", "ArraySubscriptExpr", "CXXOperatorCallExpr"):
        s = symname(n) if symname else None
        if s is None:
            s = text(n)
        return {s: 1}
    return None


def aff_show(a):
    if a is None:
        return "<not affine>"
    parts = []
    for k, v in sorted(a.items(), key=lambda kv: str(kv[0])):
        if k == 1:
            parts.append(str(v))
        elif v == 1:
            parts.append(str(k))
        else:
            parts.append("%d*%s" % (v, k))
    return " + ".join(parts) if parts else "0"


# ---------------------------------------------------------------------------
# path enumeration over loop-free statement trees (E1 `dtab`)

def enum_paths(stmt, decide, want, limit=512, loops="opaque"):
    """Enumerate the paths through a statement tree made of CompoundStmt / IfStmt / ReturnStmt /
    expression and declaration statements. decide(cond) -> True / False / None (None: both outcomes are
    followed and (cond, outcome) is added to the path's guards). want(node) -> bool selects the
    statements reported as events. Yields dicts {events: [...], guards: [(cond, bool)...], returned: node|None}.
    Loops are treated as opaque statements (reported if wanted, never unrolled)."""
    out = []

    def go(nodes, i, events, guards, k):
        # k: continuation (list of (nodes, index)) implemented by recursion on a stack of frames
        while True:
            if len(out) > limit:
                return
            if i >= len(nodes):
                if not k:
                    out.append({"events": events, "guards": guards, "returned": None})
                    return
                if k[0][0] == "__loop_end__":
                    k = k[1:]
                    continue
                (nodes, i), k = k[0], k[1:]
                continue
            n = nodes[i]
            kind = n.get("k")
            if kind == "CompoundStmt":
                k = [(nodes, i + 1)] + k
                nodes, i = n.get("c") or [], 0
                continue
            if kind == "IfStmt":
                d = decide(n["cond"])
                if d is None and n.get("constexpr") and isinstance(n["cond"], dict) and "cv" in strip(n["cond"]):
                    d = bool(strip(n["cond"])["cv"])
                elif d is None and isinstance(n["cond"], dict) and strip(n["cond"]).get("k") == "CXXBoolLiteralExpr":
                    d = bool(strip(n["cond"]).get("v"))
                branches = []
                if d is None:
                    branches = [(True, guards + [(n["cond"], True)]), (False, guards + [(n["cond"], False)])]
                else:
                    branches = [(d, guards)]
                ev2 = events + ([("cond", n["cond"])] if want(n["cond"]) else [])
                for outcome, g2 in branches:
                    br = n.get("then") if outcome else n.get("else")
                    if br is None:
                        go(nodes, i + 1, list(ev2), list(g2), k)
                    else:
                        go([br], 0, list(ev2), list(g2), [(nodes, i + 1)] + k)
                return
            if kind == "ReturnStmt":
                ev = events + ([("stmt", n)] if want(n) else [])
                out.append({"events": ev, "guards": guards, "returned": n})
                return
            if kind in ("ContinueStmt", "BreakStmt"):
                # inside a loop body being followed for one iteration: the jump ends the iteration
                for j, fr in enumerate(k):
                    if fr[0] == "__loop_end__":
                        (nodes, i), k = k[j + 1], k[j + 2:]
                        break
                else:
                    out.append({"events": events, "guards": guards, "returned": None, "jump": kind})
                    return
                continue
            if kind == "__loop_end__":
                i += 1
                continue
            if loops == "unroll1" and kind in ("ForStmt", "WhileStmt", "CXXForRangeStmt", "DoStmt") and n.get("body") is not None:
                # zero iterations (not for do-while), or one iteration followed by the code after the loop
                if kind != "DoStmt":
                    go(nodes, i + 1, list(events), list(guards), k)
                go([n["body"]], 0, list(events), list(guards), [("__loop_end__", 0), (nodes, i + 1)] + k)
                return
            u = n
            while u.get("k") in ("ExprWithCleanups", "ParenExpr") and len(u.get("c") or []) == 1:
                u = u["c"][0]
            if want(u):
                events = events + [("stmt", u)]
            if u.get("k") == "CallExpr" and u.get("noreturn"):
                out.append({"events": events, "guards": guards, "returned": None, "noreturn": True})
                return
            i += 1
    go([stmt], 0, [], [], [])
    return out


# ---------------------------------------------------------------------------
# canonical form of simple conditions (so that rules do not depend on how a test is spelled)

def _subj(n):
    n = strip(n)
    if n is None:
        return "?"
    if n.get("k") == "DeclRefExpr":
        return "v#%s" % n["ref"].get("did")
    return text(n)


def _is_null_lit(n):
    n = strip(n)
    return n is not None and (n.get("k") in ("CXXNullPtrLiteralExpr", "GNUNullExpr") or (n.get("k") == "IntegerLiteral" and n.get("v") == 0 and False))


def _is_zero_lit(n):
    n = strip(n)
    return n is not None and ((n.get("k") == "IntegerLiteral" and n.get("v") == 0) or n.get("cv") == 0 and n.get("k") not in ("DeclRefExpr", "MemberExpr", "CallExpr", "CXXMemberCallExpr"))


def _is_one_lit(n):
    n = strip(n)
    return n is not None and n.get("k") == "IntegerLiteral" and n.get("v") == 1


def _size_of(n):
    """subject x when n is x.size(), else None"""
    n = strip(n)
    if n is not None and n.get("k") == "CXXMemberCallExpr" and (n.get("callee") or "").endswith("::size") and n.get("c"):
        m = n["c"][0]
        if m.get("k") == "MemberExpr" and m.get("c"):
            return m["c"][0]
    return None


def _ptr_typed(n):
    n0 = n
    while n0 is not None and n0.get("k") in TRANSPARENT and len(n0.get("c") or []) == 1:
        if n0.get("ck") == "PointerToBoolean":
            return True
        if n0.get("ck") == "IntegralToBoolean":
            return False
        n0 = n0["c"][0]
    t = (n0 or {}).get("t") or ""
    return t.rstrip().endswith("*") or "shared_ptr" in t or "unique_ptr" in t


def canon(n):
    """canonical tuple of a condition:
       ('null', s) pointer s is null        ('empty', s) container s has no element      ('zero', s) integer s is 0
       ('eq', a, b) a == b (operands ordered)   ('not', f)   ('and', f, g)   ('or', f, g)   ('expr', text)
    Double negations are removed; `p == nullptr`, `!p`, `nullptr == p` all give ('null', p); `x.empty()`, `x.size() == 0`,
    `!x.size()` give ('empty', x); `x.size() > 0`, `x.size() != 0`, `x.size() >= 1`, `!x.empty()` give ('not', ('empty', x))."""
    def neg(f):
        return f[1] if f[0] == "not" else ("not", f)
    raw = n
    n = strip(n)
    if n is None:
        return ("expr", "?")
    k = n.get("k")
    c = n.get("c") or []
    if k == "UnaryOperator" and n.get("op") == "!":
        return neg(canon(c[0]))
    if k == "BinaryOperator" and n.get("op") in ("&&", "||"):
        return ("and" if n["op"] == "&&" else "or", canon(c[0]), canon(c[1]))
    if k == "CXXMemberCallExpr" and (n.get("callee") or "").endswith("::empty") and c and c[0].get("c"):
        return ("empty", _subj(c[0]["c"][0]))
    if k == "BinaryOperator" and n.get("op") in ("==", "!=", ">", ">=", "<", "<="):
        a, b, op = c[0], c[1], n["op"]
        for x, y, o in ((a, b, op), (b, a, {"<": ">", ">": "<", "<=": ">=", ">=": "<="}.get(op, op))):
            sz = _size_of(x)
            if sz is not None and _is_zero_lit(y):
                if o == "==":
                    return ("empty", _subj(sz))
                if o in ("!=", ">"):
                    return ("not", ("empty", _subj(sz)))
            if sz is not None and _is_one_lit(y) and o == ">=":
                return ("not", ("empty", _subj(sz)))
            if _is_null_lit(y) or (_is_zero_lit(y) and _ptr_typed(x)):
                if o == "==":
                    return ("null", _subj(x))
                if o == "!=":
                    return ("not", ("null", _subj(x)))
            if _is_zero_lit(y):
                if o == "==":
                    return ("zero", _subj(x))
                if o in ("!=", ">"):
                    return ("not", ("zero", _subj(x)))
        if op in ("==", "!="):
            sa, sb = sorted((_subj(a), _subj(b)))
            f = ("eq", sa, sb)
            return f if op == "==" else ("not", f)
        return ("expr", text(n))
    # a value used as a condition
    sz = _size_of(n)
    if sz is not None:
        return ("not", ("empty", _subj(sz)))
    if k in ("DeclRefExpr", "MemberExpr"):
        if _ptr_typed(raw):
            return ("not", ("null", _subj(n)))
        t = n.get("t") or ""
        if t in ("bool", "const bool"):
            return ("expr", _subj(n))
        return ("not", ("zero", _subj(n)))
    return ("expr", text(n))


def eval_int_cond(c, symname, values):
    """truth of a condition over integer symbols with the given values (comparisons, !, &&, ||, a bare value as a
    truth value); None when it mentions anything else"""
    c0 = strip(c)
    if c0 is None:
        return None
    k = c0.get("k")
    if k == "UnaryOperator" and c0.get("op") == "!":
        v = eval_int_cond(c0["c"][0], symname, values)
        return None if v is None else (not v)
    if k == "BinaryOperator" and c0.get("op") in ("&&", "||"):
        a, b = eval_int_cond(c0["c"][0], symname, values), eval_int_cond(c0["c"][1], symname, values)
        if a is None or b is None:
            return None
        return (a and b) if c0["op"] == "&&" else (a or b)

    def value(n):
        a = affine(n, {}, symname)
        if a is None:
            return None
        tot = 0
        for s_, co in a.items():
            if s_ == 1:
                tot += co
            elif s_ in values:
                tot += co * values[s_]
            else:
                return None
        return tot
    if k == "BinaryOperator" and c0.get("op") in ("==", "!=", ">", "<", ">=", "<="):
        l, r = value(c0["c"][0]), value(c0["c"][1])
        if l is None or r is None:
            return None
        return {"==": l == r, "!=": l != r, ">": l > r, "<": l < r, ">=": l >= r, "<=": l <= r}[c0["op"]]
    v = value(c0)
    return None if v is None else (v != 0)
