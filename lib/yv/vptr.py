"""IR rules about how a v-table pointer is obtained and carried by virtual_ptr (C09, C15)."""
import re
from . import irq, sym, witness, callpath, path, eff

CTOR = re.compile(r"^yorel::yomm2::virtual_ptr<(.*), ([^<>]*(?:<[^<>]*>)?[^<>]*)>::virtual_ptr<(.*)>\((.*)\)$")


def vp_functions(mod):
    """classify the member functions of virtual_ptr instantiations present in a module."""
    out = {"ctor_obj": [], "ctor_conv": [], "final": [], "cast": [], "get": [], "deref": [], "arrow": [], "_vptr": [], "dynamic_vptr": []}
    for f in mod.funcs.values():
        if not f.body:
            continue
        d = irq.strip_ret(f.dname)
        if "::dynamic_vptr<" in d and d.startswith("yorel::yomm2::policy::"):
            out["dynamic_vptr"].append(f)
            continue
        if not d.startswith("yorel::yomm2::virtual_ptr<"):
            continue
        bn = irq.base_name(d) if irq.param_list(d) is not None else d
        params = irq.param_list(d) or []
        tail = bn.split(">::")[-1]
        if tail.startswith("virtual_ptr<"):
            if params and "yorel::yomm2::virtual_ptr<" in params[0]:
                out["ctor_conv"].append(f)
            else:
                out["ctor_obj"].append(f)
        elif tail.startswith("final<"):
            out["final"].append(f)
        elif tail.startswith("cast<"):
            out["cast"].append(f)
        elif tail == "get":
            out["get"].append(f)
        elif tail == "operator*":
            out["deref"].append(f)
        elif tail == "operator->":
            out["arrow"].append(f)
        elif tail == "_vptr":
            out["_vptr"].append(f)
    return out


def class_of_vp(dname):
    """(pointee class text, policy text) of the virtual_ptr<...> instantiation a member belongs to"""
    d = irq.strip_ret(dname)
    start = len("yorel::yomm2::virtual_ptr<")
    depth, i = 1, start
    while i < len(d) and depth:
        if d[i] == "<":
            depth += 1
        elif d[i] == ">":
            depth -= 1
        i += 1
    args = irq.split_top(d[start:i - 1])
    return args[0], args[1] if len(args) > 1 else "?"


def pointee(t):
    t = t.strip()
    t = re.sub(r"(&&|&)$", "", t).strip()
    t = re.sub(r"\bconst$", "", t).strip()
    m = re.match(r"^std::shared_ptr<(.*)>$", t)
    if m:
        t = m.group(1).strip()
    t = re.sub(r"\bconst$", "", t).strip()
    t = re.sub(r"^const\s+", "", t).strip()
    return t


def field(mod, vpclass, policy, name):
    return mod.field_offset("yorel::yomm2::virtual_ptr<%s, %s>" % (vpclass, policy), name)


def stores_to_field(S, f, base_arg, off, result_local=False):
    """stores to field `off` of the object at IR argument base_arg (this / sret), or - result_local -
    of a local virtual_ptr object returned by value in registers."""
    out = []
    locals_vp = set()
    if result_local:
        for i in f.all_insts():
            if i.op == "alloca" and "virtual_ptr" in (i.get("allocty") or ""):
                locals_vp.add(i.id)
    for i in f.all_insts():
        if i.op == "store":
            a = S.value(f, i.ops[1])
            b, o = sym.split_base(a)
            if o != off or b is None:
                continue
            if b == ("arg", base_arg) or (result_local and b[0] == "alloca" and b[2] in locals_vp and b[3] == 0):
                out.append((i, S.value(f, i.ops[0])))
    return out


def globals_in(e):
    return [x[1] for x in sym.walk(e) if x[0] == "global"]


def lookup_descriptor(S, f, v):
    """(container global, key expression) of a value that is an element of a policy's v-table pointer table."""
    if v[0] != "load":
        return None
    a = v[1]
    # vector style: element address returned by operator[]
    if a[0] == "call" and re.search(r"^std::vector<.*>::operator\[\]\(unsigned long\)", a[1]) and a[2][0][0] == "global":
        return (a[2][0][1], a[2][1])
    if a[0] == "call" and re.search(r"^std::unordered_map<.*>::operator\[\]\(", a[1]) and a[2][0][0] == "global":
        key = S._forward_store(f, None, a[2][1], {}, 0, {}, 0) if a[2][1][0] == "alloca" else None
        if key is None and a[2][1][0] == "alloca":
            key = ("load", a[2][1])
        return (a[2][0][1], key)
    # map style through find(): the iterator lives in a local of this function or of an inlined callee
    ctxs = [(f, S.ctxs.get(0, (f, {}))[1] if S.ctxs.get(0) else {}, 0)]
    for x in sym.walk(v):
        if x[0] == "alloca" and x[3] != 0 and S.ctxs.get(x[3]):
            cf, cb = S.ctxs[x[3]]
            if all(c[2] != x[3] for c in ctxs):
                ctxs.append((cf, cb, x[3]))
    for cf, cb, cid in ctxs:
        for i in cf.all_insts():
            if i.op in ("call", "invoke") and i.callee and re.search(r"^std::unordered_map<.*>::find\(", irq.strip_ret(i.callee)):
                args = [S.value(cf, o, cb, 0, {}, cid) for o in i.ops]
                g = [x for x in args if x[0] == "global"]
                keys = [x for x in args if x[0] == "alloca"]
                if g and keys:
                    key = None
                    for k in keys:
                        fs = S._forward_store(cf, None, k, cb, 0, {}, cid)
                        if fs is not None:
                            key = fs
                    return (g[0][1], key)
    return None


def subst_arg(e, frm, to):
    if not isinstance(e, tuple):
        return e
    if e == ("arg", frm):
        return to
    return tuple(subst_arg(x, frm, to) if isinstance(x, tuple) else x for x in e)


def table_kind(g):
    if g.endswith("::indirect_vptrs"):
        return "indirect"
    if g.endswith("::vptrs"):
        return "direct"
    return None


def through_checked_hash(f, policy, mod=None, depth=0, memo=None):
    """every path entry -> ret passes a call of checked_perfect_hash<policy>::hash_type_id, directly or inside a
    library function that itself always passes it (e.g. a constructor that delegates to Policy::dynamic_vptr)."""
    memo = memo if memo is not None else {}
    blocked = set()
    for i in f.all_insts():
        if i.op in ("call", "invoke") and i.callee:
            if re.search(r"checked_perfect_hash<.*>::hash_type_id\(", i.callee):
                blocked.add(i.bb)
            elif mod is not None and depth < 3 and irq.is_lib_name(i.callee):
                cal = mod.funcs.get(i.get("callee"))
                if cal is not None and cal.body and cal.name != f.name:
                    if cal.name not in memo:
                        memo[cal.name] = False
                        memo[cal.name] = through_checked_hash(cal, policy, mod, depth + 1, memo)[0]
                    if memo[cal.name]:
                        blocked.add(i.bb)
    # a path that avoids every blocked block and reaches ret?
    seen = set()
    work = [f.order[0]]
    while work:
        b = work.pop()
        if b in seen or b in blocked:
            continue
        seen.add(b)
        last = f.blocks[b][-1]
        if last.op == "ret":
            return False, last
        for s in f.succ(b):
            work.append(s)
    return True, None


def expected_key(mod, policy_text, hashed, dyn):
    """the table key Policy::dynamic_vptr must use for an object whose id is `dyn`: the id itself, or
    (id * hash_mult) >> hash_shift with the policy's own hash parameters."""
    if not hashed:
        return dyn
    mult = shift = None
    for g in mod.globals.values():
        d = g["dname"]
        if d.endswith("::hash_mult") and ("fast_perfect_hash<%s>" % policy_text) in d:
            mult = d
        if d.endswith("::hash_shift") and ("fast_perfect_hash<%s>" % policy_text) in d:
            shift = d
    if mult is None or shift is None:
        return None
    return ("op", "lshr", sym.mk_mul([dyn, ("load", ("global", mult))]), ("load", ("global", shift)))
