"""Abstract interpretation of static_list<T>::push_back / remove over the finite domain of list shapes.

Abstract objects are the roles a node can play at the call: F (first), P (node's predecessor), N (the
node), X (node's successor), L (last) and null. A *case* identifies some of them (N = F for 'first',
N = L and X = null for 'last', P = F when the node is second, ...). The abstract heap maps (object,
field) to an abstract object. Statements of the instantiated body are interpreted over this heap;
every condition must be decidable from the case's identifications, otherwise the function is
unclassifiable (analysis broken). The final heap is compared with the one the documented invariant
requires ("first->prev is the last node, last->next is null, prev/next of inner nodes are their
neighbours"). No list is built and no code runs: values are role names, not nodes."""
from . import astq

NULL = "null"


class Unclassifiable(Exception):
    pass


class NullDeref(Exception):
    """the operation dereferences a pointer that is null in a case whose heap determines it: a definite crash, not an unknown"""
    pass


class Case:
    def __init__(self, name, ident, heap, expect):
        self.name = name
        self.ident = ident          # role -> canonical role
        self.heap = heap            # {(obj, field): value} in canonical roles
        self.expect = expect

    def canon(self, r):
        return self.ident.get(r, r)


def remove_cases():
    cases = []

    def mk(name, ident, is_first, has_next):
        c = lambda r: ident.get(r, r)
        heap = {("list", "first"): c("F"), (c("N"), "prev_ptr"): c("P"), (c("N"), "next_ptr"): c("X") if has_next else NULL,
                (c("F"), "prev_ptr"): c("L"), (c("L"), "next_ptr"): NULL}
        if not is_first:
            heap[(c("P"), "next_ptr")] = c("N")
        if has_next:
            heap[(c("X"), "prev_ptr")] = c("N")
        # the node's own entries win when N coincides with F / L
        heap[(c("N"), "prev_ptr")] = c("P")
        heap[(c("N"), "next_ptr")] = c("X") if has_next else NULL
        # expected final heap
        exp = {(c("N"), "prev_ptr"): NULL, (c("N"), "next_ptr"): NULL}
        new_first = (c("X") if has_next else NULL) if is_first else c("F")
        new_last = c("L") if has_next else (c("P") if not is_first else NULL)
        exp[("list", "first")] = new_first
        if new_first != NULL:
            exp[(new_first, "prev_ptr")] = new_last
            exp[(new_last, "next_ptr")] = NULL
        if not is_first:
            exp[(c("P"), "next_ptr")] = c("X") if has_next else NULL
            if has_next:
                exp[(c("X"), "prev_ptr")] = c("P")
        # entries of N itself override (N's links are reset)
        exp[(c("N"), "prev_ptr")] = NULL
        exp[(c("N"), "next_ptr")] = NULL
        cases.append(Case(name, ident, heap, exp))
    mk("only element", {"F": "N", "L": "N", "P": "N"}, True, False)
    mk("last of two", {"L": "N", "P": "F"}, False, False)
    mk("last of three or more", {"L": "N"}, False, False)
    mk("first of two", {"F": "N", "X": "L", "P": "L"}, True, True)
    mk("first of three or more", {"F": "N", "P": "L"}, True, True)
    mk("middle of three", {"P": "F", "X": "L"}, False, True)
    mk("second of four or more", {"P": "F"}, False, True)
    mk("second to last of four or more", {"X": "L"}, False, True)
    mk("interior of five or more", {}, False, True)
    # the node is NOT in the list: its registration was dropped by clear() (or it never registered), and its destructor still
    # unregisters it. Nothing may change - and nothing may be dereferenced that is not there
    for name, ident, heap in (("node not in the (empty) list", {}, {("list", "first"): NULL}),
                              ("node not in the list of one", {"L": "F"}, {("list", "first"): "F", ("F", "prev_ptr"): "F", ("F", "next_ptr"): NULL}),
                              ("node not in the list of several", {}, {("list", "first"): "F", ("F", "prev_ptr"): "L", ("L", "next_ptr"): NULL})):
        h = dict(heap)
        h[("N", "prev_ptr")] = NULL
        h[("N", "next_ptr")] = NULL
        c = Case(name, ident, h, dict(h))
        c.absent = True
        cases.append(c)
    return cases


def push_cases():
    cases = []
    # empty list
    heap = {("list", "first"): NULL, ("N", "prev_ptr"): NULL, ("N", "next_ptr"): NULL}
    exp = {("list", "first"): "N", ("N", "prev_ptr"): "N", ("N", "next_ptr"): NULL}
    cases.append(Case("empty list", {}, heap, exp))
    # one element: F = L
    heap = {("list", "first"): "F", ("F", "prev_ptr"): "F", ("F", "next_ptr"): NULL, ("N", "prev_ptr"): NULL, ("N", "next_ptr"): NULL}
    exp = {("list", "first"): "F", ("F", "prev_ptr"): "N", ("F", "next_ptr"): "N", ("N", "prev_ptr"): "F", ("N", "next_ptr"): NULL}
    cases.append(Case("one element", {"L": "F"}, heap, exp))
    heap = {("list", "first"): "F", ("F", "prev_ptr"): "L", ("L", "next_ptr"): NULL, ("N", "prev_ptr"): NULL, ("N", "next_ptr"): NULL}
    exp = {("list", "first"): "F", ("F", "prev_ptr"): "N", ("L", "next_ptr"): "N", ("N", "prev_ptr"): "L", ("N", "next_ptr"): NULL}
    cases.append(Case("two or more elements", {}, heap, exp))
    return cases


class Interp:
    def __init__(self, fn, case):
        self.fn = fn
        self.case = case
        self.heap = dict(case.heap)
        self.locals = {}
        self.node_param = fn["params"][0]["did"]
        self.returned = False
        self.counters = {}          # integer fields of the list itself (an element count kept next to the links): name -> net change

    # -- expressions ---------------------------------------------------------
    def addr(self, n):
        """(object, field) designated by an lvalue expression, or ('local', did)"""
        n = astq.strip(n)
        k = n.get("k")
        if k == "DeclRefExpr":
            if n["ref"]["did"] == self.node_param:
                return ("obj", "N")
            return ("local", n["ref"]["did"])
        if k == "MemberExpr":
            c = n.get("c") or []
            m = n["member"]
            if not c or astq.strip(c[0]).get("k") == "CXXThisExpr":
                return ("field", "list", m)
            base = astq.strip(c[0])
            if n.get("arrow"):
                o = self.val(base)
            else:
                a = self.addr(base)
                if a[0] != "obj":
                    raise Unclassifiable("member of non-object " + astq.text(n))
                o = a[1]
            if o == NULL:
                raise NullDeref("`%s` goes through a null pointer" % astq.text(n))
            return ("field", o, m)
        if k == "UnaryOperator" and n.get("op") == "*":
            o = self.val(n["c"][0])
            return ("obj", o)
        raise Unclassifiable("lvalue " + astq.text(n))

    def val(self, n):
        n = astq.strip(n)
        k = n.get("k")
        if k in ("CXXNullPtrLiteralExpr", "GNUNullExpr") or (k == "IntegerLiteral" and n.get("v") == 0):
            return NULL
        if k == "UnaryOperator" and n.get("op") == "&":
            a = self.addr(n["c"][0])
            if a[0] == "obj":
                return a[1]
            raise Unclassifiable("address of " + astq.text(n))
        if k == "ConditionalOperator":
            c = self.cond(n["c"][0])
            return self.val(n["c"][1] if c else n["c"][2])
        if k in ("DeclRefExpr", "MemberExpr") or (k == "UnaryOperator" and n.get("op") == "*"):
            a = self.addr(n)
            if a[0] == "local":
                if a[1] not in self.locals:
                    raise Unclassifiable("read of unset local " + astq.text(n))
                return self.locals[a[1]]
            if a[0] == "field":
                key = (a[1], a[2])
                if key not in self.heap:
                    raise Unclassifiable("read of a link the case does not determine: %s.%s in case '%s'" % (a[1], a[2], self.case.name))
                return self.heap[key]
            if a[0] == "obj":
                return a[1]
        raise Unclassifiable("value " + astq.text(n))

    def cond(self, n):
        n = astq.strip(n)
        k = n.get("k")
        if k == "UnaryOperator" and n.get("op") == "!":
            return not self.cond(n["c"][0])
        if k == "BinaryOperator" and n.get("op") in ("==", "!="):
            a, b = self.val(n["c"][0]), self.val(n["c"][1])
            eq = a == b
            return eq if n["op"] == "==" else not eq
        if k == "BinaryOperator" and n.get("op") in ("&&", "||"):
            a = self.cond(n["c"][0])
            if n["op"] == "&&":
                return a and self.cond(n["c"][1])
            return a or self.cond(n["c"][1])
        if k == "CXXMemberCallExpr" and (n.get("callee") or "").endswith("::empty") and (not n.get("c") or not (astq.strip(n["c"][0]) or {}).get("c") or (astq.strip((astq.strip(n["c"][0]) or {}).get("c", [{}])[0]) or {}).get("k") == "CXXThisExpr"):
            # the list's own emptiness test
            return self.heap.get(("list", "first")) == NULL
        # pointer used as a condition
        return self.val(n) != NULL

    # -- statements ----------------------------------------------------------
    def run(self, n):
        if n is None or self.returned:
            return
        k = n.get("k")
        if k == "CompoundStmt":
            for c in n.get("c") or []:
                self.run(c)
                if self.returned:
                    return
        elif k == "IfStmt":
            if self.cond(n["cond"]):
                self.run(n.get("then"))
            else:
                self.run(n.get("else"))
        elif k == "ReturnStmt":
            self.returned = True
        elif k == "DeclStmt":
            for d in n["decls"]:
                if d.get("init") is not None:
                    self.locals[d["did"]] = self.val(d["init"])
        elif k in ("UnaryOperator", "CompoundAssignOperator") and n.get("op") in ("++", "--", "+=", "-="):
            a = self.addr(n["c"][0])
            if a[0] != "field" or a[1] != "list":
                raise Unclassifiable("arithmetic on " + astq.text(n["c"][0]))
            step = 1
            if k == "CompoundAssignOperator":
                c = astq.affine(n["c"][1])
                if c is None or set(c) - {1}:
                    raise Unclassifiable("non-constant step on " + a[2])
                step = c.get(1, 0)
            self.counters[a[2]] = self.counters.get(a[2], 0) + (step if n["op"] in ("++", "+=") else -step)
        elif k == "BinaryOperator" and n.get("op") == "=" and astq.strip(n["c"][0]).get("k") == "MemberExpr" and astq.strip(n["c"][0]).get("member") not in ("first", "prev_ptr", "next_ptr") \
                and self.addr(n["c"][0])[:2] == ("field", "list"):
            c = astq.affine(n["c"][1])
            self.counters[self.addr(n["c"][0])[2]] = ("set", c.get(1, 0)) if c is not None and not (set(c) - {1}) else ("set", "?")
        elif k == "BinaryOperator" and n.get("op") == "=":
            v = self.val(n["c"][1])
            a = self.addr(n["c"][0])
            if a[0] == "local":
                self.locals[a[1]] = v
            elif a[0] == "field":
                self.heap[(a[1], a[2])] = v
            else:
                raise Unclassifiable("assignment to " + astq.text(n["c"][0]))
        elif k in ("ExprWithCleanups", "ParenExpr"):
            for c in n.get("c") or []:
                self.run(c)
        elif k in ("NullStmt",):
            return
        elif k == "ConditionalOperator" or (k in ("CallExpr", "CXXMemberCallExpr", "BinaryOperator", "ImplicitCastExpr", "CStyleCastExpr", "CXXFunctionalCastExpr", "CXXStaticCastExpr")):
            # assertions: `cond ? (void)0 : fail()`; `(void)0`, etc. - no effect on the lists
            for x in astq.walk(n):
                if x.get("k") == "BinaryOperator" and x.get("op") == "=":
                    raise Unclassifiable("assignment inside an expression statement")
            return
        else:
            raise Unclassifiable("statement kind " + str(k))


def analyse(fn, cases):
    """-> list of (case, ok, differences | error)"""
    out = []
    for case in cases:
        it = Interp(fn, case)
        try:
            it.run(fn["body"])
        except Unclassifiable as e:
            out.append((case, None, str(e)))
            continue
        except NullDeref as e:
            case.counters = dict(it.counters)
            out.append((case, False, ["list.crash: %s" % e]))
            continue
        case.counters = dict(it.counters)
        diffs = []
        for key, want in sorted(case.expect.items()):
            got = it.heap.get(key, "<unset>")
            if got != want:
                diffs.append("%s.%s is %s, the invariant needs %s" % (key[0], key[1], got, want))
        out.append((case, not diffs, diffs))
    return out
