"""Witness translation units: declarations that force the instantiation of the
library's templates over a matrix of signature shapes x parameter kinds x
policies. They contain no test logic and are never linked or run."""
import itertools

PRELUDE = r'''
#include <yorel/yomm2/core.hpp>
#include <yorel/yomm2/symbols.hpp>
#include <memory>
#include <ostream>
using namespace yorel::yomm2;
namespace yw {
struct A { virtual ~A() {} int a; };
struct B : A { int b; };
struct C : A { int c; };
struct VB : virtual A { int vb; };                      // virtual base: conversions need dynamic_cast
struct Fin final : A { int f; };                        // a C++-final class (static type == dynamic type by construction)
struct Trk { Trk(); Trk(const Trk&); Trk(Trk&&) noexcept; ~Trk(); int v; };   // tracked non-virtual argument type

// ---- policies -------------------------------------------------------------
struct p_map : policy::basic_policy<p_map, policy::std_rtti, policy::vptr_map<p_map>, policy::vectored_error<p_map>> {};
struct p_ind : policy::release::rebind<p_ind>, policy::basic_indirect_vptr<p_ind> {};
struct p_throw : policy::basic_policy<p_throw, policy::std_rtti, policy::fast_perfect_hash<p_throw>, policy::vptr_vector<p_throw>, policy::throw_error> {};
struct p_dbg2 : policy::debug::rebind<p_dbg2> {};
// integer ids kept in the objects, no hash: vptr_vector indexed by the id itself
struct int_rtti : policy::rtti {
    template<typename T> static type_id static_type() { if constexpr (std::is_base_of_v<A, T>) return T::a * 0 + sizeof(T); else return 0; }
    template<typename T> static type_id dynamic_type(const T& obj) { if constexpr (std::is_base_of_v<A, T>) return (type_id)obj.a; else return 0; }
    template<typename D, typename B_> static D dynamic_cast_ref(B_&& obj) { return dynamic_cast<D>(obj); }
};
struct p_nohash : policy::basic_policy<p_nohash, policy::std_rtti, policy::vptr_vector<p_nohash>, policy::vectored_error<p_nohash>> {};
// deferred static ids
struct def_rtti : policy::deferred_static_rtti {
    template<typename T> static type_id static_type() { return sizeof(T); }
    template<typename T> static type_id dynamic_type(const T& obj) { if constexpr (std::is_base_of_v<A, T>) return (type_id)obj.a; else return 0; }
    template<typename D, typename B_> static D dynamic_cast_ref(B_&& obj) { return dynamic_cast<D>(obj); }
};
struct p_def : policy::basic_policy<p_def, def_rtti, policy::vptr_vector<p_def>, policy::vectored_error<p_def>> {};
// many-to-one projection: several ids per class
struct proj_rtti : policy::rtti {
    template<typename T> static type_id static_type() { return sizeof(T) * 2; }
    template<typename T> static type_id dynamic_type(const T& obj) { if constexpr (std::is_base_of_v<A, T>) return (type_id)obj.a; else return 0; }
    static type_id type_index(type_id id) { return id / 2; }
    template<typename D, typename B_> static D dynamic_cast_ref(B_&& obj) { return dynamic_cast<D>(obj); }
};
struct p_proj : policy::basic_policy<p_proj, proj_rtti, policy::vptr_map<p_proj>, policy::vectored_error<p_proj>> {};
// run-time checks without an error_handler facet: a failed check can only abort
struct p_noerr : policy::basic_policy<p_noerr, policy::std_rtti, policy::checked_perfect_hash<p_noerr>, policy::vptr_vector<p_noerr>> {};
template<class P> struct pol_classes { use_classes<A, B, C, VB, Fin, P> reg; };
}  // namespace yw
'''

POLICIES = {
    "release": "policy::release",
    "debug": "policy::debug",
    "p_map": "yw::p_map",
    "p_ind": "yw::p_ind",
    "p_throw": "yw::p_throw",
    "p_dbg2": "yw::p_dbg2",
    "p_nohash": "yw::p_nohash",
    "p_def": "yw::p_def",
    "p_proj": "yw::p_proj",
    "p_noerr": "yw::p_noerr",
}
HASHED = {"release", "debug", "p_ind", "p_throw", "p_dbg2"}
CHECKED = {"debug", "p_dbg2"}      # stock checked policies (p_noerr is checked too, but has no handler to report to)
INDIRECT = {"p_ind"}
HAS_ERROR = set(POLICIES) - {"p_noerr"}

# virtual parameter kinds: letter -> (method parameter, definition parameter, call-site parameter decl, call expr)
VKINDS = {
    "r": ("virtual_<yw::A&>", "yw::B&", "yw::A& {n}", "{n}"),
    "c": ("virtual_<const yw::A&>", "const yw::B&", "const yw::A& {n}", "{n}"),
    "m": ("virtual_<yw::A&&>", "yw::B&&", "yw::A&& {n}", "std::move({n})"),
    "p": ("virtual_<yw::A*>", "yw::B*", "yw::A* {n}", "{n}"),
    "s": ("virtual_<std::shared_ptr<yw::A>>", "std::shared_ptr<yw::B>", "std::shared_ptr<yw::A> {n}", "{n}"),
    "S": ("virtual_<const std::shared_ptr<yw::A>&>", "const std::shared_ptr<yw::B>&", "const std::shared_ptr<yw::A>& {n}", "{n}"),
    "V": ("virtual_ptr<yw::A, {P}>", "virtual_ptr<yw::B, {P}>", "virtual_ptr<yw::A, {P}> {n}", "{n}"),
    "W": ("const virtual_ptr<yw::A, {P}>&", "const virtual_ptr<yw::B, {P}>&", "const virtual_ptr<yw::A, {P}>& {n}", "{n}"),
    "X": ("virtual_ptr<std::shared_ptr<yw::A>, {P}>", "virtual_ptr<std::shared_ptr<yw::B>, {P}>", "virtual_ptr<std::shared_ptr<yw::A>, {P}> {n}", "{n}"),
    "Y": ("const virtual_ptr<std::shared_ptr<yw::A>, {P}>&", "const virtual_ptr<std::shared_ptr<yw::B>, {P}>&", "const virtual_ptr<std::shared_ptr<yw::A>, {P}>& {n}", "{n}"),
}
NKINDS = {
    "i": ("int", "int", "int {n}", "{n}"),
    "d": ("double&", "double&", "double& {n}", "{n}"),
    "u": ("std::unique_ptr<int>", "std::unique_ptr<int>", "std::unique_ptr<int> {n}", "std::move({n})"),
    "t": ("yw::Trk", "yw::Trk", "yw::Trk {n}", "std::move({n})"),
    "q": ("yw::Trk&&", "yw::Trk&&", "yw::Trk&& {n}", "std::move({n})"),
    "k": ("const yw::Trk&", "const yw::Trk&", "const yw::Trk& {n}", "{n}"),
}
ALLK = dict(VKINDS)
ALLK.update(NKINDS)


def is_virtual(ch):
    return ch in VKINDS


def arity(shape):
    return sum(1 for ch in shape if is_virtual(ch))


def vpositions(shape):
    return [i for i, ch in enumerate(shape) if is_virtual(ch)]


def masks(max_len=5, max_arity=4):
    out = []
    for n in range(1, max_len + 1):
        for bits in itertools.product("vn", repeat=n):
            k = bits.count("v")
            if 1 <= k <= max_arity:
                out.append("".join(bits))
    return out


def shapes_quick():
    """Concrete shapes (letters) for the quick tier: every mask of length <= 3 plus two longer
    ones, virtual / non-virtual kinds rotating so that each kind occurs."""
    ms = [m for m in masks(3, 3)] + ["vnvnv", "nvnv", "vvvv", "nvvnv"]
    # consecutive by-value virtual_ptr parameters (each passed in two registers)
    return _assign(ms) + ["VV", "iVVV", "VXV"]


def shapes_thorough():
    return _assign(masks(5, 4))


def _assign(ms):
    vk = "rcmpsSVWXY"
    nk = "idutqk"
    out = []
    vi = ni = 0
    for m in ms:
        s = ""
        for ch in m:
            if ch == "v":
                s += vk[vi % len(vk)]
                vi += 1
            else:
                s += nk[ni % len(nk)]
                ni += 1
        out.append(s)
    # plain-reference variants of every mask keep the classic route covered too
    for m in ms:
        s = "".join("r" if ch == "v" else "i" for ch in m)
        if s not in out:
            out.append(s)
    return out


DYN_SHAPES = ["r", "pi", "sS", "V", "X", "cW"]       # also instantiated with a definition on the virtual-base class


def method_block(pname, shape, idx, with_macro=False, defcls="yw::B"):
    P = POLICIES[pname]
    ns = "w_%s_%d" % (pname, idx)
    margs, dargs, cparams, cexprs, rparams = [], [], [], [], []
    for i, ch in enumerate(shape):
        k = ALLK[ch]
        n = "a%d" % i
        margs.append(k[0].format(P=P))
        dargs.append(k[1].format(P=P).replace("yw::B", defcls))
        cparams.append(k[2].format(P=P, n=n))
        cexprs.append(k[3].format(n=n))
    src = []
    src.append("namespace %s { // shape %s policy %s" % (ns, shape, pname))
    src.append("struct key;")
    src.append("using M = method<key, int(%s), %s>;" % (", ".join(margs), P))
    src.append("int def(%s) { return 1; }" % ", ".join(dargs))
    src.append("M::add_function<def> reg;")
    src.append("int call(%s) { return M::fn(%s); }" % (", ".join(cparams), ", ".join(cexprs)))
    # resolve() takes const references to the call arguments
    src.append("auto res(%s) { return M::fn.resolve(%s); }" % (
        ", ".join(p for p in cparams), ", ".join("a%d" % i for i in range(len(shape)))))
    src.append("}")
    return "\n".join(src)


def static_slots(shape):
    n = arity(shape)
    return [1000 * (k + 1) + 7 for k in range(n)], [70000 + 1000 * k + 3 for k in range(1, n)]


def static_method_block(pname, shape, idx):
    """a method whose slots/strides come from a detail::static_offsets specialisation (generated header)."""
    P = POLICIES[pname]
    ns = "so_%s_%d" % (pname, idx)
    margs = [ALLK[ch][0].format(P=P) for ch in shape]
    blk = method_block(pname, shape, idx).replace("namespace w_%s_%d {" % (pname, idx), "namespace %s {" % ns, 1)
    lines = blk.split("\n")
    head = "\n".join(lines[:3]) + "\n}"
    slots, strides = static_slots(shape)
    spec = "template<> struct yorel::yomm2::detail::static_offsets<%s::M> { static constexpr std::size_t slots[] = {%s};%s };" % (
        ns, ", ".join(map(str, slots)), (" static constexpr std::size_t strides[] = {%s};" % ", ".join(map(str, strides))) if strides else "")
    tail = "namespace %s {\n" % ns + "\n".join(lines[3:])
    return head + "\n" + spec + "\n" + tail, ns


def call_matrix(policies, shapes, extra="", static_shapes=()):
    """One TU: the prelude, class registrations for each policy, one method per (policy, shape)."""
    src = [PRELUDE]
    for p in policies:
        src.append("static yw::pol_classes<%s> classes_%s;" % (POLICIES[p], p))
    idx = 0
    index = []
    for p in policies:
        for s in shapes:
            if p in ("p_def", "p_proj") and any(ch in "m" for ch in s):
                pass
            src.append(method_block(p, s, idx))
            index.append({"ns": "w_%s_%d" % (p, idx), "policy": p, "shape": s})
            idx += 1
        for s in DYN_SHAPES:
            if (p in ("p_def", "p_proj") and False):
                continue
            src.append(method_block(p, s, idx, defcls="yw::VB"))
            index.append({"ns": "w_%s_%d" % (p, idx), "policy": p, "shape": s, "defcls": "yw::VB"})
            idx += 1
        for s in static_shapes:
            blk, ns = static_method_block(p, s, idx)
            src.append(blk)
            sl, st = static_slots(s)
            index.append({"ns": ns, "policy": p, "shape": s, "static": True, "slots": sl, "strides": st})
            idx += 1
    src.append(extra)
    return "\n".join(src), index


VPTR_ROUTES = r'''
namespace yw_routes {
template<class P> struct routes {
    static auto from_ref(yw::A& a) { return virtual_ptr<yw::A, P>(a); }
    static auto from_exact(yw::B& b) { return virtual_ptr<yw::B, P>(b); }
    static auto from_const(const yw::A& a) { return virtual_ptr<const yw::A, P>(a); }
    static auto fin(yw::B& b) { return virtual_ptr<yw::B, P>::final(b); }
    static auto fin2(yw::B& b) { return final_virtual_ptr<P>(b); }
    static auto conv(virtual_ptr<yw::B, P>& p) { return virtual_ptr<yw::A, P>(p); }
    static auto convc(const virtual_ptr<yw::B, P>& p) { return virtual_ptr<yw::A, P>(p); }
    static auto convm(virtual_ptr<yw::B, P>&& p) { return virtual_ptr<yw::A, P>(std::move(p)); }
    static auto copy(const virtual_ptr<yw::A, P>& p) { virtual_ptr<yw::A, P> q(p); return q; }
    static auto down(const virtual_ptr<yw::A, P>& p) { return p.template cast<virtual_ptr<yw::B, P>>(); }
    static auto sh_lv(std::shared_ptr<yw::A>& s) { return virtual_ptr<std::shared_ptr<yw::A>, P>(s); }
    static auto sh_clv(const std::shared_ptr<yw::A>& s) { return virtual_ptr<std::shared_ptr<yw::A>, P>(s); }
    static auto sh_rv(std::shared_ptr<yw::A>&& s) { return virtual_ptr<std::shared_ptr<yw::A>, P>(std::move(s)); }
    static auto sh_exact(std::shared_ptr<yw::B>& s) { return virtual_ptr<std::shared_ptr<yw::B>, P>(s); }
    static auto sh_fin(std::shared_ptr<yw::B>& s) { return virtual_ptr<std::shared_ptr<yw::B>, P>::final(s); }
    static auto sh_finr() { return virtual_ptr<std::shared_ptr<yw::B>, P>::final(std::make_shared<yw::B>()); }
    static auto sh_make() { return make_virtual_shared<yw::B, P>(); }
    static auto sh_conv(const virtual_ptr<std::shared_ptr<yw::B>, P>& p) { return virtual_ptr<std::shared_ptr<yw::A>, P>(p); }
    static auto sh_convm(virtual_ptr<std::shared_ptr<yw::B>, P>&& p) { return virtual_ptr<std::shared_ptr<yw::A>, P>(std::move(p)); }
    static auto sh_const(std::shared_ptr<const yw::A>& s) { return virtual_ptr<std::shared_ptr<const yw::A>, P>(s); }
    static auto sh_const_exact(std::shared_ptr<const yw::B>& s) { return virtual_ptr<std::shared_ptr<const yw::B>, P>(s); }
    static auto sh_const_fin(std::shared_ptr<const yw::B>& s) { return virtual_ptr<std::shared_ptr<const yw::B>, P>::final(s); }
    static auto sh_const_make() { return make_virtual_shared<const yw::B, P>(); }
    static auto const_fin(const yw::B& b) { return virtual_ptr<const yw::B, P>::final(b); }
    static auto cxxfinal_ctor(yw::Fin& f) { return virtual_ptr<yw::Fin, P>(f); }
    static auto cxxfinal_fin(yw::Fin& f) { return virtual_ptr<yw::Fin, P>::final(f); }
    static auto cxxfinal_sh(std::shared_ptr<yw::Fin>& s) { return virtual_ptr<std::shared_ptr<yw::Fin>, P>(s); }
    static auto cxxfinal_sh_fin(std::shared_ptr<yw::Fin>& s) { return virtual_ptr<std::shared_ptr<yw::Fin>, P>::final(s); }
    static auto cxxfinal_make() { return make_virtual_shared<yw::Fin, P>(); }
    // the references the constructor's dynamic route is compared with, one per pointee class used above
    static auto cxxfinal_dyn(const yw::Fin& f) { return P::dynamic_vptr(f); }
    static auto dynref_A(const yw::A& a) { return P::dynamic_vptr(a); }
    static auto dynref_B(const yw::B& b) { return P::dynamic_vptr(b); }
    static auto sh_down(const virtual_ptr<std::shared_ptr<yw::A>, P>& p) { return p.template cast<virtual_ptr<std::shared_ptr<yw::B>, P>>(); }
    static yw::A* get(const virtual_ptr<yw::A, P>& p) { return p.get(); }
    static yw::A& deref(const virtual_ptr<yw::A, P>& p) { return *p; }
    static int arrow(const virtual_ptr<yw::A, P>& p) { return p->a; }
    static auto vp(const virtual_ptr<yw::A, P>& p) { return p._vptr(); }
    static auto sh_get(const virtual_ptr<std::shared_ptr<yw::A>, P>& p) { return p.get(); }
    static yw::A& sh_deref(const virtual_ptr<std::shared_ptr<yw::A>, P>& p) { return *p; }
};
}
'''


def routes_block(policies):
    src = [VPTR_ROUTES]
    for p in policies:
        src.append("template struct yw_routes::routes<%s>;" % POLICIES[p])
    return "\n".join(src)


def update_block(policies):
    src = ["#include <yorel/yomm2/generator.hpp>", "#include <sstream>", "namespace yw_upd {"]
    src.append("struct DD { union { struct { uint16_t headroom[4]; uint16_t slots[4]; uint16_t vtbls[4]; } encoded; std::uintptr_t vtbls[4]; }; std::uintptr_t dtbls[4]; };")
    for p in policies:
        P = POLICIES[p]
        src.append("auto upd_%s() { return update<%s>(); }" % (p, P))
        src.append("void clr_%s() { %s::classes.clear(); %s::methods.clear(); }" % (p, P, P))
        if p not in ("p_def", "p_proj"):
            src.append("void gen_%s(std::ostream& os) { auto c = update<%s>(); generator g; g.write_static_offsets<%s>(os); generator::encode_dispatch_data(c, os); }" % (p, P, P))
            src.append("void dec_%s(DD& d) { decode_dispatch_data<%s>(d); }" % (p, P))
    src.append("}")
    return "\n".join(src)
