"""Queries over the JSON form of an LLVM-IR module produced by build/yir.
Everything here is static: def-use chains, CFG reachability, symbolic
summaries of SSA values and effect sets. No IR is ever interpreted with
concrete inputs."""
import json
import re


class Inst:
    __slots__ = ("fn", "bb", "id", "op", "ty", "ops", "line", "file", "d")

    def __init__(self, fn, bb, d):
        self.fn = fn
        self.bb = bb
        self.id = d["id"]
        self.op = d["op"]
        self.ty = d.get("ty")
        self.ops = d.get("ops", [])
        self.line = d.get("line")
        self.file = d.get("file")
        self.d = d

    def get(self, k, default=None):
        return self.d.get(k, default)

    @property
    def callee(self):
        return self.d.get("dcallee")

    def where(self):
        return "%s:%s" % (self.file or self.fn.file or "?", self.line or self.fn.line or "?")

    def __repr__(self):
        return "<%s %%%d in %s>" % (self.op, self.id, self.fn.dname[:60])


class Func:
    def __init__(self, mod, d):
        self.mod = mod
        self.name = d["name"]
        self.dname = d["dname"]
        self.decl = d["decl"]
        self.body = d.get("body", False)
        self.noreturn = d.get("noreturn", False)
        self.args = d.get("args", [])
        self.ret = d.get("ret")
        self.file = d.get("file")
        self.line = d.get("line")
        self.blocks = {}
        self.order = []
        self.insts = {}
        for b in d.get("blocks", []):
            lst = []
            for i in b["insts"]:
                ins = Inst(self, b["id"], i)
                lst.append(ins)
                self.insts[ins.id] = ins
            self.blocks[b["id"]] = lst
            self.order.append(b["id"])
        self._succ = None
        self._uses = None

    def succ(self, bb, normal_only=True):
        t = self.blocks[bb][-1]
        s = t.get("succ", [])
        if t.op == "invoke" and normal_only:
            return s[:1]
        return s

    def all_insts(self):
        for b in self.order:
            for i in self.blocks[b]:
                yield i

    def uses(self):
        """inst id / ('a',k) -> list of user instructions"""
        if self._uses is None:
            u = {}
            for i in self.all_insts():
                for o in _flat_ops(i):
                    if o[0] == "i":
                        u.setdefault(("i", o[1]), []).append(i)
                    elif o[0] == "a":
                        u.setdefault(("a", o[1]), []).append(i)
            self._uses = u
        return self._uses

    def where(self):
        return "%s:%s" % (self.file or "?", self.line or "?")


def _flat_ops(i):
    out = []

    def rec(o):
        if not isinstance(o, list) or not o:
            return
        if o[0] in ("i", "a", "g", "f", "c"):
            out.append(o)
        elif o[0] == "ce":
            for x in o[2]:
                rec(x)
        elif o[0] == "cgep":
            rec(o[1])
        elif o[0] == "agg":
            for x in o[1]:
                rec(x)
    for o in i.ops:
        rec(o)
    ind = i.get("indirect")
    if ind:
        rec(ind)
    for t in i.get("gepvars", []) or []:
        rec(t[0])
    return out


class Module:
    def __init__(self, path):
        with open(path) as f:
            d = json.load(f)
        self.path = path
        self.globals = {g["name"]: g for g in d["globals"]}
        self.funcs = {}
        self.by_dname = {}
        for fd in d["functions"]:
            f = Func(self, fd)
            self.funcs[f.name] = f
            self.by_dname.setdefault(f.dname, []).append(f)
        self.layouts = d.get("layouts", {})
        self.layout_by_name = {}
        for k, v in self.layouts.items():
            nm = v["name"]
            if nm.startswith("typeinfo name for "):
                nm = nm[len("typeinfo name for "):]
            v["name"] = nm
            self.layout_by_name[nm] = v

    def gd(self, name):
        g = self.globals.get(name)
        return g["dname"] if g else name

    def find(self, pattern, body=True):
        rx = re.compile(pattern)
        return [f for f in self.funcs.values() if rx.search(f.dname) and (f.body or not body)]

    def field_offset(self, struct_name, field):
        lo = self.layout_by_name.get(struct_name)
        if not lo:
            for n, v in self.layout_by_name.items():
                if n.endswith(struct_name):
                    lo = v
                    break
        if not lo:
            return None
        return lo["fields"].get(field)


# ---------------------------------------------------------------------------
# demangled signatures

def split_top(s, sep=","):
    out, depth, cur = [], 0, ""
    i = 0
    while i < len(s):
        ch = s[i]
        if ch in "<([{":
            depth += 1
        elif ch in ">)]}":
            # '->' and 'operator>' do not occur inside parameter lists we split
            depth -= 1
        if ch == sep and depth == 0:
            out.append(cur.strip())
            cur = ""
        else:
            cur += ch
        i += 1
    if cur.strip():
        out.append(cur.strip())
    return out


def param_list(dname):
    """parameter type strings of a demangled function name (top-level parentheses)."""
    # find the last top-level '(...)' group that is the parameter list
    depth = 0
    end = None
    s = dname
    # strip trailing qualifiers
    m = re.search(r"\)\s*(const)?\s*(&|&&)?\s*(\[clone[^\]]*\])?$", s)
    if not m:
        return None
    end = m.start()
    depth = 0
    i = end
    while i >= 0:
        ch = s[i]
        if ch == ")":
            depth += 1
        elif ch == "(":
            depth -= 1
            if depth == 0:
                break
        i -= 1
    if i < 0:
        return None
    inner = s[i + 1:end]
    if inner.strip() in ("", "void"):
        return []
    return split_top(inner)


def is_const_member(dname):
    return bool(re.search(r"\)\s*const\s*(&|&&)?$", dname))


def base_name(dname):
    """function name without the parameter list."""
    pl = param_list(dname)
    if pl is None:
        return dname
    m = re.search(r"\)\s*(const)?\s*(&|&&)?\s*(\[clone[^\]]*\])?$", dname)
    end = m.start()
    depth = 0
    i = end
    while i >= 0:
        ch = dname[i]
        if ch == ")":
            depth += 1
        elif ch == "(":
            depth -= 1
            if depth == 0:
                break
        i -= 1
    return dname[:i]


def template_args(name):
    """top-level template arguments of the LAST template-id in name, e.g. 'a::b<x, y<z>>' -> ['x','y<z>']"""
    if not name.endswith(">"):
        return None
    depth = 0
    i = len(name) - 1
    while i >= 0:
        if name[i] == ">":
            depth += 1
        elif name[i] == "<":
            depth -= 1
            if depth == 0:
                break
        i -= 1
    return split_top(name[i + 1:-1])


TRUSTED_PREFIXES = ("std::", "__gnu_cxx::", "boost::", "__cxa_", "__cxx", "operator new", "operator delete",
                    "__dynamic_cast", "__clang_call_terminate", "llvm.", "_Unwind", "__gxx_personality", "void std::", "bool std::")


def is_trusted(dname, name=""):
    d = strip_ret(dname)
    return d.startswith(TRUSTED_PREFIXES) or name.startswith(("llvm.", "__cxa", "_Unwind", "__dynamic_cast", "__gxx", "__clang"))


def _fnptr_inner(dname):
    """'R (*NAME(PARAMS))(FPARAMS) [const]' (a function returning a function pointer) -> 'NAME(PARAMS)'"""
    depth = 0
    for i, ch in enumerate(dname):
        if ch == "<":
            depth += 1
        elif ch == ">":
            depth -= 1
        elif ch == "(" and depth == 0:
            if dname.startswith("(*", i):
                j = i + 2
                d2 = 1
                k = j
                while k < len(dname) and d2:
                    if dname[k] == "(":
                        d2 += 1
                    elif dname[k] == ")":
                        d2 -= 1
                    k += 1
                return dname[j:k - 1]
            return None
    return None


def strip_ret(dname):
    """demangled template functions carry a leading return type: 'int foo<int>(int)'. Return the part
    starting at the qualified name (best effort: last top-level space before the parameter list)."""
    inner = _fnptr_inner(dname)
    if inner is not None:
        return inner
    bn = base_name(dname)
    depth = 0
    cut = 0
    for i, ch in enumerate(bn):
        if ch in "<(":
            depth += 1
        elif ch in ">)":
            depth -= 1
        elif ch == " " and depth == 0:
            # "operator new", "unsigned long" etc. are handled by callers matching on substrings
            cut = i + 1
    rest = bn[cut:]
    if rest.startswith(("new", "delete")) and bn[:cut].rstrip().endswith("operator"):
        return dname
    return dname[cut:]


def is_lib_name(dname):
    """the function itself (not merely one of its parameter types) is defined in namespace yorel::yomm2"""
    return strip_ret(dname).startswith("yorel::yomm2::")
