// replay F5: debug-build cross-check of correctly generated static offsets, arity 3.
// Step 1 (no -DSTATIC): prints the installed slots/strides. Step 2 (-DSTATIC -DYS0=.. -DYT1=.. etc):
// compiled with exactly those numbers; a correct check must accept them.
#include <yorel/yomm2/core.hpp>
#include <yorel/yomm2/symbols.hpp>
#include <iostream>
using namespace yorel::yomm2;
struct A { virtual ~A(){} }; struct B : A {}; struct C : A {};
struct key;
using M = method<key, int(virtual_<A&>, virtual_<A&>, virtual_<A&>), policy::debug>;
#ifdef STATIC
template<> struct yorel::yomm2::detail::static_offsets<M> {
  static constexpr std::size_t slots[] = {YS0, YS1, YS2}; static constexpr std::size_t strides[] = {YT1, YT2}; };
#endif
use_classes<A,B,C,policy::debug> cls;
M m;
int bbb(B&, B&, B&) { return 1; } int cac(C&, A&, C&) { return 2; }
M::add_function<bbb> a1; M::add_function<cac> a2;
int main(){ update<policy::debug>();
 policy::debug::error = [](const error_type& e){ std::cerr << "handler: alternative " << e.index() << (std::holds_alternative<static_stride_error>(e) ? " static_stride_error" : "") << "\n"; };
 std::cerr << "installed:"; for (auto v : M::slots_strides) std::cerr << " " << v; std::cerr << "\n";
 B b; C c; A a; std::cerr << "call -> " << M::fn(c, a, c) << "\n"; }
