// Pre-generated dispatch tables (generator::encode_dispatch_data +
// decode_dispatch_data) identify methods, definitions and classes by their
// POSITION in the registration lists. The registration order is the order of
// static initialisation across translation units, i.e. the link order, which
// is unspecified and differs between the generator program and the
// application. When it differs, calls silently run the wrong definition.
//
// This one file plays four translation units, selected with -DTU_xxx:
//   TU_DOG : class registrations and the definition of kick(Dog)
//   TU_CAT : definition of kick(Cat)
//   TU_GEN : main() of the generator program: update() + encode_dispatch_data
//   TU_APP : main() of the application: #include "tables.hpp" + calls
// See run.sh: the generator is linked "gen dog cat", the application
// "app cat dog". Same sources, same registry, another link order.

#include <yorel/yomm2/keywords.hpp>
#ifdef TU_GEN
// (generator.hpp defines two non-inline functions: it can only be included in
// one translation unit)
#include <yorel/yomm2/generator.hpp>
#else
#include <yorel/yomm2/decode.hpp>
#endif

#include <iostream>
#include <string>

using namespace yorel::yomm2;

// ---- what would be "animals.hpp" -------------------------------------------
struct Animal {
    virtual ~Animal() {
    }
};
struct Dog : Animal {};
struct Cat : Animal {};

declare_method(std::string, kick, (virtual_<Animal&>));

// ---- dog.cpp ---------------------------------------------------------------
#ifdef TU_DOG
register_classes(Animal, Dog, Cat); // as in the example: classes with the first definitions
define_method(std::string, kick, (Dog&)) {
    return "bark";
}
#endif

// ---- cat.cpp ---------------------------------------------------------------
#ifdef TU_CAT
define_method(std::string, kick, (Cat&)) {
    return "hiss";
}
#endif

// ---- generator_gen.cpp -----------------------------------------------------
#ifdef TU_GEN
int main() {
    auto compiler = update();
    generator::encode_dispatch_data(compiler, std::cout);
    return 0;
}
#endif

// ---- app.cpp ---------------------------------------------------------------
#ifdef TU_APP
int main() {
#include "tables.hpp"

    Dog dog;
    Cat cat;
    Animal& a_dog = dog;
    Animal& a_cat = cat;
    int fails = 0;

    auto r1 = kick(a_dog);
    auto r2 = kick(a_cat);

    if (r1 != "bark") {
        std::cout << "FAIL: kick(Dog) ran another definition, returned " << r1
                  << "\n";
        ++fails;
    }

    if (r2 != "hiss") {
        std::cout << "FAIL: kick(Cat) ran another definition, returned " << r2
                  << "\n";
        ++fails;
    }

    std::cout << (fails ? "FAILED" : "OK") << "\n";
    return fails ? 1 : 0;
}
#endif

// ---- no TU_xxx macro: driver -------------------------------------------------
// Compiled with the plain command
//   g++ -std=gnu++17 -I/tmp/wt/C06h/include -O1 demo.cpp -o prog && ./prog
// the program builds and runs the generator and the two applications with
// run.sh (next to this file) and returns the status of the application that
// is linked in another order than the generator.
#if !defined(TU_DOG) && !defined(TU_CAT) && !defined(TU_GEN) && !defined(TU_APP)
#include <cstdlib>
int main() {
    std::string dir = __FILE__;
    auto slash = dir.rfind('/');
    dir = slash == std::string::npos ? "." : dir.substr(0, slash);
#ifdef NDEBUG
    auto status = std::system(("sh " + dir + "/run.sh -DNDEBUG").c_str());
#else
    auto status = std::system(("sh " + dir + "/run.sh").c_str());
#endif
    return status == 0 ? 0 : 1;
}
#endif
