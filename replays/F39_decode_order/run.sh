#!/bin/sh
# usage: ./run.sh [extra g++ flags, e.g. -DNDEBUG]
set -e
cd "$(dirname "$0")"
CXX="g++ -std=gnu++17 -I../../include -O1 $*"
rm -f tables.hpp
$CXX -c -DTU_DOG demo.cpp -o dog.o
$CXX -c -DTU_CAT demo.cpp -o cat.o
$CXX -c -DTU_GEN demo.cpp -o gen.o
$CXX gen.o dog.o cat.o -o gen
./gen > tables.hpp
$CXX -c -DTU_APP demo.cpp -o app.o
echo "--- application linked in the generator's order (app dog cat):"
$CXX app.o dog.o cat.o -o app_same && ./app_same || true
echo "--- application linked in another order (app cat dog):"
$CXX app.o cat.o dog.o -o app_other && ./app_other
