// replay: concrete_ambiguous counts a tuple containing an abstract class
#include <yorel/yomm2/keywords.hpp>
#include <iostream>
using namespace yorel::yomm2;
struct A { virtual ~A(){} virtual void pure() = 0; };
struct B : virtual A { void pure() override {} }; struct C : virtual A { void pure() override {} };
struct D : B, C { void pure() override {} };
register_classes(A,B,C,D);
declare_method(int, m, (virtual_<A&>, virtual_<A&>));
define_method(int, m, (A&, B&)) { return 1; }
define_method(int, m, (A&, C&)) { return 2; }
define_method(int, m, (B&, D&)) { return 3; }
define_method(int, m, (C&, D&)) { return 4; }
define_method(int, m, (D&, D&)) { return 5; }
int main(){ auto r = update().report;
 std::cerr << "ambiguous=" << r.ambiguous << " concrete_ambiguous=" << r.concrete_ambiguous
           << " not_implemented=" << r.not_implemented << " concrete_not_implemented=" << r.concrete_not_implemented << "\n"; }
