// C11: non-virtual arguments must reach the definition unchanged, rvalues being
// moved and never copied - also when the definition is a member function
// registered with method::add_member_function(s) (see
// tests/test_member_method.cpp for this way of defining methods).
//
//   g++ -std=gnu++17 -I/tmp/wt/C11g/include -O1 demo.cpp -o demo && ./demo
//   (same with -DNDEBUG)
//
// Add -DWITH_RVALUE_REF to also register member functions that take a
// 'Tracker&&' and a move-only 'std::unique_ptr<int>' by value: on the current
// tree that does not compile at all.

#include <yorel/yomm2/keywords.hpp>

#include <iostream>
#include <memory>

using namespace yorel::yomm2;

struct Role {
    virtual ~Role() {
    }
};

struct Employee : Role {};

register_classes(Role, Employee);

struct Tracker {
    static int copies, moves;
    int value;
    explicit Tracker(int value) : value(value) {
    }
    Tracker(const Tracker& other) : value(other.value) {
        ++copies;
    }
    Tracker(Tracker&& other) : value(other.value) {
        other.value = -1;
        ++moves;
    }
};

int Tracker::copies, Tracker::moves;

struct Payroll {
    int paid = 0;

    struct YOMM2_SYMBOL(pay);
    using pay_method = method<
        YOMM2_SYMBOL(pay), void(Payroll*, virtual_<const Role&>, Tracker)>;

    void pay_employee(const Employee&, Tracker amount) {
        paid += amount.value;
    }

#ifdef WITH_RVALUE_REF
    struct YOMM2_SYMBOL(pay_rr);
    using pay_rr_method = method<
        YOMM2_SYMBOL(pay_rr),
        void(Payroll*, virtual_<const Role&>, Tracker&&)>;

    void pay_rr_employee(const Employee&, Tracker&& amount) {
        paid += amount.value;
    }

    struct YOMM2_SYMBOL(pay_up);
    using pay_up_method = method<
        YOMM2_SYMBOL(pay_up),
        void(Payroll*, virtual_<const Role&>, std::unique_ptr<int>)>;

    void pay_up_employee(const Employee&, std::unique_ptr<int> amount) {
        paid += *amount;
    }
#endif
};

YOMM2_STATIC(Payroll::pay_method::add_member_function<&Payroll::pay_employee>);

#ifdef WITH_RVALUE_REF
YOMM2_STATIC(
    Payroll::pay_rr_method::add_member_function<&Payroll::pay_rr_employee>);
YOMM2_STATIC(
    Payroll::pay_up_method::add_member_function<&Payroll::pay_up_employee>);
#endif

// the same method shape with a free function definition, for reference
struct YOMM2_SYMBOL(pay_free);
using pay_free_method = method<
    YOMM2_SYMBOL(pay_free), void(Payroll*, virtual_<const Role&>, Tracker)>;

void pay_free_employee(Payroll* payroll, const Employee&, Tracker amount) {
    payroll->paid += amount.value;
}

YOMM2_STATIC(pay_free_method::add_function<pay_free_employee>);

int main() {
    update();

    Payroll payroll;
    Employee employee;
    const Role& role = employee;
    bool ok = true;

    pay_free_method::fn(&payroll, role, Tracker(1000));
    std::cout << "free function definition:   paid " << payroll.paid
              << ", copies " << Tracker::copies << ", moves " << Tracker::moves
              << "\n";
    ok = ok && payroll.paid == 1000 && Tracker::copies == 0;

    payroll.paid = 0;
    Tracker::copies = Tracker::moves = 0;
    Payroll::pay_method::fn(&payroll, role, Tracker(1000));
    std::cout << "member function definition: paid " << payroll.paid
              << ", copies " << Tracker::copies << ", moves " << Tracker::moves
              << "\n";
    ok = ok && payroll.paid == 1000 && Tracker::copies == 0;

#ifdef WITH_RVALUE_REF
    payroll.paid = 0;
    Payroll::pay_rr_method::fn(&payroll, role, Tracker(1000));
    Payroll::pay_up_method::fn(&payroll, role, std::make_unique<int>(500));
    ok = ok && payroll.paid == 1500 && Tracker::copies == 0;
#endif

    std::cout << (ok ? "OK" : "FAIL: an rvalue argument was copied") << "\n";
    return !ok;
}
