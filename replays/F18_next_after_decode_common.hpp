#include <yorel/yomm2/keywords.hpp>
#include <iostream>
#include <string>
struct Animal { virtual ~Animal() {} };
struct Dog : Animal {};
register_classes(Animal, Dog);
declare_method(std::string, kick, (virtual_<Animal&>));
define_method(std::string, kick, (Animal&)) { return "animal"; }
define_method(std::string, kick, (Dog& d)) { return "dog>" + next(d); }
declare_method(std::string, meet, (virtual_<Animal&>, virtual_<Animal&>));
define_method(std::string, meet, (Animal&, Animal&)) { return "aa"; }
