// Auxiliary to demo.cpp: the same root cause (bases of a class not closed
// transitively when classes are registered incrementally) also breaks
// dispatch, whatever the order, when a class inherits from two branches.
//
//   g++ -std=gnu++17 -I/tmp/wt/C07g/include -O1 lattice.cpp -o lattice && ./lattice
//       -> mb(E object) -> mc(C)                            FAIL
#include <yorel/yomm2/keywords.hpp>

#include <iostream>
#include <string>

struct A {
    virtual ~A() {
    }
};

struct B : virtual A {};
struct C : virtual A {};
struct D1 : B {};
struct D2 : C {};
struct E : D1, D2 {};

register_classes(A, B, C); // e.g. the main program
register_classes(B, D1);   // e.g. a first library
register_classes(C, D2);   // e.g. a second library
register_classes(D1, D2, E); // e.g. a third library

declare_method(std::string, mb, (virtual_<B&>));
declare_method(std::string, mc, (virtual_<C&>));

define_method(std::string, mb, (B&)) {
    return "mb(B)";
}

define_method(std::string, mc, (C&)) {
    return "mc(C)";
}

int main() {
    yorel::yomm2::update();
    E e;
    auto r1 = mb(e), r2 = mc(e);
    std::cout << "mb(E object) -> " << r1 << "  mc(E object) -> " << r2 << "\n";
    bool ok = r1 == "mb(B)" && r2 == "mc(C)";
    std::cout << (ok ? "OK" : "FAIL") << "\n";
    return ok ? 0 : 1;
}
