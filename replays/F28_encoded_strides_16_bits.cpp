// C13 - encoded dispatch data: strides are narrowed to 16 bits.
//
// One class hierarchy (A and fifteen classes derived from it) and ONE method
// with five virtual parameters. The definitions are chosen so that each of
// the first four dimensions of the dispatch table has 16 groups and the last
// one has 2: the table has 16*16*16*16*2 = 131072 cells (1 MB), and the
// stride of the fifth dimension is 16^4 = 65536.
//
// The program runs in two stages:
//
//   stage 1 (default): update(), probe calls -> expected results,
//           generator::encode_dispatch_data() -> demo_tables.hpp, then
//           compiles *this same file* with -DSTAGE2 and runs it.
//   stage 2 (-DSTAGE2): does NOT call update(); it includes demo_tables.hpp
//           in main (the documented way to use the generator) and runs the
//           same probe calls.
//
// Prints OK / exits 0 iff the generated text compiles and the decoded tables
// give the same answers as update().
//
//   g++ -std=gnu++17 -I/tmp/wt/C13g/include -O1 demo.cpp -o demo && ./demo
//   (CXX and YOMM2_INCLUDE environment variables override the compiler and
//    the include directory used for stage 2.)

#include <cstdlib>
#include <fstream>
#include <iostream>
#include <sstream>
#include <string>

#include <yorel/yomm2/policy.hpp>

struct throw_policy
    : yorel::yomm2::default_policy::rebind<throw_policy>::replace<
          yorel::yomm2::policy::error_handler,
          yorel::yomm2::policy::throw_error> {};

#define YOMM2_DEFAULT_POLICY throw_policy

#include <yorel/yomm2/keywords.hpp>

using namespace yorel::yomm2;

struct A {
    virtual ~A() {
    }
};

#define DERIVED(N)                                                             \
    struct A##N : A {};
DERIVED(1) DERIVED(2) DERIVED(3) DERIVED(4) DERIVED(5) DERIVED(6) DERIVED(7)
DERIVED(8) DERIVED(9) DERIVED(10) DERIVED(11) DERIVED(12) DERIVED(13)
DERIVED(14) DERIVED(15)

register_classes(
    A, A1, A2, A3, A4, A5, A6, A7, A8, A9, A10, A11, A12, A13, A14, A15);

declare_method(
    int, f,
    (virtual_<A&>, virtual_<A&>, virtual_<A&>, virtual_<A&>, virtual_<A&>));

// catch-all
define_method(int, f, (A&, A&, A&, A&, A&)) {
    return 0;
}

// one definition per derived class and per dimension 0..3: 16 groups in each
// of the first four dimensions
#define DEFS(N)                                                                \
    define_method(int, f, (A##N&, A&, A&, A&, A&)) {                           \
        return 1000 + N;                                                       \
    }                                                                          \
    define_method(int, f, (A&, A##N&, A&, A&, A&)) {                           \
        return 2000 + N;                                                       \
    }                                                                          \
    define_method(int, f, (A&, A&, A##N&, A&, A&)) {                           \
        return 3000 + N;                                                       \
    }                                                                          \
    define_method(int, f, (A&, A&, A&, A##N&, A&)) {                           \
        return 4000 + N;                                                       \
    }
DEFS(1) DEFS(2) DEFS(3) DEFS(4) DEFS(5) DEFS(6) DEFS(7) DEFS(8) DEFS(9)
DEFS(10) DEFS(11) DEFS(12) DEFS(13) DEFS(14) DEFS(15)

// two groups in the fifth dimension: {A1} and {everything else}
define_method(int, f, (A&, A&, A&, A&, A1&)) {
    return 5001;
}

template<typename... T>
std::string probe(T&... args) {
    try {
        return std::to_string(f(args...));
    } catch (const resolution_error& e) {
        return e.status == resolution_error::ambiguous ? "ambiguous"
                                                       : "no_definition";
    }
}

std::string probes() {
    A a;
    A1 a1;
    A2 a2;
    A7 a7;
    A15 a15;
    std::ostringstream os;
    os << "f(a,a,a,a,a)=" << probe(a, a, a, a, a) << "\n";
    os << "f(a,a,a,a,a2)=" << probe(a, a, a, a, a2) << "\n";
    os << "f(a7,a,a,a,a)=" << probe(a7, a, a, a, a) << "\n";
    os << "f(a,a,a,a15,a)=" << probe(a, a, a, a15, a) << "\n";
    os << "f(a,a,a,a,a1)=" << probe(a, a, a, a, a1) << "\n";    // 5001
    os << "f(a7,a,a,a,a1)=" << probe(a7, a, a, a, a1) << "\n";  // ambiguous
    os << "f(a,a,a,a15,a1)=" << probe(a, a, a, a15, a1) << "\n"; // ambiguous
    os << "f(a2,a,a,a,a2)=" << probe(a2, a, a, a, a2) << "\n";  // 1002
    return os.str();
}

#ifdef STAGE2

#include <yorel/yomm2/decode.hpp>

int main() {
#include "demo_tables.hpp"
    std::cout << probes();
    return 0;
}

#else

#include <yorel/yomm2/generator.hpp>

int main(int argc, char* argv[]) {
    auto compiler = update();
    std::string expected = probes();

    using method_f = method_class(
        int, f,
        (virtual_<A&>, virtual_<A&>, virtual_<A&>, virtual_<A&>,
         virtual_<A&>));
    std::cout << "after update(): slots and strides of f =";
    for (auto v : method_f::fn.slots_strides) {
        std::cout << " " << v;
    }
    std::cout << "\n" << expected;

    {
        std::ofstream tables("demo_tables.hpp");
        generator::encode_dispatch_data(compiler, tables);
    }

    const char* cxx = std::getenv("CXX");
    const char* inc = std::getenv("YOMM2_INCLUDE");
    std::string cmd = std::string(cxx ? cxx : "g++") + " -std=gnu++17 -I" +
        (inc ? inc : "/tmp/wt/C13g/include") +
        " -I. -O0 -DSTAGE2 " __FILE__ " -o demo_stage2 2> demo_stage2.err";
    std::cout << "compiling stage 2: " << cmd << std::endl;

    if (std::system(cmd.c_str()) != 0) {
        std::cout << "FAIL: the generated text does not compile, see "
                     "demo_stage2.err\n";
        return 1;
    }

    if (std::system("./demo_stage2 > demo_stage2.out 2>&1") != 0) {
        std::cout << "FAIL: stage 2 crashed\n";
        return 1;
    }

    std::ifstream in("demo_stage2.out");
    std::stringstream actual;
    actual << in.rdbuf();

    std::cout << "after decode_dispatch_data():\n" << actual.str();

    if (actual.str() != expected) {
        std::cout << "FAIL: calls behave differently after decoding\n";
        return 1;
    }

    std::cout << "OK\n";
    return 0;
}

#endif
