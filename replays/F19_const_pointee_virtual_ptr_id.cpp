// replay: virtual_ptr<const Animal> parameter under a custom RTTI whose static ids are per exact type (as minimal_rtti's are)
#include <yorel/yomm2/core.hpp>
#include <yorel/yomm2/policies/minimal_rtti.hpp>
#include <iostream>
using namespace yorel::yomm2;
struct Animal { virtual ~Animal() {} virtual type_id id() const; };
struct Dog : Animal { type_id id() const override; };
struct my_rtti : policy::minimal_rtti {
    template<typename T> static type_id dynamic_type(const T& obj) { if constexpr (std::is_base_of_v<Animal, T>) return obj.id(); else return 0; }
};
struct pol : policy::basic_policy<pol, my_rtti, policy::vptr_vector<pol>, policy::fast_perfect_hash<pol>, policy::vectored_error<pol>> {};
type_id Animal::id() const { return pol::static_type<Animal>(); }
type_id Dog::id() const { return pol::static_type<Dog>(); }
use_classes<Animal, Dog, pol> reg;
struct kick_; using kick = method<kick_, const char*(virtual_ptr<const Animal, pol>), pol>;
const char* kick_dog(virtual_ptr<const Dog, pol>) { return "dog"; }
kick::add_function<kick_dog> add_kick_dog;
struct poke_; using poke = method<poke_, const char*(virtual_<const Animal&>), pol>;
const char* poke_dog(const Dog&) { return "dog"; }
poke::add_function<poke_dog> add_poke_dog;
int main() {
    pol::error = [](const error_type& e) { if (auto u = std::get_if<unknown_class_error>(&e)) { std::cout << "FAIL: unknown class reported by update\n"; exit(1); } };
    update<pol>();
    Dog d; const Animal& a = d;
    std::cout << poke::fn(a) << " " << kick::fn(virtual_ptr<const Animal, pol>(a)) << "\nOK\n";
}
