#include "common.hpp"
#include <yorel/yomm2/generator.hpp>
#include <fstream>
int main() {
    auto compiler = yorel::yomm2::update();
    Dog d; std::cout << "after update: " << kick(d) << "\n";
    std::ofstream os("tables.hpp");
    yorel::yomm2::generator::encode_dispatch_data(compiler, os);
}
