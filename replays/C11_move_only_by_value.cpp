#include <yorel/yomm2/keywords.hpp>
#include <memory>
using namespace yorel::yomm2;
struct A { virtual ~A(){} }; struct B : A {};
register_classes(A,B);
declare_method(int, h, (virtual_<A&>, std::unique_ptr<int>));
define_method(int, h, (B&, std::unique_ptr<int> p)) { return *p; }
int main(){ update(); B b; return h(b, std::make_unique<int>(3)); }
