// replay: clearing a catalog, then destroying the registration objects it held (what happens at exit)
#include <yorel/yomm2/core.hpp>
#include <cstdio>
using namespace yorel::yomm2;
struct pol : policy::release::rebind<pol> {};
struct A { virtual ~A() {} };
struct B : A {};
use_classes<A, B, pol> reg;
int main() {
    pol::classes.clear();            // e.g. before registering another set of classes
    std::printf("cleared: size %d\n", (int)pol::classes.size());
    std::printf("OK so far\n");
    return 0;                        // ~class_declaration of A and B run now
}
