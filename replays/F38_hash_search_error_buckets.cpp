// 350 classes whose type ids are 64-bit hashes (a custom rtti facet that
// identifies classes by a hash of their name). The random search for a perfect
// multiplicative hash fails for such a set (allowed: update reports a
// hash_search_error). This program checks the REPORT and the state left behind:
//
//  1. hash_search_error::buckets is documented as "maximum number of buckets
//     tried"; the library reports twice that number.
//  2. (informative) the error message printed by the default handler says
//     "after 400000s" (attempts printed as if they were seconds).
//
// Prints OK and exits 0 when the report is right.

#include <yorel/yomm2/keywords.hpp>

#include <iostream>
#include <sstream>
#include <string>
#include <utility>

using namespace yorel::yomm2;

constexpr type_id mix(type_id x) { // splitmix64
    x += 0x9e3779b97f4a7c15ull;
    x = (x ^ (x >> 30)) * 0xbf58476d1ce4e5b9ull;
    x = (x ^ (x >> 27)) * 0x94d049bb133111ebull;
    return x ^ (x >> 31);
}

struct Node {
    explicit Node(type_id type = static_type) : type(type) {
    }
    virtual ~Node() {
    }
    type_id type;
    static constexpr type_id static_type = mix(0);
};

template<int I>
struct Kind : Node {
    Kind() : Node(static_type) {
    }
    static constexpr type_id static_type = mix(I + 1);
};

struct hashed_name_rtti : policy::rtti {
    template<typename T>
    static type_id static_type() {
        if constexpr (std::is_base_of_v<Node, T>) {
            return T::static_type;
        } else {
            return 0;
        }
    }

    template<typename T>
    static type_id dynamic_type(const T& obj) {
        if constexpr (std::is_base_of_v<Node, T>) {
            return obj.type;
        } else {
            return 0;
        }
    }
};

// the debug policy (checked_perfect_hash, trace) with the custom rtti
struct test_policy : policy::debug::rebind<test_policy>::replace<
                         policy::rtti, hashed_name_rtti> {};

constexpr int N = 350;

// one registration per class, as if each class had its own register_classes
template<class Seq>
struct registrations;

template<int... I>
struct registrations<std::integer_sequence<int, I...>> {
    std::tuple<use_classes<Kind<I>, Node, test_policy>...> objects;
};

registrations<std::make_integer_sequence<int, N>> registration;

declare_method(int, visit, (virtual_<Node&>), test_policy);

define_method(int, visit, (Kind<0>&)) {
    return 0;
}

int main() {
    std::cout << std::unitbuf;

    // capture what the default error handler prints, then throw
    auto default_handler = test_policy::error;
    test_policy::error = [=](const error_type& ev) {
        default_handler(ev); // prints the diagnostic on stderr
        if (auto err = std::get_if<hash_search_error>(&ev)) {
            throw *err;
        }
    };

    try {
        update<test_policy>();
    } catch (const hash_search_error& error) {
        // The search leaves the parameters of the last table it tried in the
        // facet's public static members.
        const std::size_t last_size_tried = std::size_t(1)
            << (8 * sizeof(type_id) - test_policy::hash_shift);
        std::cout << "hash_search_error: attempts = " << error.attempts
                  << ", buckets = " << error.buckets << "\n";
        std::cout << "largest table actually tried: " << last_size_tried
                  << " buckets (hash_shift = " << test_policy::hash_shift
                  << ", control.size() = " << test_policy::control.size()
                  << ")\n";

        if (error.buckets != last_size_tried) {
            std::cout << "FAIL: hash_search_error::buckets is not the maximum "
                         "number of buckets tried\n";
            return 1;
        }

        std::cout << "OK\n";
        return 0;
    }

    // The search succeeded: nothing to check about the error report. Make
    // sure the hash works.
    Kind<0> k0;
    Node& node = k0;
    std::cout << (visit(node) == 0 ? "OK (search succeeded)\n"
                                   : "FAIL: wrong definition\n");
    return 0;
}
