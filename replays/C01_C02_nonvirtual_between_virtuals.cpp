#include <yorel/yomm2/keywords.hpp>
#include <iostream>
using namespace yorel::yomm2;
struct A { virtual ~A(){} }; struct B : A {}; struct C : A {};
register_classes(A,B,C);
declare_method(int, f, (virtual_<A&>, int, virtual_<A&>));
define_method(int, f, (B&, int, C&)) { return 1; }
define_method(int, f, (B&, int, B&)) { return 2; }
define_method(int, f, (A&, int, A&)) { return 0; }
declare_method(int, g, (double, virtual_<A&>));
define_method(int, g, (double, B&)) { return 1; }
int main(){ update(); B b; C c; A a; std::cerr << f(b,3,c) << f(b,3,b) << f(b,3,a) << f(a,3,b) << "\n"; 
 set_error_handler([](const error_type& e){ if (auto r = std::get_if<resolution_error>(&e)) { std::cerr << "arity " << r->arity << " t0=" << (r->types[0]==(type_id)&typeid(double)) << " isC=" << (r->types[0]==(type_id)&typeid(C)) << "\n"; } });
 g(1.0, c); }
