// replay: debug (checked) policy, virtual_ptr built from an object of an unregistered class
// whose static type is exact: no unknown_class report, null v-table pointer.
#include <yorel/yomm2/keywords.hpp>
#include <iostream>
using namespace yorel::yomm2;
struct Animal { virtual ~Animal(){} }; struct Dog : Animal {};
struct Rock { virtual ~Rock(){} };            // never registered
register_classes(Animal, Dog);
declare_method(int, kick, (virtual_ptr<Animal>));
define_method(int, kick, (virtual_ptr<Dog>)) { return 1; }
int main(int argc, char**){ update();
 set_error_handler([](const error_type& e){ std::cerr << "handler called, alternative " << e.index() << "\n"; });
 Rock r; if (argc == 1) { virtual_ptr<Rock> p(r); std::cerr << "ctor: no report, vptr=" << (const void*)p._vptr() << "\n"; }   // any argument: skip to final
 auto f = final_virtual_ptr(r);  std::cerr << "final: no report, vptr=" << (const void*)f._vptr() << "\n"; }
