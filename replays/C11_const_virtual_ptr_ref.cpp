// replay F15: a method taking a plain virtual_ptr by const reference
#include <yorel/yomm2/keywords.hpp>
#include <iostream>
using namespace yorel::yomm2;
struct A { virtual ~A(){} }; struct B : A { int tag = 7; };
register_classes(A,B);
declare_method(int, h, (const virtual_ptr<A>&));
define_method(int, h, (const virtual_ptr<B>& b)) { return b->tag; }
int main(){ update(); B b; A& a = b; virtual_ptr<A> p(a); int r = h(p); std::cerr << r << "\n"; return r == 7 ? 0 : 1; }
