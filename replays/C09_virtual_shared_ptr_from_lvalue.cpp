// replay F14: virtual_shared_ptr built from an lvalue shared_ptr
#include <yorel/yomm2/keywords.hpp>
#include <iostream>
using namespace yorel::yomm2;
struct Animal { virtual ~Animal(){} }; struct Dog : Animal {};
register_classes(Animal, Dog);
declare_method(int, kick, (virtual_shared_ptr<Animal>));
define_method(int, kick, (virtual_shared_ptr<Dog>)) { return 1; }
int main(){ update();
 { virtual_shared_ptr<Animal> q(std::make_shared<Dog>()); std::cerr << "from rvalue: vptr=" << (const void*)q._vptr() << " -> " << kick(q) << "\n"; }
 std::shared_ptr<Animal> sp = std::make_shared<Dog>();
 virtual_shared_ptr<Animal> p(sp); std::cerr << "from lvalue: vptr=" << (const void*)p._vptr() << "\n";
 std::cerr << kick(p) << "\n"; }
