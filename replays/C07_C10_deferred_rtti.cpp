// replay: deferred static RTTI. argv[1]=="multi": two virtual parameters (C10-deferred);
// argv[1]=="twice": update() twice (C07-oneshot).
#include <yorel/yomm2/keywords.hpp>
#include <iostream>
#include <cstring>
using namespace yorel::yomm2;
struct Animal { std::size_t type; Animal(std::size_t t):type(t){} static std::size_t last, static_type; };
std::size_t Animal::last; std::size_t Animal::static_type = ++Animal::last;
struct Dog : Animal { Dog():Animal(static_type){} static std::size_t static_type; };
std::size_t Dog::static_type = ++Animal::last;
struct custom_rtti : policy::deferred_static_rtti {
    template<typename T> static auto static_type() { if constexpr (std::is_base_of_v<Animal, T>) return T::static_type; else { static type_id invalid = 0; return invalid; } }
    template<typename T> static auto dynamic_type(const T& obj) { if constexpr (std::is_base_of_v<Animal, T>) return obj.type; else return 666; }
    template<class Stream> static void type_name(type_id type, Stream& stream) { stream << type; }
    static auto type_index(type_id type) { return type; }
};
struct pol : policy::release::rebind<pol>::replace<policy::rtti, custom_rtti>::remove<policy::type_hash> {};
register_classes(Animal, Dog, pol);
declare_method(int, one, (virtual_<Animal&>), pol);
define_method(int, one, (Dog&)) { return 1; }
#ifdef MULTI
declare_method(int, two, (virtual_<Animal&>, virtual_<Animal&>), pol);
define_method(int, two, (Dog&, Dog&)) { return 2; }
#endif
int main(int argc, char** argv){
 pol::error = [](const error_type& e){ if (auto u = std::get_if<unknown_class_error>(&e)) std::cerr << "unknown class id " << u->type << "\n"; };
 update<pol>(); std::cerr << "first update ok\n";
 if (argc > 1 && !strcmp(argv[1], "twice")) { update<pol>(); std::cerr << "second update ok\n"; }
 Dog d; std::cerr << one(d) << "\n"; }
