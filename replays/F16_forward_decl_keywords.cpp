#include <yorel/yomm2/keywords.hpp>
#include <yorel/yomm2/generator.hpp>
#include <iostream>
namespace zoo { struct Animal { virtual ~Animal() {} }; }
int main() {
    yorel::yomm2::generator g;
    g.add_forward_declaration("void (yorel::yomm2::virtual_<zoo::Animal const&>, wchar_t, unsigned long, char16_t, zoo::Animal volatile*, __int128)");
    g.write_forward_declarations(std::cout);
}
