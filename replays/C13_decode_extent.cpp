// replay: declared extent of the decoded v-tables vs number of v-table entries
#include <yorel/yomm2/keywords.hpp>
#include <yorel/yomm2/generator.hpp>
#include <iostream>
#include <sstream>
using namespace yorel::yomm2;
struct A { virtual ~A(){} }; struct B { virtual ~B(){} }; struct C : A, B {};
register_classes(A,B,C);
declare_method(int, ma, (virtual_<A&>)); define_method(int, ma, (A&)) { return 1; }
declare_method(int, mb, (virtual_<B&>)); define_method(int, mb, (B&)) { return 2; }
int main(){ auto comp = update(); std::size_t entries = 0;
 for (auto& cls : comp.classes) { std::cerr << "first_slot " << cls.first_slot << " vtbl.size " << cls.vtbl.size() << "\n"; entries += cls.vtbl.size(); }
 std::ostringstream os; generator::encode_dispatch_data(comp, os); auto s = os.str();
 std::cerr << "v-table entries the decoder writes: " << entries << "\n" << s.substr(0, s.find("dtbls")) << "\n"; }
