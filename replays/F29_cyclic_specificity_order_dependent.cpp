// replay F29 (C06 / C01 / C03): the specificity relation is cyclic on a, b, c (each beats the next in one position, the other
// positions hold unrelated classes); no definition is more specific than all the others, so calls and next are ambiguous -
// the library picked one, and WHICH one depended on the order of registration.
// (original text of the sub-agent's demo follows)
// C03: inside a definition D, `next` must refer to the ambiguity error when
// several strictly more general definitions exist and none of them is more
// specific than all the others.
//
// Classes:   A <- B <- C            H <- X, H <- Y (virtual),  Z : X, Y
//
// m1: the strictly more general definitions of D = (C, Z) are
//         (B, X)   and   (A, Y)
//     (B, X) is NOT more specific than (A, Y), because X does not derive from
//     Y (and (A, Y) is not more specific than (B, X) either). For arguments of
//     classes (C, Z) both are applicable and neither wins, so `next` in D must
//     be the ambiguity error. The library silently makes it (B, X).
// m2: mirror image, candidates (A, X) and (B, Y): the library picks (B, Y).
//     Between m1 and m2 only the first parameter decided; the second one, in
//     which the candidates are unrelated, was ignored.
// m3: three mutually incomparable candidates; the library's relation is
//     cyclic on them (a > b > c > a), so which one `next` becomes depends on
//     the ORDER in which the definitions were added (m3 vs m4: same
//     definitions, different order, different `next`).

#include <yorel/yomm2/keywords.hpp>

#include <iostream>
#include <string>

using namespace yorel::yomm2;

struct A { virtual ~A() {} };
struct B : A {};
struct C : B {};

struct H { virtual ~H() {} };
struct X : virtual H {};
struct Y : virtual H {};
struct Z : X, Y {};

register_classes(A, B, C);
register_classes(H, X, Y, Z);

std::string trail;

struct resolution { int status; };

// ---------------------------------------------------------------------------
// Three parameters, each of the three positions has its own lattice
//    P <- Q (virtual), P <- R (virtual), S : Q, R ; and Q <- Q1
// so that in each position one candidate uses Q1's base Q ... see below.

struct P { virtual ~P() {} };
struct Q : virtual P {};
struct Q1 : Q {};
struct R : virtual P {};
struct S : Q1, R {};

register_classes(P, Q, Q1, R, S);

// a = (Q1, R , Q )      a > b decided by position 1 only (Q1 : Q), others
// b = (Q , Q1, R )      b > c decided by position 2 only      unrelated
// c = (R , Q , Q1)      c > a decided by position 3 only
// D = (S, S, S)

declare_method(void, m3, (virtual_<P&>, virtual_<P&>, virtual_<P&>));
define_method(void, m3, (Q1&, R&, Q&)) { trail += "a"; }
define_method(void, m3, (Q&, Q1&, R&)) { trail += "b"; }
define_method(void, m3, (R&, Q&, Q1&)) { trail += "c"; }
define_method(void, m3, (S& x, S& y, S& z)) { trail += "D>"; next(x, y, z); }

// the same three definitions without D, called directly: which one runs depends on the order too
declare_method(void, m5, (virtual_<P&>, virtual_<P&>, virtual_<P&>));
define_method(void, m5, (Q1&, R&, Q&)) { trail += "a"; }
define_method(void, m5, (Q&, Q1&, R&)) { trail += "b"; }
define_method(void, m5, (R&, Q&, Q1&)) { trail += "c"; }
declare_method(void, m6, (virtual_<P&>, virtual_<P&>, virtual_<P&>));
define_method(void, m6, (R&, Q&, Q1&)) { trail += "c"; }
define_method(void, m6, (Q1&, R&, Q&)) { trail += "a"; }
define_method(void, m6, (Q&, Q1&, R&)) { trail += "b"; }

declare_method(void, m4, (virtual_<P&>, virtual_<P&>, virtual_<P&>));
define_method(void, m4, (Q&, Q1&, R&)) { trail += "b"; }
define_method(void, m4, (R&, Q&, Q1&)) { trail += "c"; }
define_method(void, m4, (Q1&, R&, Q&)) { trail += "a"; }
define_method(void, m4, (S& x, S& y, S& z)) { trail += "D>"; next(x, y, z); }

template<typename F>
std::string run(F f) {
    trail.clear();

    try {
        f();
    } catch (resolution r) {
        trail += r.status == resolution_error::ambiguous ? "AMBIGUOUS"
            : r.status == resolution_error::no_definition ? "NOT_IMPLEMENTED"
                                                          : "???";
    }

    return trail;
}

int main() {
    set_error_handler([](const error_type& ev) {
        if (auto e = std::get_if<resolution_error>(&ev)) {
            throw resolution{int(e->status)};
        }
    });

    update();

    C c;
    Z z;
    S s;
    bool ok = true;

    auto check = [&ok](const char* what, std::string got, std::string expected) {
        bool same = got == expected;
        std::cout << what << ": got " << got << ", expected " << expected
                  << (same ? "" : "   <-- WRONG") << "\n";
        ok = ok && same;
    };

    check("m3(S,S,S)", run([&] { m3(s, s, s); }), "D>AMBIGUOUS");
    check("m4(S,S,S)", run([&] { m4(s, s, s); }), "D>AMBIGUOUS");
    check("m5(S,S,S)", run([&] { m5(s, s, s); }), "AMBIGUOUS");
    check("m6(S,S,S)", run([&] { m6(s, s, s); }), "AMBIGUOUS");

    std::cout << (ok ? "OK" : "FAIL") << "\n";

    return ok ? 0 : 1;
}
