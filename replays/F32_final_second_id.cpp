// A class with two type ids (consolidated by the policy's type_index), used
// with the default *checked* policy facets: virtual_ptr<T>::final(obj) /
// final_virtual_ptr(obj) reject an object of class T whose dynamic type id is
// the class's *other* id, with a bogus method_table_error ("invalid method
// table for Dog") followed by abort(). Every other route (virtual_<T&>,
// virtual_ptr<T>(obj)) dispatches the very same object correctly, and so does
// 'final' in a release (NDEBUG) build.
//
// g++ -std=gnu++17 -I/tmp/wt/C10g/include -O1 demo.cpp -o demo && ./demo
//
// The RTTI scheme is the one of tests/test_custom_rtti.cpp (namespace
// type_hash): a type id is the address of the class's name, and type_index
// projects it to a string_view, so that the copies of the name that live in
// different modules (shared libraries) designate the same class.

#include <yorel/yomm2/keywords.hpp>

#include <iostream>
#include <string>
#include <string_view>

using namespace yorel::yomm2;

// Two "modules", each with its own copy of the class names.
const char names[2][3][8] = {
    {"Animal", "Dog", "Cat"},
    {"Animal", "Dog", "Cat"},
};

int module = 0; // the module that static_type currently speaks for

struct Animal {
    explicit Animal(const char* type) : type(type) {
    }
    virtual ~Animal() {
    }
    static constexpr int index = 0;
    const char* type;
};

struct Dog : Animal {
    // 'from' is the module that creates the object
    explicit Dog(int from) : Animal(names[from][index]) {
    }
    static constexpr int index = 1;
};

struct Cat : Animal {
    explicit Cat(int from) : Animal(names[from][index]) {
    }
    static constexpr int index = 2;
};

struct custom_rtti : policy::rtti {
    template<typename T>
    static type_id static_type() {
        if constexpr (std::is_base_of_v<Animal, T>) {
            return reinterpret_cast<type_id>(names[module][T::index]);
        } else {
            return 0;
        }
    }

    template<typename T>
    static type_id dynamic_type(const T& obj) {
        if constexpr (std::is_base_of_v<Animal, T>) {
            return reinterpret_cast<type_id>(obj.type);
        } else {
            return 0;
        }
    }

    template<class Stream>
    static void type_name(type_id type, Stream& stream) {
        stream << (type == 0 ? "?" : reinterpret_cast<const char*>(type));
    }

    // several ids -> one class
    static auto type_index(type_id type) {
        return std::string_view(
            type == 0 ? "?" : reinterpret_cast<const char*>(type));
    }
};

// default facets (checked_perfect_hash in debug builds), custom RTTI
struct test_policy : policy::default_static::rebind<test_policy>::replace<
                         policy::rtti, custom_rtti> {};

template<class Class>
using vptr = virtual_ptr<Class, test_policy>;

declare_method(std::string, kick, (virtual_<Animal&>), test_policy);

define_method(std::string, kick, (Dog&)) {
    return "bark";
}

define_method(std::string, kick, (Cat&)) {
    return "hiss";
}

declare_method(std::string, vkick, (vptr<Animal>), test_policy);

define_method(std::string, vkick, (vptr<Dog>)) {
    return "bark";
}

define_method(std::string, vkick, (vptr<Cat>)) {
    return "hiss";
}

int main() {
    test_policy::error = [](const error_type& ev) {
        if (auto error = std::get_if<method_table_error>(&ev)) {
            std::cout << "FAIL: method_table_error for "
                      << reinterpret_cast<const char*>(error->type) << " (id "
                      << error->type << "), a registered id of the class\n";
            exit(1);
        }

        std::cout << "FAIL: unexpected error\n";
        exit(2);
    };

    // Each module registers the classes, with its own ids.
    module = 0;
    static use_classes<Animal, Dog, Cat, test_policy> module_0_classes;
    module = 1;
    static use_classes<Animal, Dog, Cat, test_policy> module_1_classes;
    module = 0; // we are "in" module 0 from now on

    update<test_policy>();

    int fails = 0;

    for (int from = 0; from < 2; ++from) {
        Dog dog(from); // created by module 'from'
        Cat cat(from);
        Animal& a = dog;
        Animal& b = cat;

        // all these work for both ids
        fails += kick(a) != "bark";
        fails += kick(b) != "hiss";
        fails += vkick(a) != "bark";
        fails += vkick(vptr<Dog>(dog)) != "bark";
        fails += vkick(vptr<Cat>(cat)) != "hiss";

        if (fails) {
            std::cout << "FAIL: wrong definition called\n";
            return 1;
        }

        // 'dog' IS a Dog, exactly: final is legitimate. Works for from == 0,
        // reports 'invalid method table' for from == 1 in a debug build.
        fails += vkick(vptr<Dog>::final(dog)) != "bark";
        fails += vkick(final_virtual_ptr<test_policy>(cat)) != "hiss";
    }

    std::cout << (fails ? "FAIL" : "OK") << "\n";

    return fails != 0;
}
