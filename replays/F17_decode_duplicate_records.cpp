// replay: the decoder publishes v-table pointers over the raw registration records (Policy::classes). A class that appears in two
// registration statements is two records with the same type id: the hash search sees its own id in the bucket and calls it a collision.
#include <yorel/yomm2/keywords.hpp>
#include <iostream>
struct Animal { virtual ~Animal() {} };
struct Dog : Animal {};
struct Cat : Animal {};
register_classes(Animal, Dog);
register_classes(Animal, Cat);     // Animal registered twice: legal, and what incremental registration produces
declare_method(void, kick, (virtual_<Animal&>));
define_method(void, kick, (Dog&)) {}
int main() {
    using namespace yorel::yomm2;
    default_policy::error = [](const yorel::yomm2::error_type& e) {
        if (std::get_if<hash_search_error>(&e)) { std::cout << "hash_search_error: the search cannot succeed\n"; exit(1); }
    };
    update();                                                    // fine: the compiler works on de-duplicated classes
    std::cout << "update ok\n";
    // what decode_dispatch_data does at its end (decode.hpp:199):
    default_policy::publish_vptrs(default_policy::classes.begin(), default_policy::classes.end());
    std::cout << "publish over the registration records ok\n";
}
