// replay F13: deferred static RTTI + a class registered without any base list
#include <yorel/yomm2/keywords.hpp>
#include <iostream>
using namespace yorel::yomm2;
struct Animal { std::size_t type; Animal(std::size_t t):type(t){} static std::size_t last, static_type; };
std::size_t Animal::last; std::size_t Animal::static_type = ++Animal::last;
struct custom_rtti : policy::deferred_static_rtti {
    template<typename T> static auto static_type() { if constexpr (std::is_base_of_v<Animal, T>) return T::static_type; else { static type_id invalid = 0; return invalid; } }
    template<typename T> static auto dynamic_type(const T& obj) { if constexpr (std::is_base_of_v<Animal, T>) return obj.type; else return 666; }
    template<class Stream> static void type_name(type_id type, Stream& stream) { stream << type; }
    static auto type_index(type_id type) { return type; }
};
struct pol : policy::release::rebind<pol>::replace<policy::rtti, custom_rtti>::remove<policy::type_hash> {};
class_declaration<Animal, pol> reg;      // no bases listed: empty base id list
declare_method(int, one, (virtual_<Animal&>), pol);
define_method(int, one, (Animal&)) { return 1; }
int main(){ update<pol>(); std::cerr << "update ok\n"; Animal a(Animal::static_type); std::cerr << one(a) << "\n"; }
