// C19: name extraction from type descriptions that contain words which are
// neither class names nor in the generator's keyword list:
//   - 'true' / 'false'      boolean template arguments      Flag<true>
//   - 'decltype(nullptr)'   the demangled name of the fundamental type
//                           std::nullptr_t
//   - 'noexcept'            part of a C++17 function (pointer) type
//
// Each method below has exactly two class names in its description: the
// virtual parameter's class 'Animal' and the method key 'key'. Everything
// else is a fundamental type, a template name, or a std:: / yorel:: entity,
// all of which the generator is supposed to skip.

#include <yorel/yomm2/keywords.hpp>
#include <yorel/yomm2/generator.hpp>

#include <cstddef>
#include <iostream>
#include <set>
#include <sstream>
#include <string>

using namespace yorel::yomm2;

struct Animal {
    virtual ~Animal() {
    }
};

template<bool Checked>
struct Flag {};

struct key;

template<class Method>
bool check(const char* what) {
    generator gen;
    gen.add_forward_declaration<Method>();
    std::ostringstream os;
    gen.write_forward_declarations(os);

    std::cout << "== " << what << "\n   demangled: "
              << boost::core::demangle(typeid(Method).name()) << "\n"
              << os.str();

    std::multiset<std::string> declared;
    std::istringstream is(os.str());
    std::string line;
    bool ok = true;

    while (std::getline(is, line)) {
        if (line.rfind("class ", 0) == 0 && line.back() == ';') {
            declared.insert(line.substr(6, line.size() - 7));
        } else {
            // no namespaces are expected here
            std::cout << "   FAIL: unexpected line '" << line << "'\n";
            ok = false;
        }
    }

    const std::multiset<std::string> expected = {"Animal", "key"};

    for (auto& name : declared) {
        if (!expected.count(name)) {
            std::cout << "   FAIL: 'class " << name
                      << ";' - not a class (and not valid C++)\n";
            ok = false;
        }
    }

    for (auto& name : expected) {
        if (declared.count(name) != 1) {
            std::cout << "   FAIL: " << name << " declared "
                      << declared.count(name) << " times\n";
            ok = false;
        }
    }

    return ok;
}

#define CHECK(...) check<__VA_ARGS__>(#__VA_ARGS__)

int main() {
    bool ok = true;
    ok &= CHECK(method<key, void(virtual_<Animal&>, Flag<true>)>);
    ok &= CHECK(method<key, void(virtual_<Animal&>, Flag<false>&)>);
    ok &= CHECK(method<key, void(virtual_<Animal&>, std::nullptr_t)>);
    ok &= CHECK(method<key, void(virtual_<Animal&>, void (*)(int) noexcept)>);
    std::cout << (ok ? "OK\n" : "FAIL\n");
    return ok ? 0 : 1;
}
