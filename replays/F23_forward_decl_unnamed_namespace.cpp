// C19: forward declarations for classes that live in an unnamed namespace.
//
// A method is declared on classes that are local to the translation unit
// (unnamed namespace - the way yomm2's own tests and examples declare their
// classes), plus one ordinary class in a named namespace. The generator is
// asked for the forward declarations of the policy's methods, exactly like
// tests/test_generator_gen.cpp does.
//
// Property: the text is balanced C++, declares only the requested classes,
// each in exactly its namespace, and nothing else.

#include <yorel/yomm2/keywords.hpp>
#include <yorel/yomm2/generator.hpp>

#include <iostream>
#include <set>
#include <sstream>
#include <string>
#include <vector>

using namespace yorel::yomm2;

namespace {
struct Animal {
    virtual ~Animal() {
    }
};
struct Dog : Animal {};
} // namespace

namespace zoo {
struct Keeper {};
} // namespace zoo

register_classes(Animal, Dog);

namespace {
declare_method(void, kick, (virtual_<Animal&>, zoo::Keeper&));
define_method(void, kick, (Dog&, zoo::Keeper&)) {
}
} // namespace

int main() {
    update();

    generator gen;
    std::ostringstream os;
    gen.add_forward_declarations().write_forward_declarations(os);
    const std::string text = os.str();
    std::cout << "---- generated forward declarations ----\n"
              << text << "----------------------------------------\n";

    // Interpret the text: namespace stack + declared classes. "<unnamed>" is
    // pushed for 'namespace {'.
    std::istringstream is(text);
    std::string line;
    std::vector<std::string> stack;
    std::multiset<std::string> declared;
    bool well_formed = true;

    while (std::getline(is, line)) {
        if (line == "}") {
            if (stack.empty()) {
                well_formed = false;
                break;
            }
            stack.pop_back();
        } else if (line == "namespace {") {
            stack.push_back("<unnamed>");
        } else if (
            line.rfind("namespace ", 0) == 0 && line.size() > 12 &&
            line.substr(line.size() - 2) == " {") {
            stack.push_back(line.substr(10, line.size() - 12));
        } else if (line.rfind("class ", 0) == 0 && line.back() == ';') {
            std::string q;
            for (auto& s : stack) {
                q += s + "::";
            }
            declared.insert(q + line.substr(6, line.size() - 7));
        } else {
            well_formed = false;
            break;
        }
    }

    well_formed = well_formed && stack.empty();

    bool ok = well_formed;

    if (!well_formed) {
        std::cout << "FAIL: text is not balanced / not a declaration list\n";
    }

    // There is no class ::Animal, ::anonymous, ::namespace, ... in this
    // program. The only class outside the unnamed namespace is zoo::Keeper.
    // Classes of the unnamed namespace may either be declared inside
    // 'namespace { }' or be left out; anything else is wrong.
    for (auto& name : declared) {
        if (name == "zoo::Keeper") {
            continue;
        }
        if (name.rfind("<unnamed>::", 0) == 0) {
            continue;
        }
        std::cout << "FAIL: declares 'class " << name
                  << "', which is not a class of this program\n";
        ok = false;
    }

    if (declared.count("zoo::Keeper") != 1) {
        std::cout << "FAIL: zoo::Keeper declared " << declared.count("zoo::Keeper")
                  << " times\n";
        ok = false;
    }

    if (declared.count("namespace")) {
        std::cout << "FAIL: 'class namespace;' is not C++\n";
    }

    std::cout << (ok ? "OK\n" : "FAIL\n");
    return ok ? 0 : 1;
}
