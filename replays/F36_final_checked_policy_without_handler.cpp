// C15 / final under a checked policy that has no error_handler facet.
//
// error_handler is an optional facet: checked_perfect_hash::hash_type_id,
// update() and the static-offset checks all do "if the policy has an
// error_handler, call it; in any case abort()". virtual_ptr::final is the one
// place that calls Policy::error unconditionally, so ANY use of final - even a
// correct one - fails to compile with such a policy, and the "wrong dynamic
// type" diagnostic (abort) can never happen.
//
// Expected (property holds): compiles; prints OK; exit 0.
// Current tree: does not compile:
//   core.hpp:362: error: 'error' is not a member of 'P'

#include <yorel/yomm2/keywords.hpp>

#include <csignal>
#include <iostream>
#include <sys/wait.h>
#include <unistd.h>

using namespace yorel::yomm2;

struct P : policy::basic_policy<
               P, policy::std_rtti, policy::checked_perfect_hash<P>,
               policy::vptr_vector<P>> {};

static_assert(P::has_facet<policy::runtime_checks>); // it is a checked policy
static_assert(!P::has_facet<policy::error_handler>);

struct Animal {
    virtual ~Animal() {
    }
};
struct Dog : Animal {};
struct Bulldog : Dog {};

use_classes<Animal, Dog, Bulldog, P> reg;

struct kick_;
using kick = method<kick_, int(virtual_ptr<Animal, P>), P>;

bool ran = false;

int kick_dog(virtual_ptr<Dog, P>) {
    ran = true;
    return 1;
}

kick::add_function<kick_dog> add_kick_dog;

int main() {
    update<P>();

    // 1. a correct use of final: static type == dynamic type, class registered
    Dog dog;

    if (kick::fn(virtual_ptr<Animal, P>::final(dog)) != 1) {
        std::cout << "FAIL: wrong result\n";
        return 1;
    }

    // 2. final given an object of another dynamic type: no handler to call, so
    // the program must abort, before any definition runs
    pid_t pid = fork();

    if (pid == 0) {
        ran = false;
        Bulldog bulldog;
        Dog& as_dog = bulldog;
        auto p = virtual_ptr<Animal, P>::final(as_dog);
        kick::fn(p);
        _exit(ran ? 2 : 3);
    }

    int status;
    waitpid(pid, &status, 0);

    if (!(WIFSIGNALED(status) && WTERMSIG(status) == SIGABRT)) {
        std::cout << "FAIL: final(object of another dynamic type) was not "
                     "diagnosed\n";
        return 1;
    }

    std::cout << "OK\n";
    return 0;
}
