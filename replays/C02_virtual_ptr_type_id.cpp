// replay: type ids reported for virtual_ptr arguments (and non-virtual in between)
#include <yorel/yomm2/keywords.hpp>
#include <iostream>
using namespace yorel::yomm2;
struct A { virtual ~A(){} }; struct B : A {}; struct C : A {};
register_classes(A,B,C);
declare_method(int, g, (double, virtual_ptr<A>, int, virtual_<A&>));
define_method(int, g, (double, virtual_ptr<B>, int, B&)) { return 1; }
int main(){ update(); C c; B b;
 set_error_handler([](const error_type& e){ if (auto r = std::get_if<resolution_error>(&e)) { std::cerr << "arity " << r->arity
   << " t0 isC=" << (r->types[0]==(type_id)&typeid(C)) << " t0 is virtual_ptr<A>=" << (r->types[0]==(type_id)&typeid(virtual_ptr<A>))
   << " t1 isB=" << (r->types[1]==(type_id)&typeid(B)) << "\n"; } });
 g(1.0, c, 2, b); }
