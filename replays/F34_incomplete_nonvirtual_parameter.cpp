// Property C02, "for all signatures (non-virtual parameters before, between
// and after virtual ones)": the error report is built from the virtual
// arguments only.
//
// The two methods below are ordinary: their non-virtual parameters are merely
// passed through to the definitions. On the current tree this file does not
// compile, because the code that builds the resolution error instantiates
// Policy::dynamic_type for the NON-virtual arguments as well (in a branch that
// is never executed):
//
//  1. 'Context' is an opaque (incomplete) type, passed by reference;
//     std_rtti::dynamic_type<Context> applies typeid to an lvalue of
//     incomplete class type -> ill-formed.
//
//  2. 'custom_rtti' implements the documented contract of the rtti facet to
//     the letter (docs.in/reference/policy-rtti.md: dynamic_type's "Class" is
//     "a class registered via register_classes or use_classes"); it is
//     instantiated with 'const char*' and 'double'.

#include <yorel/yomm2/keywords.hpp>

#include <iostream>
#include <string>

using namespace yorel::yomm2;

int fails = 0;

// -----------------------------------------------------------------------------
// 1. opaque type passed through

namespace opaque {

struct Context; // defined elsewhere, never needed here

struct Animal {
    virtual ~Animal() {
    }
};

struct Dog : Animal {};
struct Cat : Animal {};

struct throw_policy : default_policy::rebind<throw_policy>::replace<
                          policy::error_handler, policy::throw_error> {};

register_classes(Animal, Dog, Cat, throw_policy);

declare_method(
    int, kick, (Context&, virtual_<Animal&>, Context*), throw_policy);

define_method(int, kick, (Context&, Dog&, Context*)) {
    return 1;
}

void test(Context& context) {
    update<throw_policy>();
    Dog dog;
    Cat cat;

    if (kick(context, dog, &context) != 1) {
        ++fails;
        std::cout << "FAIL: opaque: dispatch\n";
    }

    try {
        kick(context, cat, &context);
        ++fails;
        std::cout << "FAIL: opaque: no error\n";
    } catch (const resolution_error& error) {
        if (error.status != resolution_error::no_definition ||
            error.arity != 1 ||
            error.types[0] != throw_policy::static_type<Cat>()) {
            ++fails;
            std::cout << "FAIL: opaque: wrong report\n";
        }
    }
}

} // namespace opaque

// -----------------------------------------------------------------------------
// 2. custom RTTI that handles the registered classes, as documented

namespace custom {

struct Animal {
    explicit Animal(type_id type) : type(type) {
    }

    static constexpr type_id static_type = 1;
    type_id type;
};

struct Dog : Animal {
    Dog() : Animal(static_type) {
    }

    static constexpr type_id static_type = 2;
};

struct Cat : Animal {
    Cat() : Animal(static_type) {
    }

    static constexpr type_id static_type = 3;
};

struct custom_rtti : policy::rtti {
    template<typename T>
    static type_id static_type() {
        if constexpr (std::is_base_of_v<Animal, T>) {
            return T::static_type;
        } else {
            return 0; // methods, functions...
        }
    }

    // "Class: a class registered via register_classes or use_classes"
    template<class Class>
    static type_id dynamic_type(const Class& obj) {
        return obj.type;
    }
};

struct custom_policy : policy::basic_policy<
                           custom_policy, custom_rtti,
                           policy::vptr_vector<custom_policy>,
                           policy::throw_error> {};

register_classes(Animal, Dog, Cat, custom_policy);

declare_method(
    int, meet, (const char*, virtual_<Animal&>, double, virtual_<Animal&>),
    custom_policy);

define_method(int, meet, (const char*, Dog&, double, Animal&)) {
    return 1;
}

define_method(int, meet, (const char*, Animal&, double, Cat&)) {
    return 2;
}

void test() {
    update<custom_policy>();
    Dog dog;
    Cat cat;

    if (meet("a", dog, 1., dog) != 1 || meet("a", cat, 1., cat) != 2) {
        ++fails;
        std::cout << "FAIL: custom: dispatch\n";
    }

    try {
        meet("a", dog, 1., cat);
        ++fails;
        std::cout << "FAIL: custom: no error\n";
    } catch (const resolution_error& error) {
        if (error.status != resolution_error::ambiguous || error.arity != 2 ||
            error.types[0] != Dog::static_type ||
            error.types[1] != Cat::static_type) {
            ++fails;
            std::cout << "FAIL: custom: wrong report\n";
        }
    }

    try {
        meet("a", cat, 1., dog);
        ++fails;
        std::cout << "FAIL: custom: no error\n";
    } catch (const resolution_error& error) {
        if (error.status != resolution_error::no_definition ||
            error.arity != 2 || error.types[0] != Cat::static_type ||
            error.types[1] != Dog::static_type) {
            ++fails;
            std::cout << "FAIL: custom: wrong report\n";
        }
    }
}

} // namespace custom

int main() {
    alignas(16) char storage[16];
    opaque::test(*reinterpret_cast<opaque::Context*>(storage));
    custom::test();
    std::cout << (fails ? "FAIL\n" : "OK\n");
    return fails != 0;
}
