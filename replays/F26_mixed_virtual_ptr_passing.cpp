// C11: a method that takes its virtual argument as virtual_ptr<Animal> (by
// value), with a definition that takes it as 'const virtual_ptr<Dog>&' (or the
// other way round). The documentation says a virtual_ptr "can be passed either
// by value, or by const reference"; both spellings designate the same virtual
// parameter, the library accepts the mix without any diagnostic, and the thunk
// converts between the two forms correctly. The definition must therefore run
// and receive the caller's object, correctly adjusted.
//
// g++ -std=gnu++17 -I/tmp/wt/C11g/include -O1 demo.cpp -o demo && ./demo
// (same with -DNDEBUG)

#include <yorel/yomm2/keywords.hpp>

#include <iostream>
#include <string>

using namespace yorel::yomm2;

struct Pad {
    virtual ~Pad() {
    }
    long pad[3];
};

struct Animal {
    virtual ~Animal() {
    }
};

struct Dog : Pad, Animal {}; // Animal at a non-zero offset
struct Cat : Animal {};

register_classes(Animal, Dog, Cat);

int fails = 0;
const void* expect;
std::string called;

#define CHECK(x)                                                               \
    do {                                                                       \
        if (!(x)) {                                                            \
            std::cout << "FAIL " #x " (line " << __LINE__ << ")\n";            \
            ++fails;                                                           \
        }                                                                      \
    } while (0)

// method: by value; definitions: one by const reference, one by value
declare_method(void, kick, (virtual_ptr<Animal>));

define_method(void, kick, (const virtual_ptr<Dog>& dog)) {
    CHECK(dog.get() == expect);
    called = "kick(Dog)";
}

define_method(void, kick, (virtual_ptr<Cat> cat)) {
    CHECK(cat.get() == expect);
    called = "kick(Cat)";
}

// method: by const reference; definitions: one by value, one by const reference
declare_method(void, pet, (const virtual_ptr<Animal>&));

define_method(void, pet, (virtual_ptr<Dog> dog)) {
    CHECK(dog.get() == expect);
    called = "pet(Dog)";
}

define_method(void, pet, (const virtual_ptr<Cat>& cat)) {
    CHECK(cat.get() == expect);
    called = "pet(Cat)";
}

int main() {
    std::cout << "calling update()" << std::endl;
    update(); // current tree: segmentation fault in build_dispatch_tables

    Dog dog;
    Cat cat;
    Animal& a_dog = dog;
    Animal& a_cat = cat;

    expect = &dog;
    called = "";
    kick(a_dog);
    CHECK(called == "kick(Dog)");
    called = "";
    pet(a_dog);
    CHECK(called == "pet(Dog)");

    expect = &cat;
    called = "";
    kick(a_cat);
    CHECK(called == "kick(Cat)");
    called = "";
    pet(a_cat);
    CHECK(called == "pet(Cat)");

    std::cout << (fails ? "FAIL" : "OK") << "\n";
    return fails != 0;
}
