#include "common.hpp"
#include <yorel/yomm2/decode.hpp>
int main() {
    // no update(): the pre-generated tables are decoded instead (the emitted text is a block of statements)
#include "tables.hpp"
    Dog d; Animal a;
    std::cout << "after decode: " << kick(a) << std::endl;
    std::cout << "after decode: " << kick(d) << std::endl;
}
