// C12: "... for programs compiled with the generated header under checked and
// unchecked policies. The debug-build consistency check accepts correctly
// generated offsets ..."
//
// A checked policy (facet runtime_checks) WITHOUT an error_handler facet is a
// legitimate configuration: the error_handler facet is documented as optional
// ("If it is present, its static member error is called ... the program is
// terminated by a call to abort"), and every other check in the library is
// written 'if constexpr (has_facet<error_handler>) Policy::error(...); abort();'.
// Such a program compiles and runs fine - until the (correct) generated static
// offsets are made visible: then method<>::check_static_offset does not compile,
// because it tests the facet with a run-time 'if'.
//
// g++ -std=gnu++17 -I/tmp/wt/C12g/include -O1 demo.cpp -o demo && ./demo
//   -> does not compile on the current tree (prints OK once fixed)
// g++ -std=gnu++17 -I/tmp/wt/C12g/include -O1 -DNO_STATIC_OFFSETS demo.cpp -o demo && ./demo
//   -> compiles and prints OK (same program, offsets read at run time)
// -DNDEBUG does not matter (the policy is spelled out).

#include <yorel/yomm2/policy.hpp>

// the library's debug policy, minus the error handler
struct quiet_checked
    : yorel::yomm2::policy::debug::rebind<quiet_checked>::remove<
          yorel::yomm2::policy::error_handler> {};

#define YOMM2_DEFAULT_POLICY quiet_checked

#include <yorel/yomm2/keywords.hpp>

#include <iostream>
#include <string>

struct A { virtual ~A() {} };
struct B : A {};

#ifndef NO_STATIC_OFFSETS
// exactly what generator::write_static_offsets<quiet_checked>() writes
// (plus the forward declarations of the keys)
struct YoMm2_S_uni;
struct YoMm2_S_two;
template<> struct yorel::yomm2::detail::static_offsets<yorel::yomm2::method<YoMm2_S_uni, std::__cxx11::basic_string<char, std::char_traits<char>, std::allocator<char> > (yorel::yomm2::virtual_<A&>), quiet_checked>> {static constexpr std::size_t slots[] = {0}; };
template<> struct yorel::yomm2::detail::static_offsets<yorel::yomm2::method<YoMm2_S_two, std::__cxx11::basic_string<char, std::char_traits<char>, std::allocator<char> > (yorel::yomm2::virtual_<A&>, yorel::yomm2::virtual_<A&>), quiet_checked>> {static constexpr std::size_t slots[] = {1, 2}; static constexpr std::size_t strides[] = {2}; };
#endif

declare_method(std::string, uni, (virtual_<A&>));
declare_method(std::string, two, (virtual_<A&>, virtual_<A&>));

register_classes(A, B);

define_method(std::string, uni, (A&)) { return "A"; }
define_method(std::string, uni, (B&)) { return "B"; }
define_method(std::string, two, (A&, A&)) { return "AA"; }
define_method(std::string, two, (B&, A&)) { return "BA"; }

using namespace yorel::yomm2;

int main() {
    static_assert(quiet_checked::has_facet<policy::runtime_checks>);
    static_assert(!quiet_checked::has_facet<policy::error_handler>);

    update();

    using uni_method = method_class(std::string, uni, (virtual_<A&>));
    using two_method =
        method_class(std::string, two, (virtual_<A&>, virtual_<A&>));

#ifndef NO_STATIC_OFFSETS
    static_assert(detail::has_static_offsets<uni_method>::value);
    static_assert(detail::has_static_offsets<two_method>::value);
#endif

    // the offsets above are the ones update installs
    if (uni_method::fn.slots_strides[0] != 0 ||
        two_method::fn.slots_strides[0] != 1 ||
        two_method::fn.slots_strides[1] != 2 ||
        two_method::fn.slots_strides[2] != 2) {
        std::cout << "SETUP: update installed other offsets\n";
        return 2;
    }

    A a;
    B b;
    auto result = uni(a) + uni(b) + two(a, a) + two(b, a) + two(a, b);

    if (result != "ABAABAAA") {
        std::cout << "FAIL " << result << "\n";
        return 1;
    }

    std::cout << "OK\n";
    return 0;
}
