// C16: concurrent creation of virtual_ptrs under a vptr_map policy.
//
// The constructor of virtual_ptr looks the v-table pointer up with
// 'Policy::vptrs[index]'. For policy::vptr_map, 'vptrs' is an associative
// container, and operator[] is its NON-CONST, possibly inserting, accessor:
// the container is entitled to modify itself in it (the standard exempts
// operator[] from the data race rules for sequence containers only). The
// method call path (vptr_map::dynamic_vptr) correctly uses the const 'find'.
//
// This program plugs in vptr_map's second template parameter a map that is
// correct under the container contract: its const operations (find) are
// read-only; its non-const operator[] keeps a one-entry memo of the last
// lookup. N threads then create virtual_ptrs and call a method. Each thread
// only uses its own objects; the only shared state is what the library shares.
//
// prints OK   if every call returned the sequential answer and the library
//             never entered a non-const member of the shared map after update
// prints FAIL otherwise

#include <yorel/yomm2/keywords.hpp>

#include <atomic>
#include <cstdio>
#include <thread>
#include <unordered_map>
#include <vector>

using namespace yorel::yomm2;

std::atomic<bool> published{false};         // set once update has returned
std::atomic<long> nonconst_after_update{0}; // non-const map accesses after that
std::atomic<long> overlapping{0};           // ... that overlapped another one

struct memo_map {
    using impl_type = std::unordered_map<type_id, const std::uintptr_t*>;
    using iterator = impl_type::iterator;
    using const_iterator = impl_type::const_iterator;

    impl_type impl;
    // memo of the last lookup through the non-const accessor. Relaxed atomics
    // so that this test program itself stays free of undefined behaviour;
    // logically this is plain non-thread-safe state guarded by 'non-const'.
    std::atomic<type_id> last_key{0};
    std::atomic<const std::uintptr_t**> last_slot{nullptr};
    std::atomic<int> in_flight{0};

    // non-const: may modify the container
    const std::uintptr_t*& operator[](type_id key) {
        if (published) {
            ++nonconst_after_update;
            if (in_flight.fetch_add(1) != 0) {
                ++overlapping;
            }
        }

        const std::uintptr_t** slot;

        if (last_key.load(std::memory_order_relaxed) == key &&
            last_slot.load(std::memory_order_relaxed)) {
            slot = last_slot.load(std::memory_order_relaxed);
        } else {
            slot = &impl[key];
            last_key.store(key, std::memory_order_relaxed);
            std::this_thread::yield();
            last_slot.store(slot, std::memory_order_relaxed);
        }

        if (published) {
            --in_flight;
        }

        return *slot;
    }

    // const: read-only
    const_iterator find(type_id key) const {
        return impl.find(key);
    }

    const_iterator end() const {
        return impl.end();
    }
};

struct map_policy
    : policy::release::rebind<map_policy>::remove<policy::type_hash>::replace<
          policy::vptr_placement, policy::vptr_map<map_policy, memo_map>> {};

struct Animal {
    virtual ~Animal() {
    }
};

struct Dog : Animal {};
struct Cat : Animal {};

use_classes<Animal, Dog, Cat, map_policy> classes;

struct kick_key;
using kick = method<kick_key, int(virtual_ptr<Animal, map_policy>), map_policy>;

int kick_dog(virtual_ptr<Dog, map_policy>) {
    return 1;
}

int kick_cat(virtual_ptr<Cat, map_policy>) {
    return 2;
}

kick::add_function<kick_dog> add_kick_dog;
kick::add_function<kick_cat> add_kick_cat;

// an unrelated policy, updated concurrently
struct other_policy : policy::release::rebind<other_policy> {};
use_classes<Animal, Dog, Cat, other_policy> other_classes;
struct other_key;
using other = method<other_key, int(virtual_<Animal&>), other_policy>;
int other_dog(Dog&) {
    return 1;
}
other::add_function<other_dog> add_other_dog;

int main() {
    update<map_policy>();
    published = true;

    std::atomic<long> wrong{0};
    std::atomic<bool> stop{false};

    std::thread updater([&] {
        while (!stop) {
            update<other_policy>();
        }
    });

    std::vector<std::thread> threads;

    for (int t = 0; t < 4; ++t) {
        threads.emplace_back([&wrong, t] {
            Dog dog;
            Cat cat;

            for (int i = 0; i < 20000; ++i) {
                bool use_dog = (i + t) & 1;
                Animal& animal =
                    use_dog ? static_cast<Animal&>(dog) : static_cast<Animal&>(cat);
                virtual_ptr<Animal, map_policy> ptr(animal); // dynamic route
                int expected = use_dog ? 1 : 2;

                if (kick::fn(ptr) != expected) {
                    ++wrong;
                }
            }
        });
    }

    for (auto& th : threads) {
        th.join();
    }

    stop = true;
    updater.join();

    std::printf(
        "non-const accesses to the shared v-table map after update: %ld "
        "(%ld overlapping), wrong answers: %ld\n",
        nonconst_after_update.load(), overlapping.load(), wrong.load());

    if (wrong || nonconst_after_update) {
        std::puts("FAIL");
        return 1;
    }

    std::puts("OK");
    return 0;
}
