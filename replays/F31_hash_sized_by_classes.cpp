// Two type ids per class (documented: "static_type can return different type
// ids for the same class", consolidated by type_index) + the default type_hash
// facet: update() cannot find a perfect hash and aborts with hash_search_error,
// because fast_perfect_hash sizes its table from the number of classes, not
// from the number of type ids it has to place.
//
// g++ -std=gnu++17 -I/tmp/wt/C10g/include -O1 demo.cpp -o demo && ./demo
#include <yorel/yomm2/keywords.hpp>
#include <iostream>
#include <string>
#include <utility>

using namespace yorel::yomm2;

#ifndef NCLASSES
#define NCLASSES 100
#endif
#ifndef NMODULES
#define NMODULES 2 // ids per class
#endif

// Which "module" (shared library, in real life) is handing out type ids.
int module = 0;

// Type ids look like addresses: pseudo-random 8-aligned 47-bit values (fixed,
// so that the run is deterministic); bits 3-12 hold the class number.
constexpr type_id make_id(int index, int module) {
    std::uint64_t z = (std::uint64_t(index) * NMODULES + module + 1) *
        0x9E3779B97F4A7C15ull;
    z = (z ^ (z >> 30)) * 0xBF58476D1CE4E5B9ull;
    z = (z ^ (z >> 27)) * 0x94D049BB133111EBull;
    z ^= z >> 31;
    return ((z >> 30) << 13 | std::uint64_t(index) << 3) & 0x7FFFFFFFFFF8ull;
}

struct Base {
    explicit Base(type_id type) : type(type) {
    }
    virtual ~Base() {
    }
    static constexpr int index = 0;
    type_id type;
};

template<int N>
struct Derived : Base {
    explicit Derived(int module) : Base(make_id(index, module)) {
    }
    static constexpr int index = N;
};

struct custom_rtti : policy::rtti {
    template<typename T>
    static type_id static_type() {
        if constexpr (std::is_base_of_v<Base, T>) {
            return make_id(T::index, module);
        } else {
            return 0;
        }
    }

    template<typename T>
    static type_id dynamic_type(const T& obj) {
        if constexpr (std::is_base_of_v<Base, T>) {
            return obj.type;
        } else {
            return 0;
        }
    }

    // many-to-one: all the ids of a class map to the same key
    static auto type_index(type_id type) {
        return (type >> 3) & 0x3ff;
    }
};

#ifdef USE_MAP
// same thing without type_hash: works
struct test_policy
    : policy::default_static::rebind<test_policy>::replace<
          policy::rtti, custom_rtti>::remove<policy::type_hash>::
          replace<policy::external_vptr, policy::vptr_map<test_policy>> {};
#else
struct test_policy : policy::default_static::rebind<test_policy>::replace<
                         policy::rtti, custom_rtti> {};
#endif

template<typename>
struct registration;

template<std::size_t... I>
struct registration<std::index_sequence<I...>> {
    using type = use_classes<Base, Derived<I + 1>..., test_policy>;
};

using registration_t =
    registration<std::make_index_sequence<NCLASSES - 1>>::type;

declare_method(int, number, (virtual_<Base&>), test_policy);

define_method(int, number, (Base&)) {
    return 0;
}

define_method(int, number, (Derived<7>&)) {
    return 7;
}

define_method(int, number, (Derived<42>&)) {
    return 42;
}

int main() {
    bool search_failed = false;

    test_policy::error = [&](const error_type& ev) {
        if (auto error = std::get_if<hash_search_error>(&ev)) {
            std::cout << "FAIL: hash_search_error after " << error->attempts
                      << " attempts, " << error->buckets << " buckets, for "
                      << NCLASSES << " classes x " << NMODULES << " ids\n";
            exit(1);
        }
    };

    // one registration object per "module", each with ids of its own
    module = 0;
    static registration_t reg0;
#if NMODULES > 1
    module = 1;
    static registration_t reg1;
#endif
#if NMODULES > 2
    module = 2;
    static registration_t reg2;
#endif

    update<test_policy>();

    int fails = 0;

    for (int m = 0; m < NMODULES; ++m) {
        Derived<7> a(m);
        Derived<42> b(m);
        Derived<43> c(m);
        Base& ra = a;
        Base& rb = b;
        Base& rc = c;
        fails += number(ra) != 7;
        fails += number(rb) != 42;
        fails += number(rc) != 0;
    }

    std::cout << (fails ? "FAIL" : "OK") << "\n";

    return fails != 0;
}
