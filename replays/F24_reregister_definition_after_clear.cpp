// C18: "an unregistered item can be registered again" - method definitions.
//
// A definition is unregistered by clearing the method's definition catalog
// (static_list::clear(), the same operation the "destroying a registration
// object after its catalog was cleared" fix is about). Registering the very
// same definition again - a new add_function<F> registration object - must put
// it back in the catalog. It does not: add_function keeps a private
// "already registered" flag (info.method) that nothing resets.

#include <yorel/yomm2/core.hpp>
#include <iostream>
#include <string>

using namespace yorel::yomm2;

struct Animal { virtual ~Animal() {} };
struct Dog : Animal {};

static use_classes<Animal, Dog> reg_classes;

struct kick_key;
using kick = method<kick_key, std::string(virtual_<Animal&>)>;

std::string kick_animal(Animal&) { return "?"; }
std::string kick_dog(Dog&) { return "bark"; }

static kick::add_function<kick_animal> reg_animal;
static kick::add_function<kick_dog> reg_dog;

int fails = 0;
#define CHECK(c)                                                               \
    do {                                                                       \
        if (!(c)) {                                                            \
            ++fails;                                                           \
            std::cout << "FAIL line " << __LINE__ << ": " #c "\n";             \
        }                                                                      \
    } while (0)

std::size_t count_specs() {
    std::size_t n = 0;
    for (auto& spec : kick::fn.specs) {
        (void)spec;
        ++n;
    }
    return n;
}

int main() {
    Dog dog;
    Animal animal;

    update();
    CHECK(kick::fn.specs.size() == 2);
    CHECK(kick::fn(dog) == "bark");
    CHECK(kick::fn(animal) == "?");

    // unregister every definition of the method
    kick::fn.specs.clear();
    CHECK(kick::fn.specs.empty());
    CHECK(kick::fn.specs.size() == 0);

    // register the same two definitions again, in the other order
    static kick::add_function<kick_dog> reg_dog_again;
    CHECK(!kick::fn.specs.empty());
    CHECK(count_specs() == 1);
    static kick::add_function<kick_animal> reg_animal_again;
    CHECK(count_specs() == 2);
    CHECK(kick::fn.specs.size() == 2);

    if (kick::fn.specs.size() == 2) {
        update();
        CHECK(kick::fn(dog) == "bark");
        CHECK(kick::fn(animal) == "?");
    }

    std::cout << (fails ? "FAIL\n" : "OK\n");
    return fails ? 1 : 0;
}
