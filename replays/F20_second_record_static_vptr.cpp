// C10 demo: custom RTTI whose type ids are 'const char*' names, compared by
// content (many-to-one Policy::type_index projection). Two ids ("Dog" as named
// by class Dog, and "Dog" as named by its implementation class DogImpl)
// designate one and the same class. Objects carrying either id must reach the
// definitions for Dog, for uni- and multi-methods, across updates.

#include <yorel/yomm2/keywords.hpp>

#include <cstdio>
#include <cstdlib>
#include <string>
#include <string_view>
#include <type_traits>

using namespace yorel::yomm2;

struct Animal {
    explicit Animal(const char* type) : type(type) {
    }
    static constexpr const char static_type[] = "Animal";
    const char* type;
};

struct Dog : Animal {
    explicit Dog(const char* type = static_type) : Animal(type) {
    }
    static constexpr const char static_type[] = "Dog";
};

// implementation class: reports the same type name as Dog, through its own
// string, i.e. a second id for the same class
struct DogImpl : Dog {
    DogImpl() : Dog(static_type) {
    }
    static constexpr const char static_type[] = "Dog";
};

struct Cat : Animal {
    Cat() : Animal(static_type) {
    }
    static constexpr const char static_type[] = "Cat";
};

struct custom_rtti : policy::rtti {
    template<typename T>
    static type_id static_type() {
        if constexpr (std::is_base_of_v<Animal, T>) {
            return reinterpret_cast<type_id>(T::static_type);
        } else {
            return 0;
        }
    }

    template<typename T>
    static type_id dynamic_type(const T& obj) {
        if constexpr (std::is_base_of_v<Animal, T>) {
            return reinterpret_cast<type_id>(obj.type);
        } else {
            return 0;
        }
    }

    template<class Stream>
    static void type_name(type_id type, Stream& stream) {
        stream << (type == 0 ? "?" : reinterpret_cast<const char*>(type));
    }

    static auto type_index(type_id type) {
        return std::string_view(
            type == 0 ? "?" : reinterpret_cast<const char*>(type));
    }
};

struct custom_policy : policy::default_static::rebind<custom_policy>::replace<
                           policy::rtti, custom_rtti> {};

register_classes(Animal, Dog, DogImpl, Cat, custom_policy);

declare_method(std::string, kick, (virtual_<Animal&>), custom_policy);

define_method(std::string, kick, (Dog & dog)) {
    return "bark";
}

define_method(std::string, kick, (Cat & cat)) {
    return "hiss";
}

declare_method(
    std::string, meet, (virtual_<Animal&>, virtual_<Animal&>), custom_policy);

define_method(std::string, meet, (Animal&, Animal&)) {
    return "ignore";
}

define_method(std::string, meet, (Dog&, Cat&)) {
    return "chase";
}

define_method(std::string, meet, (Cat&, Dog&)) {
    return "run";
}

using VA = virtual_ptr<Animal, custom_policy>; using VD = virtual_ptr<Dog, custom_policy>;
declare_method(std::string, pet, (VA), custom_policy);
define_method(std::string, pet, (VD dog)) { return "wag"; }
define_method(std::string, pet, (VA a)) { return "?"; }
static bool check2() {
    DogImpl impl;
    std::printf("static_vptr<Dog>=%p static_vptr<DogImpl>=%p\n", (void*)custom_policy::static_vptr<Dog>, (void*)custom_policy::static_vptr<DogImpl>);
    Dog dog; auto p = virtual_ptr<Dog, custom_policy>::final(dog);
    virtual_ptr<Animal, custom_policy> a = p;
    return pet(a) == "wag";
}
static bool check() {
    Dog dog;      // carries the id Dog::static_type
    DogImpl impl; // carries the id DogImpl::static_type - same class
    Cat cat;
    Animal &d = dog, &i = impl, &c = cat;

    bool ok = true;
    ok = ok && kick(d) == "bark" && kick(c) == "hiss";
    ok = ok && kick(i) == "bark";
    ok = ok && meet(d, c) == "chase" && meet(c, d) == "run";
    ok = ok && meet(i, c) == "chase" && meet(c, i) == "run";
    ok = ok && meet(i, d) == "ignore";
    return ok;
}

int main() {
    if (static_cast<const void*>(Dog::static_type) ==
        static_cast<const void*>(DogImpl::static_type)) {
        std::printf("SKIP: the two names were merged into one id\n");
        return 2;
    }

    update<custom_policy>();
    bool ok = check();
    ok = check2() && ok;
    update<custom_policy>();
    ok = ok && check();

    std::printf(ok ? "OK\n" : "FAIL\n");
    return ok ? 0 : 1;
}
