// C15 / what the report of an unregistered class carries.
//
// unknown_class_error is documented (docs.in/reference/error.md) as
//     enum { update = 1, call } context;  // where the error was detected
//     type_id type;                       // type id of the class
// The three update-time sites (listed base, method parameter, definition
// parameter) fill in 'type' only and hand the handler an error whose 'context'
// was never written: the handler reads an indeterminate value.
//
// Expected: for each of the three places, the handler receives
//           {context == update, type == id of the class left out}; prints OK.
// Current tree: context is whatever was on the stack (0 most of the time, a
// stack address for the definition parameter at -O0): never 'update'.

#include <yorel/yomm2/keywords.hpp>

#include <cstring>
#include <iostream>
#include <sys/wait.h>
#include <unistd.h>

using namespace yorel::yomm2;

struct Animal {
    virtual ~Animal() {
    }
};
struct Dog : Animal {};
struct Cat : Animal {};

// three registries, each with one class left out in a different place
struct P1 : policy::debug::rebind<P1> {};
struct P2 : policy::debug::rebind<P2> {};
struct P3 : policy::debug::rebind<P3> {};

// 1. listed base not registered
class_declaration<Dog, Animal, P1> reg1;

// 2. method parameter not registered
use_classes<Animal, Dog, P2> reg2;
struct key2;
using m2 = method<key2, int(virtual_<Cat&>), P2>;
auto& use_m2 = m2::fn;

// 3. definition parameter not registered
use_classes<Animal, Dog, P3> reg3;
struct key3;
using m3 = method<key3, int(virtual_<Animal&>), P3>;
int def3(Cat&) {
    return 1;
}
m3::add_function<def3> add3;

__attribute__((noinline)) void dirty_stack() {
    volatile char buf[1 << 16];
    memset((void*)buf, 0x5a, sizeof(buf));
}

const std::type_info* expected_class;

void handler(const error_type& ev) {
    if (auto error = std::get_if<unknown_class_error>(&ev)) {
        if (error->type != (type_id)expected_class) {
            _exit(2);
        }

        if (error->context != unknown_class_error::update) {
            std::cout << "  context = 0x" << std::hex
                      << (unsigned)error->context << std::dec
                      << ", expected unknown_class_error::update (1)\n"
                      << std::flush;
            _exit(3);
        }

        _exit(0);
    }

    _exit(4);
}

template<class Policy>
bool check(const char* what, const std::type_info& left_out) {
    std::cout << std::flush;
    pid_t pid = fork();

    if (pid == 0) {
        Policy::error = handler;
        expected_class = &left_out;
        dirty_stack();
        update<Policy>();
        _exit(5);
    }

    int status;
    waitpid(pid, &status, 0);
    bool ok = WIFEXITED(status) && WEXITSTATUS(status) == 0;
    std::cout << (ok ? "ok    " : "WRONG ") << what << "\n";
    return ok;
}

int main() {
    bool ok = true;
    ok &= check<P1>("listed base", typeid(Animal));
    ok &= check<P2>("method parameter", typeid(Cat));
    ok &= check<P3>("definition parameter", typeid(Cat));
    std::cout << (ok ? "OK\n" : "FAIL\n");
    return ok ? 0 : 1;
}
