// replay: static offsets written by the generator vs installed (arity 3)
#include <yorel/yomm2/keywords.hpp>
#include <yorel/yomm2/generator.hpp>
#include <iostream>
using namespace yorel::yomm2;
struct A { virtual ~A(){} }; struct B : A {}; struct C : A {};
register_classes(A,B,C);
declare_method(int, u, (virtual_<A&>));
define_method(int, u, (B&)) { return 1; }
declare_method(int, u2, (virtual_<A&>));
define_method(int, u2, (B&)) { return 1; }
declare_method(int, t, (virtual_<A&>, virtual_<A&>, virtual_<A&>));
define_method(int, t, (B&, B&, B&)) { return 1; }
define_method(int, t, (C&, A&, C&)) { return 2; }
int main(){ update();
 using M = method<YoMm2_S_t, int(virtual_<A&>, virtual_<A&>, virtual_<A&>)>;
 std::cerr << "installed:"; for (auto v : M::slots_strides) std::cerr << " " << v; std::cerr << "\n";
 generator g; g.write_static_offsets<M>(std::cerr); }
