#!/bin/bash
# Build the analysis engines (offline; clang 14 / LLVM 14 from the image).
set -e
cd "$(dirname "$0")/.."
mkdir -p build
CXXF="$(llvm-config-14 --cxxflags)"
if [ ! -x build/yir ] || [ engine/yir.cpp -nt build/yir ]; then
  clang++ $CXXF -O1 engine/yir.cpp -o build/yir /usr/lib/llvm-14/lib/libLLVM-14.so &
fi
if [ -f engine/yast.cpp ] && { [ ! -f build/yast.so ] || [ engine/yast.cpp -nt build/yast.so ]; }; then
  clang++ $CXXF -O1 -fPIC -shared engine/yast.cpp -o build/yast.so &
fi
wait
test -x build/yir && test -f build/yast.so && [ ! engine/yast.cpp -nt build/yast.so ]
echo "engines built"
