// yast: clang front-end plugin that serialises the *instantiated*, type-resolved AST (and, on
// request, the clang::CFG) of every function defined under <root> to JSON, for the Python rules.
//
//   clang++ -fsyntax-only -fplugin=yast.so -Xclang -plugin-arg-yast -Xclang out=FILE
//           -Xclang -plugin-arg-yast -Xclang root=/repo/include
//           -Xclang -plugin-arg-yast -Xclang funcs=a|b|c      (substrings of qualified names; empty = all)
//           -Xclang -plugin-arg-yast -Xclang cfg=a|b          (functions for which a CFG is emitted; '*' = all dumped)
//
// Nothing is executed: the plugin only walks declarations after semantic analysis.
#include "clang/AST/AST.h"
#include "clang/AST/ASTConsumer.h"
#include "clang/AST/DeclTemplate.h"
#include "clang/AST/RecordLayout.h"
#include "clang/AST/RecursiveASTVisitor.h"
#include "clang/Analysis/CFG.h"
#include "clang/Basic/SourceManager.h"
#include "clang/Frontend/CompilerInstance.h"
#include "clang/Frontend/FrontendPluginRegistry.h"
#include "llvm/Support/JSON.h"
#include "llvm/Support/raw_ostream.h"
#include <map>
#include <set>
#include <string>
#include <vector>

using namespace clang;
namespace json = llvm::json;

namespace {

struct Opts {
    std::string out, root;
    std::vector<std::string> roots;
    std::vector<std::string> funcs, cfg;
    bool cfgAll = false;
    bool refs = false;
};

static std::vector<std::string> splitStr(llvm::StringRef s, char sep) {
    std::vector<std::string> v;
    llvm::SmallVector<llvm::StringRef, 8> parts;
    s.split(parts, sep, -1, false);
    for (auto p : parts)
        v.push_back(p.str());
    return v;
}

struct Dumper {
    ASTContext& Ctx;
    const Opts& O;
    PrintingPolicy PP;
    std::map<const void*, int64_t> ids;
    int64_t nextId = 1;
    const CXXRecordDecl* abstractPolicy = nullptr;

    Dumper(ASTContext& C, const Opts& o) : Ctx(C), O(o), PP(C.getPrintingPolicy()) {
        PP.SuppressTagKeyword = true;
        PP.Bool = true;
        PP.FullyQualifiedName = true;
        PP.PrintCanonicalTypes = true;
        PP.SuppressUnwrittenScope = false;
        PP.TerseOutput = true;
    }

    int64_t id(const void* p) {
        auto it = ids.find(p);
        if (it != ids.end())
            return it->second;
        return ids[p] = nextId++;
    }

    std::string ty(QualType t) {
        if (t.isNull())
            return "";
        return t.getCanonicalType().getAsString(PP);
    }

    std::string qname(const NamedDecl* d) {
        std::string s;
        llvm::raw_string_ostream os(s);
        if (auto* fd = dyn_cast<FunctionDecl>(d)) {
            fd->getNameForDiagnostic(os, PP, true);
        } else if (auto* vd = dyn_cast<VarDecl>(d)) {
            vd->getNameForDiagnostic(os, PP, true);
        } else if (auto* rd = dyn_cast<CXXRecordDecl>(d)) {
            rd->getNameForDiagnostic(os, PP, true);
        } else {
            d->printQualifiedName(os, PP);
        }
        return os.str();
    }

    bool inRoot(SourceLocation loc) {
        auto& SM = Ctx.getSourceManager();
        loc = SM.getExpansionLoc(loc);
        if (loc.isInvalid())
            return false;
        auto fn = SM.getFilename(loc);
        for (auto& r : O.roots)
            if (fn.startswith(r))
                return true;
        return false;
    }

    std::string fileOf(SourceLocation loc) {
        auto& SM = Ctx.getSourceManager();
        return SM.getFilename(SM.getExpansionLoc(loc)).str();
    }
    int64_t lineOf(SourceLocation loc) {
        auto& SM = Ctx.getSourceManager();
        return SM.getExpansionLineNumber(loc);
    }

    // ---- policy keys --------------------------------------------------------
    bool isPolicy(const CXXRecordDecl* rd) {
        if (!rd || !rd->hasDefinition())
            return false;
        rd = rd->getDefinition();
        if (!abstractPolicy)
            return false;
        if (rd->getCanonicalDecl() == abstractPolicy->getCanonicalDecl())
            return false;
        return rd->isDerivedFrom(abstractPolicy);
    }

    void keysOfType(QualType t, std::set<std::string>& out, int depth = 0) {
        if (t.isNull() || depth > 12)
            return;
        t = t.getCanonicalType();
        const Type* tp = t.getTypePtr();
        if (auto* pt = dyn_cast<PointerType>(tp))
            return keysOfType(pt->getPointeeType(), out, depth + 1);
        if (auto* rt = dyn_cast<ReferenceType>(tp))
            return keysOfType(rt->getPointeeType(), out, depth + 1);
        if (auto* at = dyn_cast<ArrayType>(tp))
            return keysOfType(at->getElementType(), out, depth + 1);
        if (auto* ft = dyn_cast<FunctionProtoType>(tp)) {
            keysOfType(ft->getReturnType(), out, depth + 1);
            for (auto p : ft->param_types())
                keysOfType(p, out, depth + 1);
            return;
        }
        if (auto* mp = dyn_cast<MemberPointerType>(tp)) {
            keysOfType(mp->getPointeeType(), out, depth + 1);
            return;
        }
        if (auto* rt = dyn_cast<RecordType>(tp)) {
            auto* rd = dyn_cast<CXXRecordDecl>(rt->getDecl());
            if (!rd)
                return;
            if (isPolicy(rd))
                out.insert(qname(rd));
            if (auto* sp = dyn_cast<ClassTemplateSpecializationDecl>(rd))
                keysOfArgs(sp->getTemplateArgs().asArray(), out, depth + 1);
            // nested class of a specialisation (e.g. method<..>::add_function<F>)
            keysOfContext(rd->getDeclContext(), out, depth + 1);
        }
    }

    void keysOfArgs(llvm::ArrayRef<TemplateArgument> args, std::set<std::string>& out, int depth) {
        for (auto& a : args) {
            switch (a.getKind()) {
            case TemplateArgument::Type:
                keysOfType(a.getAsType(), out, depth + 1);
                break;
            case TemplateArgument::Pack:
                keysOfArgs(a.getPackAsArray(), out, depth + 1);
                break;
            case TemplateArgument::Declaration:
                if (auto* vd = a.getAsDecl()) {
                    keysOfType(vd->getType(), out, depth + 1);
                    keysOfContext(vd->getDeclContext(), out, depth + 1);
                }
                break;
            default:
                break;
            }
        }
    }

    void keysOfContext(const DeclContext* dc, std::set<std::string>& out, int depth = 0) {
        while (dc && depth < 24) {
            if (auto* sp = dyn_cast<ClassTemplateSpecializationDecl>(dc))
                keysOfArgs(sp->getTemplateArgs().asArray(), out, depth + 1);
            else if (auto* fd = dyn_cast<FunctionDecl>(dc)) {
                if (auto* ta = fd->getTemplateSpecializationArgs())
                    keysOfArgs(ta->asArray(), out, depth + 1);
            } else if (auto* rd = dyn_cast<CXXRecordDecl>(dc)) {
                if (isPolicy(rd))
                    out.insert(qname(rd));
            }
            dc = dc->getParent();
            ++depth;
        }
    }

    json::Array keysOfDecl(const Decl* d) {
        std::set<std::string> ks;
        if (auto* vs = dyn_cast<VarTemplateSpecializationDecl>(d))
            keysOfArgs(vs->getTemplateArgs().asArray(), ks, 0);
        if (auto* fd = dyn_cast<FunctionDecl>(d))
            if (auto* ta = fd->getTemplateSpecializationArgs())
                keysOfArgs(ta->asArray(), ks, 0);
        keysOfContext(d->getDeclContext(), ks);
        json::Array a;
        for (auto& k : ks)
            a.push_back(k);
        return a;
    }

    // ---- expressions / statements -----------------------------------------------
    json::Object declRef(const ValueDecl* d) {
        json::Object r;
        r["name"] = qname(d);
        r["did"] = id(d->getCanonicalDecl());
        r["dk"] = d->getDeclKindName();
        if (auto* vd = dyn_cast<VarDecl>(d)) {
            const char* st = "local";
            if (isa<ParmVarDecl>(vd))
                st = "param";
            else if (vd->isStaticLocal())
                st = "static-local";
            else if (vd->hasGlobalStorage())
                st = "global";
            r["storage"] = st;
            r["const"] = vd->getType().isConstQualified() || vd->isConstexpr();
        }
        return r;
    }

    json::Value node(const Stmt* s) {
        if (!s)
            return nullptr;
        json::Object n;
        n["k"] = s->getStmtClassName();
        n["id"] = id(s);
        n["l"] = lineOf(s->getBeginLoc());
        json::Array kids;
        bool defaultKids = true;

        if (auto* e = dyn_cast<Expr>(s)) {
            if (!e->isValueDependent() && !e->isTypeDependent() && e->getType()->isIntegralOrEnumerationType() &&
                !isa<IntegerLiteral>(e)) {
                Expr::EvalResult r;
                if (e->EvaluateAsInt(r, Ctx, Expr::SE_NoSideEffects, true))
                    n["cv"] = r.Val.getInt().getExtValue();
            }
        }
        if (auto* dre = dyn_cast<DeclRefExpr>(s)) {
            n["ref"] = declRef(dre->getDecl());
            n["t"] = ty(dre->getType());
        } else if (auto* me = dyn_cast<MemberExpr>(s)) {
            n["member"] = me->getMemberDecl()->getNameAsString();
            n["mq"] = qname(me->getMemberDecl());
            n["did"] = id(me->getMemberDecl()->getCanonicalDecl());
            n["arrow"] = me->isArrow();
            n["t"] = ty(me->getType());
            if (auto* vd = dyn_cast<VarDecl>(me->getMemberDecl()))
                n["ref"] = declRef(vd);  // static data member accessed through an object expression
        } else if (auto* ce = dyn_cast<CallExpr>(s)) {
            if (auto* fd = ce->getDirectCallee()) {
                n["callee"] = qname(fd);
                n["cdid"] = id(fd->getCanonicalDecl());
                n["noreturn"] = fd->isNoReturn();
                if (auto* md = dyn_cast<CXXMethodDecl>(fd)) {
                    n["method"] = true;
                    n["cconst"] = md->isConst();
                    n["cstatic"] = md->isStatic();
                    n["crecord"] = qname(md->getParent());
                }
            }
            n["t"] = ty(ce->getType());
            if (auto* oc = dyn_cast<CXXOperatorCallExpr>(s))
                n["oop"] = getOperatorSpelling(oc->getOperator());
        } else if (auto* ce = dyn_cast<CXXConstructExpr>(s)) {
            n["ctor"] = qname(ce->getConstructor());
            n["t"] = ty(ce->getType());
            n["copy"] = ce->getConstructor()->isCopyConstructor();
            n["move"] = ce->getConstructor()->isMoveConstructor();
        } else if (auto* bo = dyn_cast<BinaryOperator>(s)) {
            n["op"] = bo->getOpcodeStr().str();
        } else if (auto* uo = dyn_cast<UnaryOperator>(s)) {
            n["op"] = UnaryOperator::getOpcodeStr(uo->getOpcode()).str();
            n["postfix"] = uo->isPostfix();
        } else if (auto* ce = dyn_cast<CastExpr>(s)) {
            n["ck"] = ce->getCastKindName();
            n["t"] = ty(ce->getType());
            n["from"] = ty(ce->getSubExpr()->getType());
            if (auto* ex = dyn_cast<ExplicitCastExpr>(s))
                n["written"] = ty(ex->getTypeAsWritten());
        } else if (auto* il = dyn_cast<IntegerLiteral>(s)) {
            n["v"] = il->getValue().getLimitedValue();
        } else if (auto* bl = dyn_cast<CXXBoolLiteralExpr>(s)) {
            n["v"] = bl->getValue();
        } else if (auto* sl = dyn_cast<StringLiteral>(s)) {
            if (sl->isAscii())
                n["s"] = sl->getString().str();
        } else if (auto* is = dyn_cast<IfStmt>(s)) {
            n["constexpr"] = is->isConstexpr();
            defaultKids = false;
            if (is->getInit())
                n["init"] = node(is->getInit());
            if (is->getConditionVariableDeclStmt())
                n["condvar"] = node(is->getConditionVariableDeclStmt());
            n["cond"] = node(is->getCond());
            n["then"] = node(is->getThen());
            if (is->getElse())
                n["else"] = node(is->getElse());
        } else if (auto* fs = dyn_cast<ForStmt>(s)) {
            defaultKids = false;
            if (fs->getInit())
                n["init"] = node(fs->getInit());
            if (fs->getCond())
                n["cond"] = node(fs->getCond());
            if (fs->getInc())
                n["inc"] = node(fs->getInc());
            n["body"] = node(fs->getBody());
        } else if (auto* ws = dyn_cast<WhileStmt>(s)) {
            defaultKids = false;
            n["cond"] = node(ws->getCond());
            n["body"] = node(ws->getBody());
        } else if (auto* ds = dyn_cast<DoStmt>(s)) {
            defaultKids = false;
            n["cond"] = node(ds->getCond());
            n["body"] = node(ds->getBody());
        } else if (auto* rs = dyn_cast<CXXForRangeStmt>(s)) {
            defaultKids = false;
            n["range"] = node(rs->getRangeInit());
            if (auto* lv = rs->getLoopVariable()) {
                json::Object v;
                v["name"] = lv->getNameAsString();
                v["type"] = ty(lv->getType());
                v["did"] = id(lv->getCanonicalDecl());
                if (auto* dd = dyn_cast<DecompositionDecl>(lv)) {
                    json::Array bs;
                    for (auto* b : dd->bindings()) {
                        json::Object bo;
                        bo["name"] = b->getNameAsString();
                        bo["did"] = id(b->getCanonicalDecl());
                        bs.push_back(std::move(bo));
                    }
                    v["bindings"] = std::move(bs);
                }
                n["var"] = std::move(v);
            }
            // the desugared pieces are needed by CFG users (cond / inc are CFG elements)
            if (rs->getCond())
                n["cond"] = node(rs->getCond());
            if (rs->getInc())
                n["inc"] = node(rs->getInc());
            if (rs->getRangeStmt())
                n["rangestmt"] = node(rs->getRangeStmt());
            if (rs->getBeginStmt())
                n["beginstmt"] = node(rs->getBeginStmt());
            if (rs->getEndStmt())
                n["endstmt"] = node(rs->getEndStmt());
            if (rs->getLoopVarStmt())
                n["loopvarstmt"] = node(rs->getLoopVarStmt());
            n["body"] = node(rs->getBody());
        } else if (auto* dst = dyn_cast<DeclStmt>(s)) {
            defaultKids = false;
            json::Array ds;
            for (auto* d : dst->decls()) {
                if (auto* vd = dyn_cast<VarDecl>(d)) {
                    json::Object v;
                    v["name"] = vd->getNameAsString();
                    v["type"] = ty(vd->getType());
                    v["did"] = id(vd->getCanonicalDecl());
                    v["static"] = vd->isStaticLocal();
                    v["const"] = vd->getType().isConstQualified() || vd->isConstexpr();
                    if (vd->isStaticLocal()) {
                        v["qname"] = qname(vd);
                        v["keys"] = keysOfDecl(vd);
                    }
                    if (vd->getInit())
                        v["init"] = node(vd->getInit());
                    if (auto* dd = dyn_cast<DecompositionDecl>(vd)) {
                        json::Array bs;
                        for (auto* b : dd->bindings()) {
                            json::Object bo;
                            bo["name"] = b->getNameAsString();
                            bo["did"] = id(b->getCanonicalDecl());
                            bs.push_back(std::move(bo));
                        }
                        v["bindings"] = std::move(bs);
                    }
                    ds.push_back(std::move(v));
                }
            }
            n["decls"] = std::move(ds);
        } else if (auto* le = dyn_cast<LambdaExpr>(s)) {
            defaultKids = false;
            json::Object l;
            auto* op = le->getCallOperator();
            l["did"] = id(op->getCanonicalDecl());
            json::Array ps;
            for (auto* p : op->parameters()) {
                json::Object po;
                po["name"] = p->getNameAsString();
                po["type"] = ty(p->getType());
                po["did"] = id(p->getCanonicalDecl());
                ps.push_back(std::move(po));
            }
            l["params"] = std::move(ps);
            const Stmt* body = op->getBody();
            // generic lambdas: the body of interest is that of an instantiated specialisation
            if (auto* ft = op->getDescribedFunctionTemplate()) {
                json::Array specs;
                for (auto* sp : ft->specializations())
                    if (sp->doesThisDeclarationHaveABody())
                        specs.push_back(node(sp->getBody()));
                l["specializations"] = std::move(specs);
            }
            l["body"] = node(body);
            json::Array caps;
            for (auto& c : le->captures()) {
                json::Object co;
                co["byref"] = c.getCaptureKind() == LCK_ByRef;
                if (c.capturesVariable()) {
                    co["name"] = c.getCapturedVar()->getNameAsString();
                    co["did"] = id(c.getCapturedVar()->getCanonicalDecl());
                } else if (c.capturesThis()) {
                    co["name"] = "this";
                }
                caps.push_back(std::move(co));
            }
            l["captures"] = std::move(caps);
            n["lambda"] = std::move(l);
        } else if (auto* ue = dyn_cast<UnaryExprOrTypeTraitExpr>(s)) {
            n["trait"] = getTraitSpelling(ue->getKind());
            if (ue->isArgumentType())
                n["argt"] = ty(ue->getArgumentType());
        } else if (auto* ne = dyn_cast<CXXNewExpr>(s)) {
            n["t"] = ty(ne->getType());
        } else if (auto* te = dyn_cast<CXXTypeidExpr>(s)) {
            if (te->isTypeOperand())
                n["argt"] = ty(te->getTypeOperand(Ctx));
            n["t"] = ty(te->getType());
        } else if (isa<CXXThisExpr>(s)) {
            n["t"] = ty(cast<Expr>(s)->getType());
        } else if (auto* tt = dyn_cast<CXXTemporaryObjectExpr>(s)) {
            n["t"] = ty(tt->getType());
        } else if (auto* fc = dyn_cast<CXXFunctionalCastExpr>(s)) {
            (void)fc;
        } else if (auto* as = dyn_cast<ArraySubscriptExpr>(s)) {
            n["t"] = ty(as->getType());
        }
        if (defaultKids) {
            for (auto* c : s->children())
                kids.push_back(node(c));
            if (!kids.empty())
                n["c"] = std::move(kids);
        }
        return std::move(n);
    }

    bool wantCfg(const std::string& qn) {
        if (O.cfgAll)
            return true;
        for (auto& f : O.cfg)
            if (qn.find(f) != std::string::npos)
                return true;
        return false;
    }

    json::Value cfgOf(const FunctionDecl* fd) {
        CFG::BuildOptions BO;
        BO.setAllAlwaysAdd();
        BO.AddImplicitDtors = false;
        BO.AddTemporaryDtors = false;
        BO.AddEHEdges = false;
        BO.PruneTriviallyFalseEdges = true;
        auto cfg = CFG::buildCFG(fd, fd->getBody(), &Ctx, BO);
        if (!cfg)
            return nullptr;
        json::Object c;
        c["entry"] = (int64_t)cfg->getEntry().getBlockID();
        c["exit"] = (int64_t)cfg->getExit().getBlockID();
        json::Array blocks;
        for (auto* B : *cfg) {
            json::Object b;
            b["id"] = (int64_t)B->getBlockID();
            json::Array st;
            for (auto& E : *B)
                if (auto S = E.getAs<CFGStmt>())
                    st.push_back(id(S->getStmt()));
            b["stmts"] = std::move(st);
            json::Array succ;
            for (auto it = B->succ_begin(); it != B->succ_end(); ++it) {
                if (it->isReachable())
                    succ.push_back((int64_t)it->getReachableBlock()->getBlockID());
                else
                    succ.push_back(nullptr);  // pruned (statically false) edge
            }
            b["succ"] = std::move(succ);
            if (auto* t = B->getTerminatorStmt()) {
                b["termk"] = t->getStmtClassName();
                b["term"] = id(t);
            }
            if (auto* tc = B->getTerminatorCondition())
                b["cond"] = id(tc);
            b["noreturn"] = B->hasNoReturnElement();
            blocks.push_back(std::move(b));
        }
        c["blocks"] = std::move(blocks);
        return std::move(c);
    }
};

struct RefCollector : RecursiveASTVisitor<RefCollector> {
    Dumper& D;
    std::map<std::string, const VarDecl*> vars;
    std::map<std::string, const FunctionDecl*> fns;
    std::map<std::string, int64_t> varLine, fnLine;
    RefCollector(Dumper& d) : D(d) {}
    bool shouldVisitTemplateInstantiations() const { return true; }
    void addVar(const VarDecl* vd, SourceLocation loc) {
        if (!vd || !vd->hasGlobalStorage() || isa<ParmVarDecl>(vd))
            return;
        auto n = D.qname(vd);
        if (vd->isStaticLocal()) {
            if (auto* fd = dyn_cast<FunctionDecl>(vd->getDeclContext()))
                n = D.qname(fd) + "::" + n;
        }
        if (vars.emplace(n, vd).second)
            varLine[n] = D.lineOf(loc);
    }
    bool VisitDeclRefExpr(DeclRefExpr* e) {
        if (auto* vd = dyn_cast<VarDecl>(e->getDecl()))
            addVar(vd, e->getBeginLoc());
        else if (auto* fd = dyn_cast<FunctionDecl>(e->getDecl())) {
            auto n = D.qname(fd);
            if (fns.emplace(n, fd).second)
                fnLine[n] = D.lineOf(e->getBeginLoc());
        }
        return true;
    }
    bool VisitMemberExpr(MemberExpr* e) {
        if (auto* vd = dyn_cast<VarDecl>(e->getMemberDecl()))
            addVar(vd, e->getBeginLoc());
        else if (auto* fd = dyn_cast<FunctionDecl>(e->getMemberDecl())) {
            auto n = D.qname(fd);
            if (fns.emplace(n, fd).second)
                fnLine[n] = D.lineOf(e->getBeginLoc());
        }
        return true;
    }
    bool VisitCXXConstructExpr(CXXConstructExpr* e) {
        auto* fd = e->getConstructor();
        auto n = D.qname(fd);
        if (fns.emplace(n, fd).second)
            fnLine[n] = D.lineOf(e->getBeginLoc());
        return true;
    }
    bool VisitDeclStmt(DeclStmt* ds) {
        for (auto* d : ds->decls())
            if (auto* vd = dyn_cast<VarDecl>(d))
                if (vd->isStaticLocal())
                    addVar(vd, vd->getLocation());
        return true;
    }
};

struct V : RecursiveASTVisitor<V> {
    Dumper& D;
    json::Array funcs, vars, records;
    std::set<const Decl*> seenF, seenV;
    V(Dumper& d) : D(d) {}
    bool shouldVisitTemplateInstantiations() const { return true; }
    bool shouldVisitImplicitCode() const { return false; }

    bool wanted(const std::string& qn) {
        if (D.O.funcs.empty())
            return true;
        for (auto& f : D.O.funcs)
            if (qn.find(f) != std::string::npos)
                return true;
        return false;
    }

    bool VisitFunctionDecl(FunctionDecl* FD) {
        if (!FD->doesThisDeclarationHaveABody() || FD->isDependentContext())
            return true;
        if (!D.inRoot(FD->getLocation()))
            return true;
        if (auto* md = dyn_cast<CXXMethodDecl>(FD))
            if (md->getParent()->isLambda())
                return true;  // dumped inline with the LambdaExpr
        if (!seenF.insert(FD->getCanonicalDecl()).second)
            return true;
        std::string qn = D.qname(FD);
        bool withBody = wanted(qn);
        if (!withBody && !D.O.refs)
            return true;
        json::Object f;
        f["name"] = qn;
        f["did"] = D.id(FD->getCanonicalDecl());
        f["file"] = D.fileOf(FD->getLocation());
        f["line"] = D.lineOf(FD->getLocation());
        f["inst"] = FD->isTemplateInstantiation();
        f["ret"] = D.ty(FD->getReturnType());
        f["noreturn"] = FD->isNoReturn();
        f["kind"] = static_cast<const Decl*>(FD)->getDeclKindName();
        if (auto* md = dyn_cast<CXXMethodDecl>(FD)) {
            f["record"] = D.qname(md->getParent());
            f["static"] = md->isStatic();
            f["const"] = md->isConst();
        }
        json::Array ps;
        for (auto* p : FD->parameters()) {
            json::Object po;
            po["name"] = p->getNameAsString();
            po["type"] = D.ty(p->getType());
            po["did"] = D.id(p->getCanonicalDecl());
            ps.push_back(std::move(po));
        }
        f["params"] = std::move(ps);
        f["keys"] = D.keysOfDecl(FD);
        if (auto* ta = FD->getTemplateSpecializationArgs()) {
            json::Array as;
            for (auto& a : ta->asArray()) {
                std::string s;
                llvm::raw_string_ostream os(s);
                a.print(D.PP, os, true);
                as.push_back(os.str());
            }
            f["targs"] = std::move(as);
        }
        if (auto* cd = dyn_cast<CXXConstructorDecl>(FD); cd && withBody) {
            json::Array inits;
            for (auto* in : cd->inits()) {
                json::Object io;
                if (in->isAnyMemberInitializer())
                    io["member"] = in->getAnyMember()->getNameAsString();
                else if (in->isBaseInitializer())
                    io["base"] = D.ty(QualType(in->getBaseClass(), 0));
                io["written"] = in->isWritten();
                io["init"] = D.node(in->getInit());
                inits.push_back(std::move(io));
            }
            f["inits"] = std::move(inits);
        }
        if (D.O.refs) {
            RefCollector rc(D);
            rc.TraverseStmt(FD->getBody());
            if (auto* cd = dyn_cast<CXXConstructorDecl>(FD))
                for (auto* in : cd->inits())
                    rc.TraverseStmt(in->getInit());
            json::Array sr, cr;
            for (auto& kv : rc.vars) {
                json::Object o;
                o["name"] = kv.first;
                o["keys"] = D.keysOfDecl(kv.second);
                o["const"] = kv.second->getType().isConstQualified() || kv.second->isConstexpr();
                o["line"] = rc.varLine[kv.first];
                sr.push_back(std::move(o));
            }
            for (auto& kv : rc.fns) {
                json::Object o;
                o["name"] = kv.first;
                o["keys"] = D.keysOfDecl(kv.second);
                o["line"] = rc.fnLine[kv.first];
                cr.push_back(std::move(o));
            }
            f["srefs"] = std::move(sr);
            f["crefs"] = std::move(cr);
        }
        if (withBody) {
            f["body"] = D.node(FD->getBody());
            if (D.wantCfg(qn))
                f["cfg"] = D.cfgOf(FD);
        }
        funcs.push_back(std::move(f));
        return true;
    }

    std::set<const Decl*> seenR;
    json::Array policies;
    bool VisitCXXRecordDecl(CXXRecordDecl* RD) {
        if (!RD->hasDefinition() || RD->isDependentContext())
            return true;
        auto* def = RD->getDefinition();
        if (!D.isPolicy(def) || !seenR.insert(def->getCanonicalDecl()).second)
            return true;
        json::Object o;
        o["name"] = D.qname(def);
        json::Array bases;
        std::set<std::string> bs;
        def->forallBases([&](const CXXRecordDecl* b) {
            if (D.isPolicy(b))
                bs.insert(D.qname(b));
            return true;
        });
        for (auto& b : bs)
            bases.push_back(b);
        o["bases"] = std::move(bases);
        policies.push_back(std::move(o));
        return true;
    }

    bool VisitVarDecl(VarDecl* VD) {
        if (!VD->hasGlobalStorage() || isa<ParmVarDecl>(VD))
            return true;
        if (VD->getDeclContext()->isDependentContext() || VD->getType()->isDependentType())
            return true;
        if (!D.inRoot(VD->getLocation()))
            return true;
        if (!seenV.insert(VD->getCanonicalDecl()).second)
            return true;
        json::Object v;
        v["name"] = D.qname(VD);
        v["did"] = D.id(VD->getCanonicalDecl());
        v["type"] = D.ty(VD->getType());
        v["const"] = VD->getType().isConstQualified();
        v["constexpr"] = VD->isConstexpr();
        v["static_local"] = VD->isStaticLocal();
        v["tls"] = VD->getTLSKind() != VarDecl::TLS_None;
        v["file"] = D.fileOf(VD->getLocation());
        v["line"] = D.lineOf(VD->getLocation());
        v["keys"] = D.keysOfDecl(VD);
        v["member"] = VD->isStaticDataMember();
        // initialiser of a variable selected like a function (funcs= option): tables such as generator::keywords
        if ((!D.O.funcs.empty() && wanted(D.qname(VD))) || VD->isStaticLocal())
            if (const Expr* init = VD->getAnyInitializer())
                v["init"] = D.node(init);
        vars.push_back(std::move(v));
        return true;
    }
};

struct Consumer : ASTConsumer {
    Opts O;
    Consumer(Opts o) : O(std::move(o)) {}
    void HandleTranslationUnit(ASTContext& Ctx) override {
        if (Ctx.getDiagnostics().hasErrorOccurred())
            return;
        Dumper D(Ctx, O);
        // locate yorel::yomm2::policy::abstract_policy
        for (auto* d : Ctx.getTranslationUnitDecl()->decls())
            if (auto* ns = dyn_cast<NamespaceDecl>(d))
                if (ns->getName() == "yorel")
                    findAbstract(ns, D);
        V v(D);
        v.TraverseDecl(Ctx.getTranslationUnitDecl());
        json::Object root;
        root["functions"] = std::move(v.funcs);
        root["vars"] = std::move(v.vars);
        root["policies"] = std::move(v.policies);
        root["root"] = O.root;
        std::error_code ec;
        llvm::raw_fd_ostream out(O.out, ec);
        if (ec) {
            llvm::errs() << "yast: cannot write " << O.out << "\n";
            return;
        }
        out << json::Value(std::move(root));
    }
    void findAbstract(const DeclContext* dc, Dumper& D) {
        for (auto* d : dc->decls()) {
            if (auto* ns = dyn_cast<NamespaceDecl>(d)) {
                if (ns->getName() == "yomm2" || ns->getName() == "policy")
                    findAbstract(ns, D);
            } else if (auto* rd = dyn_cast<CXXRecordDecl>(d)) {
                if (rd->getName() == "abstract_policy" && rd->hasDefinition())
                    D.abstractPolicy = rd->getDefinition();
            }
        }
    }
};

struct Action : PluginASTAction {
    Opts O;
    std::unique_ptr<ASTConsumer> CreateASTConsumer(CompilerInstance&, llvm::StringRef) override {
        return std::make_unique<Consumer>(O);
    }
    bool ParseArgs(const CompilerInstance&, const std::vector<std::string>& args) override {
        for (auto& a : args) {
            llvm::StringRef s(a);
            if (s.startswith("out="))
                O.out = s.substr(4).str();
            else if (s.startswith("root=")) {
                O.root = s.substr(5).str();
                O.roots = splitStr(s.substr(5), '|');
            }
            else if (s.startswith("funcs="))
                O.funcs = splitStr(s.substr(6), '|');
            else if (s == "refs=1")
                O.refs = true;
            else if (s.startswith("cfg=")) {
                if (s.substr(4) == "*")
                    O.cfgAll = true;
                else
                    O.cfg = splitStr(s.substr(4), '|');
            }
        }
        return !O.out.empty();
    }
    ActionType getActionType() override { return AddAfterMainAction; }
};

}  // namespace

static FrontendPluginRegistry::Add<Action> X("yast", "serialise instantiated ASTs of functions under a root directory");
