// yir: serialise an LLVM-IR module (after mem2reg) to JSON for the Python rules.
// Static analysis only: the module is never executed or interpreted.
//
//   yir in.ll out.json
//
// Bodies are emitted for every defined function whose debug-info file is not
// under /usr/ (library headers of /repo and the witness itself); functions of
// the C++ standard library / Boost are emitted as declarations (trusted base).
#include "llvm/Demangle/Demangle.h"
#include "llvm/IR/Constants.h"
#include "llvm/ADT/MapVector.h"
#include "llvm/BinaryFormat/Dwarf.h"
#include "llvm/IR/DebugInfo.h"
#include "llvm/IR/DebugInfoMetadata.h"
#include "llvm/IR/InstIterator.h"
#include "llvm/IR/Instructions.h"
#include "llvm/IR/IntrinsicInst.h"
#include "llvm/IR/LLVMContext.h"
#include "llvm/IR/Module.h"
#include "llvm/IR/ModuleSlotTracker.h"
#include "llvm/IR/Operator.h"
#include "llvm/IRReader/IRReader.h"
#include "llvm/Support/JSON.h"
#include "llvm/Support/SourceMgr.h"
#include "llvm/Support/raw_ostream.h"
#include <map>
#include <string>

using namespace llvm;

static std::string tyStr(Type* t) {
    std::string s;
    raw_string_ostream os(s);
    t->print(os);
    return os.str();
}

struct Ctx {
    std::map<const Value*, int> ids;   // instruction ids per function
    std::map<const BasicBlock*, int> bbs;
};

static json::Value ref(const Value* v, Ctx& c, int depth = 0);

static const DataLayout* gDL = nullptr;
static json::Value constExpr(const ConstantExpr* ce, Ctx& c, int depth) {
    if (auto* gep = dyn_cast<GEPOperator>(ce)) {
        APInt off(64, 0);
        if (gDL && gep->accumulateConstantOffset(*gDL, off)) {
            json::Array r;
            r.push_back("cgep");
            r.push_back(ref(gep->getPointerOperand(), c, depth + 1));
            r.push_back((int64_t)off.getSExtValue());
            return std::move(r);
        }
    }
    json::Array ops;
    for (auto& o : ce->operands())
        ops.push_back(ref(o.get(), c, depth + 1));
    json::Array r;
    r.push_back("ce");
    r.push_back(ce->getOpcodeName());
    r.push_back(std::move(ops));
    r.push_back(tyStr(ce->getType()));
    return std::move(r);
}

static json::Value ref(const Value* v, Ctx& c, int depth) {
    json::Array r;
    if (depth > 8) {
        r.push_back("o");
        r.push_back("deep");
        return std::move(r);
    }
    if (auto* a = dyn_cast<Argument>(v)) {
        r.push_back("a");
        r.push_back((int64_t)a->getArgNo());
    } else if (auto* i = dyn_cast<Instruction>(v)) {
        r.push_back("i");
        r.push_back((int64_t)c.ids[i]);
    } else if (auto* ci = dyn_cast<ConstantInt>(v)) {
        r.push_back("c");
        if (ci->getBitWidth() <= 64)
            r.push_back((int64_t)ci->getSExtValue());
        else
            r.push_back("wide");
        r.push_back((int64_t)ci->getBitWidth());
    } else if (isa<ConstantPointerNull>(v)) {
        r.push_back("null");
    } else if (isa<UndefValue>(v)) {
        r.push_back("undef");
    } else if (auto* f = dyn_cast<Function>(v)) {
        r.push_back("f");
        r.push_back(f->getName().str());
    } else if (auto* g = dyn_cast<GlobalVariable>(v)) {
        r.push_back("g");
        r.push_back(g->getName().str());
    } else if (auto* ga = dyn_cast<GlobalAlias>(v)) {
        r.push_back("g");
        r.push_back(ga->getName().str());
    } else if (auto* bb = dyn_cast<BasicBlock>(v)) {
        r.push_back("b");
        r.push_back((int64_t)c.bbs[bb]);
    } else if (auto* ce = dyn_cast<ConstantExpr>(v)) {
        return constExpr(ce, c, depth);
    } else if (auto* cf = dyn_cast<ConstantFP>(v)) {
        r.push_back("fp");
        std::string s;
        raw_string_ostream os(s);
        cf->getValueAPF().print(os);
        r.push_back(os.str());
    } else if (isa<ConstantAggregateZero>(v)) {
        r.push_back("zero");
    } else if (auto* ca = dyn_cast<ConstantAggregate>(v)) {
        r.push_back("agg");
        json::Array ops;
        for (auto& o : ca->operands())
            ops.push_back(ref(o.get(), c, depth + 1));
        r.push_back(std::move(ops));
    } else if (auto* cd = dyn_cast<ConstantDataSequential>(v)) {
        r.push_back("agg");
        json::Array ops;
        for (unsigned k = 0; k < cd->getNumElements() && k < 64; ++k)
            ops.push_back(ref(cd->getElementAsConstant(k), c, depth + 1));
        r.push_back(std::move(ops));
    } else if (isa<MetadataAsValue>(v)) {
        r.push_back("md");
    } else if (isa<InlineAsm>(v)) {
        r.push_back("asm");
    } else {
        r.push_back("o");
        std::string s;
        raw_string_ostream os(s);
        v->printAsOperand(os, false);
        r.push_back(os.str());
    }
    return std::move(r);
}

static bool underUsr(const Function& F) {
    if (auto* sp = F.getSubprogram()) {
        auto dir = sp->getDirectory();
        auto file = sp->getFilename();
        std::string p = file.startswith("/") ? file.str() : (dir + "/" + file).str();
        return StringRef(p).startswith("/usr/");
    }
    // no debug info: compiler-generated (global ctors, __cxx_global_var_init)
    return false;
}

int main(int argc, char** argv) {
    if (argc < 3) {
        errs() << "usage: yir in.ll out.json\n";
        return 2;
    }
    LLVMContext C;
    SMDiagnostic E;
    auto M = parseIRFile(argv[1], E, C);
    if (!M) {
        E.print("yir", errs());
        return 2;
    }
    gDL = &M->getDataLayout();
    json::Object root;
    // struct layouts from debug info (field name -> byte offset)
    {
        json::Object layouts;
        DebugInfoFinder dif;
        dif.processModule(*M);
        for (auto* t : dif.types()) {
            auto* ct = dyn_cast<DICompositeType>(t);
            if (!ct || ct->getName().empty())
                continue;
            if (ct->getTag() == dwarf::DW_TAG_enumeration_type && !ct->getIdentifier().empty()) {
                json::Object vals;
                for (auto* el : ct->getElements())
                    if (auto* en = dyn_cast<DIEnumerator>(el))
                        vals[en->getName().str()] = en->isUnsigned() ? (int64_t)en->getValue().getZExtValue() : (int64_t)en->getValue().getSExtValue();
                json::Object lo;
                lo["name"] = demangle(ct->getIdentifier().str());
                lo["enum"] = std::move(vals);
                layouts[ct->getIdentifier().str()] = std::move(lo);
                continue;
            }
            if (ct->getTag() != dwarf::DW_TAG_structure_type && ct->getTag() != dwarf::DW_TAG_class_type)
                continue;
            std::string id = ct->getIdentifier().str();
            if (id.empty())
                continue;
            json::Object fields;
            for (auto* el : ct->getElements()) {
                if (auto* dt = dyn_cast<DIDerivedType>(el)) {
                    if (dt->getTag() == dwarf::DW_TAG_member && !(dt->getFlags() & DINode::FlagStaticMember))
                        fields[dt->getName().str()] = (int64_t)(dt->getOffsetInBits() / 8);
                }
            }
            json::Object lo;
            lo["name"] = demangle(id);
            lo["size"] = (int64_t)(ct->getSizeInBits() / 8);
            lo["fields"] = std::move(fields);
            layouts[id] = std::move(lo);
        }
        root["layouts"] = std::move(layouts);
    }
    json::Array globals;
    Ctx gc;
    for (auto& G : M->globals()) {
        json::Object g;
        g["name"] = G.getName().str();
        g["dname"] = demangle(G.getName().str());
        g["const"] = G.isConstant();
        g["ty"] = tyStr(G.getValueType());
        g["decl"] = G.isDeclaration();
        g["tls"] = G.isThreadLocal();
        if (G.hasInitializer())
            g["init"] = ref(G.getInitializer(), gc);
        SmallVector<DIGlobalVariableExpression*, 1> dbg;
        G.getDebugInfo(dbg);
        if (!dbg.empty()) {
            auto* v = dbg[0]->getVariable();
            g["line"] = (int64_t)v->getLine();
            g["file"] = (v->getDirectory() + "/" + v->getFilename()).str();
            if (v->getFilename().startswith("/"))
                g["file"] = v->getFilename().str();
        }
        globals.push_back(std::move(g));
    }
    root["globals"] = std::move(globals);

    json::Array funcs;
    for (auto& F : *M) {
        json::Object f;
        f["name"] = F.getName().str();
        f["dname"] = demangle(F.getName().str());
        f["decl"] = F.isDeclaration();
        f["noreturn"] = F.doesNotReturn();
        f["nounwind"] = F.doesNotThrow();
        f["ret"] = tyStr(F.getReturnType());
        f["personality"] = F.hasPersonalityFn();
        json::Array args;
        for (auto& A : F.args()) {
            json::Object a;
            a["ty"] = tyStr(A.getType());
            a["name"] = A.getName().str();
            a["sret"] = A.hasStructRetAttr();
            a["byval"] = A.hasByValAttr();
            a["nonnull"] = A.hasNonNullAttr();
            a["deref"] = (int64_t)A.getDereferenceableBytes();
            args.push_back(std::move(a));
        }
        f["args"] = std::move(args);
        if (auto* sp = F.getSubprogram()) {
            f["line"] = (int64_t)sp->getLine();
            auto file = sp->getFilename();
            f["file"] = file.startswith("/") ? file.str() : (sp->getDirectory() + "/" + file).str();
        }
        bool body = !F.isDeclaration() && !underUsr(F);
        f["body"] = body;
        if (body) {
            Ctx c;
            int n = 0, b = 0;
            for (auto& BB : F) {
                c.bbs[&BB] = b++;
                for (auto& I : BB)
                    c.ids[&I] = n++;
            }
            json::Array blocks;
            for (auto& BB : F) {
                json::Object jb;
                jb["id"] = (int64_t)c.bbs[&BB];
                json::Array insts;
                for (auto& I : BB) {
                    if (isa<DbgInfoIntrinsic>(&I))
                        continue;
                    json::Object ji;
                    ji["id"] = (int64_t)c.ids[&I];
                    ji["op"] = I.getOpcodeName();
                    ji["ty"] = tyStr(I.getType());
                    if (auto& dl = I.getDebugLoc()) {
                        ji["line"] = (int64_t)dl.getLine();
                        if (auto* sc = dyn_cast_or_null<DIScope>(dl.getScope())) {
                            auto fn = sc->getFilename();
                            ji["file"] = fn.startswith("/") ? fn.str() : (sc->getDirectory() + "/" + fn).str();
                        }
                    }
                    json::Array ops;
                    if (auto* cb = dyn_cast<CallBase>(&I)) {
                        for (auto& a : cb->args())
                            ops.push_back(ref(a.get(), c));
                        if (auto* callee = cb->getCalledFunction()) {
                            ji["callee"] = callee->getName().str();
                            ji["dcallee"] = demangle(callee->getName().str());
                        } else {
                            ji["indirect"] = ref(cb->getCalledOperand(), c);
                        }
                        ji["noreturn"] = cb->doesNotReturn();
                        if (auto* inv = dyn_cast<InvokeInst>(&I)) {
                            json::Array succ;
                            succ.push_back((int64_t)c.bbs[inv->getNormalDest()]);
                            succ.push_back((int64_t)c.bbs[inv->getUnwindDest()]);
                            ji["succ"] = std::move(succ);
                        }
                    } else if (auto* phi = dyn_cast<PHINode>(&I)) {
                        json::Array inc;
                        for (unsigned k = 0; k < phi->getNumIncomingValues(); ++k) {
                            ops.push_back(ref(phi->getIncomingValue(k), c));
                            inc.push_back((int64_t)c.bbs[phi->getIncomingBlock(k)]);
                        }
                        ji["incoming"] = std::move(inc);
                    } else {
                        for (auto& o : I.operands())
                            if (!isa<BasicBlock>(o.get()))
                                ops.push_back(ref(o.get(), c));
                        if (I.isTerminator()) {
                            json::Array succ;
                            for (unsigned k = 0; k < I.getNumSuccessors(); ++k)
                                succ.push_back((int64_t)c.bbs[I.getSuccessor(k)]);
                            ji["succ"] = std::move(succ);
                        }
                    }
                    ji["ops"] = std::move(ops);
                    if (auto* st = dyn_cast<StoreInst>(&I)) {
                        ji["atomic"] = st->isAtomic();
                        ji["volatile"] = st->isVolatile();
                    } else if (auto* ld = dyn_cast<LoadInst>(&I)) {
                        ji["atomic"] = ld->isAtomic();
                        ji["volatile"] = ld->isVolatile();
                    } else if (isa<AtomicRMWInst>(&I) || isa<AtomicCmpXchgInst>(&I)) {
                        ji["atomic"] = true;
                    } else if (auto* cmp = dyn_cast<CmpInst>(&I)) {
                        ji["pred"] = CmpInst::getPredicateName(cmp->getPredicate()).str();
                    } else if (auto* gep = dyn_cast<GetElementPtrInst>(&I)) {
                        ji["srcty"] = tyStr(gep->getSourceElementType());
                        APInt off(64, 0);
                        if (gep->accumulateConstantOffset(M->getDataLayout(), off))
                            ji["constoff"] = (int64_t)off.getSExtValue();
                        // affine decomposition: base + const + sum(scale_i * index_i)
                        MapVector<Value*, APInt> var;
                        APInt cst(64, 0);
                        if (cast<GEPOperator>(gep)->collectOffset(M->getDataLayout(), 64, var, cst)) {
                            json::Array terms;
                            for (auto& kv : var) {
                                json::Array t;
                                t.push_back(ref(kv.first, c));
                                t.push_back((int64_t)kv.second.getSExtValue());
                                terms.push_back(std::move(t));
                            }
                            ji["gepconst"] = (int64_t)cst.getSExtValue();
                            ji["gepvars"] = std::move(terms);
                        }
                    } else if (auto* al = dyn_cast<AllocaInst>(&I)) {
                        ji["allocty"] = tyStr(al->getAllocatedType());
                    } else if (auto* sw = dyn_cast<SwitchInst>(&I)) {
                        json::Array cases;
                        for (auto& cs : sw->cases())
                            cases.push_back((int64_t)cs.getCaseValue()->getSExtValue());
                        ji["cases"] = std::move(cases);
                    } else if (isa<LandingPadInst>(&I)) {
                        auto* lp = cast<LandingPadInst>(&I);
                        ji["cleanup"] = lp->isCleanup();
                        ji["clauses"] = (int64_t)lp->getNumClauses();
                    }
                    insts.push_back(std::move(ji));
                }
                jb["insts"] = std::move(insts);
                blocks.push_back(std::move(jb));
            }
            f["blocks"] = std::move(blocks);
        }
        funcs.push_back(std::move(f));
    }
    root["functions"] = std::move(funcs);
    root["datalayout"] = M->getDataLayoutStr();
    std::error_code ec;
    raw_fd_ostream out(argv[2], ec);
    if (ec) {
        errs() << "cannot write " << argv[2] << "\n";
        return 2;
    }
    out << json::Value(std::move(root));
    return 0;
}
