#!/usr/bin/env python3
"""record_fix.py F<n> <property> <rule-or--> <properties-for-mutant> "<what failed>"  - after a fix commit in /repo (HEAD): append the
`fixed:` line to known_findings.json and register the reverse patch as selftest mutant reintroduce_F<n>."""
import json, subprocess, sys
F, prop, rule, mprops, what = sys.argv[1:6]
c = sys.argv[6] if len(sys.argv) > 6 else 'HEAD'
h = subprocess.run(['git', '-C', '/repo', 'log', '--format=%h', '-1', c], capture_output=True, text=True).stdout.strip()
open('/verif/selftest/mutants/reintroduce_%s.diff' % F, 'w').write(subprocess.run(['git', '-C', '/repo', 'diff', c + '~1', c, '-R'], capture_output=True, text=True).stdout)
p = '/verif/known_findings.json'
d = json.load(open(p))
d['fixed'] = [x for x in d['fixed'] if (" %s " % F) not in x]
d['fixed'].append("fixed: property=%s %s %s %s" % (prop, h, F, what))
json.dump(d, open(p, 'w'), indent=1)
ms = json.load(open('/verif/selftest/mutants.json'))
ms = [m for m in ms if m['name'] != 'reintroduce_' + F]
m = {"name": "reintroduce_" + F, "patch": "reintroduce_%s.diff" % F, "properties": mprops.split(","), "expect": "violation", "note": "reverse of fix %s" % h}
if rule != "-":
    m["rule"] = rule
ms.append(m)
json.dump(ms, open('/verif/selftest/mutants.json', 'w'), indent=1)
print(F, h)
