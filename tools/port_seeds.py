#!/usr/bin/env python3
"""port_seeds.py <ids...>: re-make seeded patches that no longer `git apply` on /repo HEAD (context moved by a later fix): apply with
patch(1) fuzz in a scratch worktree, regenerate the diff with git, store it (seeded/, seeded/_unverified/, /tmp/seeds, selftest/mutants)."""
import json, os, subprocess, sys, shutil
def sh(c): return subprocess.run(c, shell=True, capture_output=True, text=True)
for s in sys.argv[1:]:
    src = None
    for d in ('/verif/seeded/%s' % s, '/verif/seeded/_unverified/%s' % s):
        if os.path.exists(d + '/patch.diff'):
            src = d + '/patch.diff'; break
    if src is None and os.path.exists('/verif/selftest/mutants/%s.diff' % s):
        src = '/verif/selftest/mutants/%s.diff' % s
    wt = '/tmp/port_' + s
    sh('git -C /repo worktree remove --force %s' % wt); shutil.rmtree(wt, ignore_errors=True)
    sh('git -C /repo worktree add -q --detach %s HEAD' % wt)
    r = sh('patch -p1 -s --fuzz=3 -d %s -i %s' % (wt, src))
    if r.returncode != 0:
        print('FAILED', s, (r.stdout + r.stderr)[-200:].replace('\n', ' '))
    else:
        new = sh('git -C %s diff -- include' % wt).stdout
        c = sh('cd %s && echo "#include <yorel/yomm2/keywords.hpp>\n#include <yorel/yomm2/generator.hpp>\n#include <yorel/yomm2/decode.hpp>\nint main(){}" > t.cpp && g++ -std=gnu++17 -fsyntax-only -Iinclude t.cpp' % wt)
        if c.returncode != 0:
            print('PORTED-BUT-DOES-NOT-COMPILE', s, c.stderr[-200:])
        else:
            for d in ('/verif/seeded/%s' % s, '/verif/seeded/_unverified/%s' % s, '/tmp/seeds/%s' % s):
                if os.path.isdir(d):
                    open(d + '/patch.diff', 'w').write(new)
                    mp = d + '/meta.json'
                    if os.path.exists(mp):
                        m = json.load(open(mp)); m['ported'] = (m.get('ported', '') + ' | ' if m.get('ported') else '') + 're-made against /repo %s (same change; context moved by later fixes)' % sh('git -C /repo log --format=%h -1').stdout.strip()
                        json.dump(m, open(mp, 'w'), indent=1)
            name = s if s.startswith(('ok_', 'reintroduce_')) else 'seed_' + s
            if os.path.exists('/verif/selftest/mutants/%s.diff' % name):
                open('/verif/selftest/mutants/%s.diff' % name, 'w').write(new)
            print('ported', s, len(new.splitlines()))
    sh('git -C /repo worktree remove --force %s' % wt); shutil.rmtree(wt, ignore_errors=True)
