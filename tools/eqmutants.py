#!/usr/bin/env python3
"""Generate behaviour-preserving rewrites of conditions / increments over the library headers (one mutant per family per
file, every compiling site rewritten at once), register them as `ok_eq_*` selftest mutants. The checks must stay silent."""
import json, os, re, shutil, subprocess, sys, tempfile
FILES = ["detail/compiler.hpp", "core.hpp", "detail.hpp", "detail/static_list.hpp", "policies/fast_perfect_hash.hpp", "policies/vptr_vector.hpp",
         "policies/vptr_map.hpp", "decode.hpp", "generator.hpp", "policy.hpp", "policies/core.hpp"]
TU = r'''
#include <yorel/yomm2/keywords.hpp>
#include <yorel/yomm2/generator.hpp>
#include <yorel/yomm2/decode.hpp>
#include <yorel/yomm2/templates.hpp>
#include <sstream>
using yorel::yomm2::virtual_ptr;
struct A{virtual ~A(){}};struct B:A{};struct C:A{};
register_classes(A,B,C);
declare_method(void,f,(virtual_<A&>));define_method(void,f,(B&)){}
declare_method(void,g,(virtual_<A&>,virtual_<A&>));define_method(void,g,(B&,C&)){}
declare_method(void,h,(virtual_ptr<A>,std::shared_ptr<int>));define_method(void,h,(virtual_ptr<B>,std::shared_ptr<int>)){}
namespace pol = yorel::yomm2::policy;
struct def_rtti : pol::deferred_static_rtti {
    template<typename T> static yorel::yomm2::type_id static_type() { return sizeof(T); }
    template<typename T> static yorel::yomm2::type_id dynamic_type(const T& obj) { return 0; }
    template<typename D, typename B_> static D dynamic_cast_ref(B_&& obj) { return dynamic_cast<D>(obj); }
};
struct p_def : pol::basic_policy<p_def, def_rtti, pol::vptr_vector<p_def>, pol::vectored_error<p_def>> {};
struct p_map : pol::basic_policy<p_map, pol::std_rtti, pol::vptr_map<p_map>, pol::vectored_error<p_map>> {};
struct p_ind : pol::release::rebind<p_ind>, pol::basic_indirect_vptr<p_ind> {};
yorel::yomm2::use_classes<A, B, C, p_def> reg_def; yorel::yomm2::use_classes<A, B, C, p_map> reg_map; yorel::yomm2::use_classes<A, B, C, p_ind> reg_ind;
void others() { yorel::yomm2::update<p_def>(); yorel::yomm2::update<p_map>(); yorel::yomm2::update<p_ind>(); yorel::yomm2::update<pol::debug>(); yorel::yomm2::update<pol::release>(); }
int main(){ auto r = yorel::yomm2::update(); B b; f(b); g(b,b); h(virtual_ptr<A>(b), nullptr); auto vp = virtual_ptr<B>::final(b);
  std::ostringstream os; yorel::yomm2::generator gen; gen.add_forward_declarations<yorel::yomm2::default_policy>(); gen.write_forward_declarations(os);
  gen.write_static_offsets<yorel::yomm2::default_policy>(os); gen.encode_dispatch_data(yorel::yomm2::detail::compiler<yorel::yomm2::default_policy>(), os);
  auto vs = yorel::yomm2::make_virtual_shared<B>(); (void)vs; (void)vp; (void)r; yorel::yomm2::default_policy::classes.clear(); }
'''
def compiles(inc):
    with tempfile.TemporaryDirectory(prefix="eqm.") as t:
        open(t + "/t.cpp", "w").write(TU)
        for flags in ([], ["-DNDEBUG"]):
            r = subprocess.run(["g++", "-std=gnu++17", "-fsyntax-only", "-I", inc, t + "/t.cpp"] + flags, capture_output=True, text=True)
            if r.returncode:
                return False, r.stderr[-600:]
    return True, ""
ID = r"[A-Za-z_][\w]*(?:(?:\.|->)[A-Za-z_]\w*)*"
FAMILIES = {
    "nullptr": [(re.compile(r"if \(!(" + ID + r")\) \{"), lambda m: "if (%s == nullptr) {" % m.group(1))],
    "empty": [(re.compile(r"!(" + ID + r")\.empty\(\)"), lambda m: "%s.size() > 0" % m.group(1)),
              (re.compile(r"(?<![!\w.>])(" + ID + r")\.empty\(\)"), lambda m: "%s.size() == 0" % m.group(1))],
    "swapeq": [(re.compile(r"\((\*?" + ID + r") (==|!=) (\*?" + ID + r")\)"), lambda m: "(%s %s %s)" % (m.group(3), m.group(2), m.group(1)))],
    "iszero": [(re.compile(r"\((" + ID + r") == 0\)"), lambda m: "(!%s)" % m.group(1))],
    "postinc": [(re.compile(r"; \+\+(" + ID + r")\) \{"), lambda m: "; %s++) {" % m.group(1))],
    "stmtinc": [(re.compile(r"(\n\s+)\+\+(" + ID + r");"), lambda m: "%s%s++;" % (m.group(1), m.group(2)))],
    "pluseq": [(re.compile(r"(\n\s+)\+\+(" + ID + r");"), lambda m: "%s%s += 1;" % (m.group(1), m.group(2)))],
    "ltflip": [(re.compile(r"; (" + ID + r") (<|!=) (" + ID + r"(?:\(\))?); "), lambda m: "; %s %s %s; " % (m.group(3), ">" if m.group(2) == "<" else "!=", m.group(1)))],
    "gtflip": [(re.compile(r"\((" + ID + r"(?:\(\))?) (>|>=|<|<=) (\d+)\)"), lambda m: "(%s %s %s)" % (m.group(3), {">": "<", ">=": "<=", "<": ">", "<=": ">="}[m.group(2)], m.group(1)))],
}
ONLY = set(sys.argv[1:])
def main():
    out = []
    for fam, rules in FAMILIES.items():
        if ONLY and fam not in ONLY:
            continue
        for fn in FILES:
            src = open("/repo/include/yorel/yomm2/" + fn).read()
            sites = []
            for rx, rp in rules:
                for m in rx.finditer(src):
                    sites.append((m.start(), m.end(), rp(m)))
            sites.sort()
            # drop overlapping
            keep, last = [], -1
            for a, b, t in sites:
                if a >= last:
                    keep.append((a, b, t)); last = b
            if not keep:
                continue
            tmp = tempfile.mkdtemp(prefix="eqg.")
            try:
                for d in ("a", "b"):
                    shutil.copytree("/repo/include", os.path.join(tmp, d, "include"))
                good = []
                for a, b, t in keep:
                    trial = good + [(a, b, t)]
                    s2 = src
                    for a2, b2, t2 in sorted(trial, reverse=True):
                        s2 = s2[:a2] + t2 + s2[b2:]
                    open(os.path.join(tmp, "b/include/yorel/yomm2", fn), "w").write(s2)
                    ok, err = compiles(os.path.join(tmp, "b/include"))
                    if ok:
                        good = trial
                if not good:
                    continue
                s2 = src
                for a2, b2, t2 in sorted(good, reverse=True):
                    s2 = s2[:a2] + t2 + s2[b2:]
                open(os.path.join(tmp, "b/include/yorel/yomm2", fn), "w").write(s2)
                name = "ok_eq_%s_%s" % (fam, re.sub(r"\W", "_", fn.replace(".hpp", "")))
                r = subprocess.run(["diff", "-ru", "a/include", "b/include"], cwd=tmp, capture_output=True, text=True)
                open("/verif/selftest/mutants/%s.diff" % name, "w").write(r.stdout)
                out.append((name, len(good), len(keep)))
            finally:
                shutil.rmtree(tmp, ignore_errors=True)
    ms = json.load(open("/verif/selftest/mutants.json"))
    allp = ["C01", "C02", "C03", "C04", "C05", "C07", "C08", "C09", "C10", "C11", "C12", "C13", "C14", "C15", "C16", "C17", "C18", "C20"]
    for name, g, k in out:
        ms = [m for m in ms if m["name"] != name]
        ms.append({"name": name, "patch": name + ".diff", "properties": allp, "expect": "silent", "note": "equivalent rewrite, %d of %d sites" % (g, k)})
        print(name, g, k)
    json.dump(ms, open("/verif/selftest/mutants.json", "w"), indent=1)
main()
