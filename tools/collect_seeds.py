#!/usr/bin/env python3
"""collect_seeds.py <worktree-suffix> <ID>... : copy /tmp/wt/<ID><suffix>/_seed/* to /tmp/seeds and seeded/_unverified, register the
patches as selftest mutants seed_<ID>_<k>, remove the worktree."""
import json, os, shutil, subprocess, sys
suffix = sys.argv[1]
for pid in sys.argv[2:]:
    wt = "/tmp/wt/%s%s" % (pid, suffix)
    sd = os.path.join(wt, "_seed")
    ms = json.load(open("/verif/selftest/mutants.json"))
    for d in sorted(os.listdir(sd)) if os.path.isdir(sd) else []:
        src = os.path.join(sd, d)
        if not os.path.exists(os.path.join(src, "patch.diff")):
            continue
        for dst in ("/tmp/seeds", "/verif/seeded/_unverified"):
            os.makedirs(dst, exist_ok=True)
            shutil.rmtree(os.path.join(dst, d), ignore_errors=True)
            shutil.copytree(src, os.path.join(dst, d))
        shutil.copy(os.path.join(src, "patch.diff"), "/verif/selftest/mutants/seed_%s.diff" % d)
        try:
            note = json.load(open(os.path.join(src, "meta.json"))).get("summary", "")[:160]
        except Exception:
            note = ""
        n = "seed_" + d
        ms = [m for m in ms if m["name"] != n]
        ms.append({"name": n, "patch": n + ".diff", "properties": [pid], "expect": "violation", "note": note})
        print("collected", d)
    json.dump(ms, open("/verif/selftest/mutants.json", "w"), indent=1)
    subprocess.run(["git", "-C", "/repo", "worktree", "remove", "--force", wt])
