#!/usr/bin/env python3
"""mkmutant.py NAME PROPS EXPECT RULE FILE 'old' 'new' [NOTE]  - write selftest/mutants/NAME.diff (old must occur once in
/repo/include/yorel/yomm2/FILE), check that <yorel/yomm2/keywords.hpp>+compiler.hpp still compile, register in mutants.json."""
import json, os, shutil, subprocess, sys, tempfile
name, props, expect, rule, file, old, new = sys.argv[1:8]
note = sys.argv[8] if len(sys.argv) > 8 else ""
tmp = tempfile.mkdtemp(prefix="mm.")
try:
    for d in ("a", "b"):
        shutil.copytree("/repo/include", os.path.join(tmp, d, "include"))
    p = os.path.join(tmp, "b", "include/yorel/yomm2", file)
    s = open(p).read()
    old = old.replace("\\n", "\n"); new = new.replace("\\n", "\n")
    assert s.count(old) == 1, "old occurs %d times" % s.count(old)
    open(p, "w").write(s.replace(old, new))
    r = subprocess.run(["diff", "-ru", "a/include", "b/include"], cwd=tmp, capture_output=True, text=True)
    open("/verif/selftest/mutants/%s.diff" % name, "w").write(r.stdout)
    src = os.path.join(tmp, "t.cpp")
    open(src, "w").write('#include <yorel/yomm2/keywords.hpp>\n#include <yorel/yomm2/generator.hpp>\n#include <yorel/yomm2/decode.hpp>\nstruct A{virtual ~A(){}};struct B:A{};register_classes(A,B);declare_method(void,f,(virtual_<A&>));define_method(void,f,(B&)){}\nint main(){yorel::yomm2::update();f(*new B);}\n')
    r = subprocess.run(["g++", "-std=gnu++17", "-fsyntax-only", "-I", os.path.join(tmp, "b/include"), src], capture_output=True, text=True)
    if r.returncode:
        print("DOES NOT COMPILE:", r.stderr[-800:]); sys.exit(1)
    ms = json.load(open("/verif/selftest/mutants.json"))
    ms = [m for m in ms if m["name"] != name]
    m = {"name": name, "patch": name + ".diff", "properties": props.split(","), "expect": expect, "note": note}
    if rule != "-":
        m["rule"] = rule
    ms.append(m)
    json.dump(ms, open("/verif/selftest/mutants.json", "w"), indent=1)
    print("ok", name)
finally:
    shutil.rmtree(tmp, ignore_errors=True)
