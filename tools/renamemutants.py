#!/usr/bin/env python3
"""Behaviour-preserving renaming of local variables, one mutant per header (ok_rename_*): rules must identify locals by their
definition and use, never by name."""
import json, os, re, shutil, subprocess, sys, tempfile
NAMES = {
    "detail/compiler.hpp": ["rtc", "rtb", "rtbb", "cr", "class_", "mask", "group", "spec", "specs", "candidates", "nexts", "next_info", "dims", "slot", "unavailable_slots", "stride",
                            "meth_iter", "spec_iter", "meth_info", "definition_info", "param_index", "method_index", "spec_size", "covariant", "covariant_class", "pd", "next_slot",
                            "gv_first", "gv_last", "gv_iter", "dispatch_data_size", "mark", "bases", "dim_group", "group_num", "applicable", "best", "best_iter", "candidate", "total", "partial",
                            "a_iter", "a_last", "b_iter", "result", "first_slot", "ci", "ti", "definition", "base_iter", "error", "type"],
    "detail/static_list.hpp": ["prev", "next", "last", "cur", "tmp"],
    "policies/fast_perfect_hash.hpp": ["found", "attempts", "total_attempts", "hash_size", "index", "iter", "type_iter", "rnd", "uniform_dist", "pass", "buckets", "error"],
    "policies/vptr_vector.hpp": ["size", "index", "iter", "type_iter"],
    "policies/vptr_map.hpp": ["iter", "type_iter"],
    "core.hpp": ["dynamic_id", "static_id", "index", "pf", "ti_iter", "slots_strides", "dynamic_type", "static_type", "result", "stride", "slot", "dispatch"],
    "detail.hpp": ["obj", "ptr"],
    "generator.hpp": ["name_iter", "ns_last", "prev_ns_iter", "prev_ns_last", "scope_iter", "iter", "match", "comma", "method_name"],
    "decode.hpp": ["method_index", "dtbl_iter", "defs", "more", "spec_index", "encode_iter", "decode_iter", "first_slot", "code", "group_index", "methods_iter", "method_defs_iter", "packed_slots_iter", "slots_strides_count", "specs"],
}
src_tool = open("/verif/tools/eqmutants.py").read()
TU = src_tool[src_tool.index("TU = r'''") + 9:src_tool.index("'''\ndef compiles")]

def compiles(inc):
    with tempfile.TemporaryDirectory(prefix="rnm.") as t:
        open(t + "/t.cpp", "w").write(TU)
        for flags in ([], ["-DNDEBUG"]):
            r = subprocess.run(["g++", "-std=gnu++17", "-fsyntax-only", "-I", inc, t + "/t.cpp"] + flags, capture_output=True, text=True)
            if r.returncode:
                return False
    return True

ms = json.load(open("/verif/selftest/mutants.json"))
allp = ["C01", "C02", "C03", "C04", "C05", "C06", "C07", "C08", "C09", "C10", "C11", "C12", "C13", "C14", "C15", "C16", "C17", "C18", "C19", "C20"]
for fn, names in NAMES.items():
    src = open("/repo/include/yorel/yomm2/" + fn).read()
    tmp = tempfile.mkdtemp(prefix="rng.")
    try:
        for d in ("a", "b"):
            shutil.copytree("/repo/include", os.path.join(tmp, d, "include"))
        good = []
        cur = src
        for nm in names:
            trial = re.sub(r"(?<![\w.>:])%s\b(?!\s*(::|<))" % re.escape(nm), nm + "_r", cur)
            if trial == cur:
                continue
            open(os.path.join(tmp, "b/include/yorel/yomm2", fn), "w").write(trial)
            if compiles(os.path.join(tmp, "b/include")):
                cur = trial
                good.append(nm)
        open(os.path.join(tmp, "b/include/yorel/yomm2", fn), "w").write(cur)
        if not good:
            continue
        name = "ok_rename2_%s" % re.sub(r"\W", "_", fn.replace(".hpp", ""))
        r = subprocess.run(["diff", "-ru", "a/include", "b/include"], cwd=tmp, capture_output=True, text=True)
        open("/verif/selftest/mutants/%s.diff" % name, "w").write(r.stdout)
        ms = [m for m in ms if m["name"] != name]
        ms.append({"name": name, "patch": name + ".diff", "properties": allp, "expect": "silent", "note": "locals renamed: " + ", ".join(good)})
        print(name, good)
    finally:
        shutil.rmtree(tmp, ignore_errors=True)
json.dump(ms, open("/verif/selftest/mutants.json", "w"), indent=1)
