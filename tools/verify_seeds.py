#!/usr/bin/env python3
"""Confirm sub-agent seeds independently: for each /tmp/seeds/<id>: in a scratch worktree of /repo HEAD the demo must pass
on the clean tree, fail with the patch, and the repository's test suite must build and pass with the patch. Confirmed seeds
are stored as /verif/seeded/<id>/{patch.diff,demo.cpp,meta.json}. Worktrees are removed afterwards."""
import json, os, shutil, subprocess, sys, time
SEEDS = "/tmp/seeds"
OUT = "/verif/seeded"

def sh(cmd, cwd=None, timeout=1800):
    try:
        r = subprocess.run(cmd, shell=True, cwd=cwd, capture_output=True, text=True, timeout=timeout)
        return r.returncode, (r.stdout + r.stderr)[-3000:]
    except subprocess.TimeoutExpired:
        return 124, "timeout"

def verify(sid):
    sd = os.path.join(SEEDS, sid)
    meta = json.load(open(os.path.join(sd, "meta.json")))
    wt = "/tmp/vs/" + sid
    sh("git -C /repo worktree remove --force %s" % wt)
    rc, out = sh("git -C /repo worktree add -q --detach %s HEAD" % wt)
    res = {"seed": sid, "property": meta.get("property"), "summary": meta.get("summary"), "needs_to_manifest": meta.get("needs_to_manifest")}
    try:
        nd = "-DNDEBUG" if meta.get("ndebug") else ""
        extra = "-pthread" if sid.startswith("C16") else ""
        comp = "g++ -std=gnu++17 -I%s/include %s -O1 %s %s/demo.cpp -o %s/demo" % (wt, nd, extra, sd, wt)
        rc, out = sh(comp)
        if rc != 0:
            res["clean"] = "demo does not compile on the clean tree: " + out[-400:]
            return res
        os.environ["YOMM2_INCLUDE"] = wt + "/include"      # two-stage demos recompile themselves against the tree under test
        os.environ["DEMO_SRC"] = sd + "/demo.cpp"
        rc, out = sh("%s/demo" % wt, cwd=wt, timeout=300)
        res["clean_exit"] = rc
        res["clean_tail"] = out[-200:]
        rc, out = sh("git -C %s apply %s/patch.diff" % (wt, sd))
        if rc != 0:
            res["apply"] = "patch does not apply: " + out[-300:]
            return res
        rc, out = sh(comp)
        if rc != 0:
            res["mutant_exit"] = "compile error"
            res["mutant_tail"] = out[-300:]
        else:
            rc, out = sh("%s/demo" % wt, cwd=wt, timeout=300)
            res["mutant_exit"] = rc
            res["mutant_tail"] = out[-300:]
        t = time.time()
        rc, out = sh("cmake -S %s -B %s/_build -G Ninja -DCMAKE_BUILD_TYPE=RelWithDebInfo -DYOMM2_ENABLE_TESTS=ON >/dev/null && cmake --build %s/_build -j16 2>&1 | tail -3 && ctest --test-dir %s/_build -j16 2>&1 | tail -4" % (wt, wt, wt, wt), timeout=3000)
        res["tests_rc"] = rc
        res["tests_tail"] = out[-300:]
        res["tests_s"] = round(time.time() - t)
        res["confirmed"] = (res.get("clean_exit") == 0 and res.get("mutant_exit") not in (0, "compile error") and rc == 0 and "100% tests passed" in out)
        return res
    finally:
        sh("git -C /repo worktree remove --force %s" % wt)
        shutil.rmtree(wt, ignore_errors=True)

def main():
    force = "--force" in sys.argv
    if force:
        sys.argv.remove("--force")
    ids = sys.argv[1:] or sorted(os.listdir(SEEDS))
    os.makedirs("/tmp/vs", exist_ok=True)
    for sid in ids:
        if os.path.exists(os.path.join(OUT, sid, "meta.json")) and not force:
            continue
        r = verify(sid)
        print(sid, "CONFIRMED" if r.get("confirmed") else "NOT-CONFIRMED", {k: r[k] for k in ("clean_exit", "mutant_exit", "tests_rc", "apply", "clean") if k in r}, flush=True)
        if r.get("confirmed"):
            d = os.path.join(OUT, sid)
            os.makedirs(d, exist_ok=True)
            shutil.copy(os.path.join(SEEDS, sid, "patch.diff"), d)
            shutil.copy(os.path.join(SEEDS, sid, "demo.cpp"), d)
            meta = json.load(open(os.path.join(SEEDS, sid, "meta.json")))
            meta["verified_by_me"] = {"clean_exit": r["clean_exit"], "mutant_exit": r["mutant_exit"], "mutant_output_tail": r.get("mutant_tail"), "test_suite": "built in a scratch worktree of /repo HEAD with the patch: " + r["tests_tail"].strip()[-120:],
                                      "what_i_ran": "g++ -std=gnu++17 -I<worktree>/include %s -O1 demo.cpp && ./demo (clean, then with patch.diff applied); cmake -G Ninja RelWithDebInfo + ctest -j16 with the patch" % ("-DNDEBUG" if meta.get("ndebug") else "")}
            json.dump(meta, open(os.path.join(d, "meta.json"), "w"), indent=1)
        else:
            json.dump(r, open("/tmp/vs/%s.notconfirmed.json" % sid, "w"), indent=1)

if __name__ == "__main__":
    main()
